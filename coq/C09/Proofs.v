(* C09: proofs about the sub-location model. *)
From ASV.C09 Require Import Model.
From Coq Require Import ZifyBool.

(* ================= generic list facts ================= *)
Lemma skipn_skipn_add {A} (n m : nat) (l : list A) : skipn n (skipn m l) = skipn (m + n) l.
Proof.
  revert l. induction m as [|m IH]; intros l; [reflexivity|].
  destruct l as [|x l]; [rewrite !skipn_nil; reflexivity|]. simpl. apply IH.
Qed.

Lemma firstn_firstn_skipn {A} (n m : nat) (l : list A) :
  firstn n l ++ firstn m (skipn n l) = firstn (n + m) l.
Proof.
  revert l. induction n as [|n IH]; intros l; [reflexivity|].
  destruct l as [|x l]; [simpl; rewrite firstn_nil; reflexivity|]. simpl. f_equal. apply IH.
Qed.

(* ---------- sublist ---------- *)
Lemma sublist_app_r {A} (l1 l2 : list A) k u v :
  length l1 = Z.to_nat k -> 0 <= k <= u -> u <= v ->
  sublist u v (l1 ++ l2) = sublist (u - k) (v - k) l2.
Proof.
  intros HL Hk Huv. unfold sublist. rewrite skipn_app. rewrite skipn_all2 by lia. simpl.
  rewrite HL. f_equal; [lia|]. f_equal. lia.
Qed.

Lemma sublist_app_l {A} (l1 l2 : list A) k u v :
  length l1 = Z.to_nat k -> 0 <= u <= v -> v <= k ->
  sublist u v (l1 ++ l2) = sublist u v l1.
Proof.
  intros HL Hu Hv. unfold sublist. rewrite skipn_app, firstn_app, skipn_length.
  replace (Z.to_nat (v - u) - (length l1 - Z.to_nat u))%nat with 0%nat by lia.
  simpl. apply app_nil_r.
Qed.

Lemma sublist_app_mid {A} (l1 l2 : list A) k u v :
  length l1 = Z.to_nat k -> 0 <= u <= k -> k <= v ->
  sublist u v (l1 ++ l2) = skipn (Z.to_nat u) l1 ++ firstn (Z.to_nat (v - k)) l2.
Proof.
  intros HL Hu Hv. unfold sublist. rewrite skipn_app, firstn_app, skipn_length.
  rewrite firstn_all2 by (rewrite skipn_length; lia). f_equal.
  replace (Z.to_nat u - length l1)%nat with 0%nat by lia. simpl. f_equal. lia.
Qed.

Lemma sublist_map {A B} (f : A -> B) u v l : sublist u v (map f l) = map f (sublist u v l).
Proof. unfold sublist. rewrite skipn_map, firstn_map. reflexivity. Qed.

Lemma sublist_length {A} u v (l : list A) :
  0 <= u <= v -> (Z.to_nat v <= length l)%nat -> length (sublist u v l) = Z.to_nat (v - u).
Proof. intros H1 H2. unfold sublist. rewrite firstn_length, skipn_length. lia. Qed.

Lemma sublist_join {A} a b c (l : list A) : 0 <= a <= b -> b <= c ->
  sublist a b l ++ sublist b c l = sublist a c l.
Proof.
  intros H1 H2. unfold sublist.
  replace (skipn (Z.to_nat b) l) with (skipn (Z.to_nat (b - a)) (skipn (Z.to_nat a) l))
    by (rewrite skipn_skipn_add; f_equal; lia).
  rewrite firstn_firstn_skipn. f_equal. lia.
Qed.

Lemma sublist_nil {A} a (l : list A) : sublist a a l = [].
Proof. unfold sublist. rewrite Z.sub_diag. reflexivity. Qed.

Lemma skipn_firstn_sub {A} (u : nat) : forall (v : nat) (l : list A), (u <= v)%nat ->
  skipn u (firstn v l) = firstn (v - u) (skipn u l).
Proof.
  induction u as [|u IH]; intros v l H.
  - rewrite Nat.sub_0_r. reflexivity.
  - destruct v as [|v]; [lia|]. destruct l as [|x l]; [simpl; rewrite firstn_nil; reflexivity|].
    simpl. apply IH. lia.
Qed.

(* rev (l[u:v]) = (rev l)[n-v : n-u] *)
Lemma rev_sublist {A} u v (l : list A) n : 0 <= u <= v -> v <= n -> length l = Z.to_nat n ->
  rev (sublist u v l) = sublist (n - v) (n - u) (rev l).
Proof.
  intros H1 H2 HL. unfold sublist. rewrite skipn_rev, firstn_rev. f_equal.
  rewrite firstn_length.
  replace (Init.Nat.min (length l - Z.to_nat (n - v)) (length l)) with (Z.to_nat v) by lia.
  replace (Z.to_nat v - Z.to_nat (n - u - (n - v)))%nat with (Z.to_nat u) by lia.
  replace (length l - Z.to_nat (n - v))%nat with (Z.to_nat v) by lia.
  rewrite skipn_firstn_sub by lia. f_equal. lia.
Qed.

(* ================= coordinate ranges ================= *)
Lemma zrange_n_length a n : length (zrange_n a n) = n.
Proof. revert a. induction n as [|n IH]; intros a; simpl; [reflexivity|]. rewrite IH. reflexivity. Qed.

Lemma zrange_n_app a n k : zrange_n a (n + k) = zrange_n a n ++ zrange_n (a + Z.of_nat n) k.
Proof.
  revert a. induction n as [|n IH]; intros a.
  - simpl. rewrite Z.add_0_r. reflexivity.
  - simpl. rewrite IH. f_equal. f_equal. f_equal. lia.
Qed.

Lemma zrange_length a b : length (zrange a b) = Z.to_nat (b - a).
Proof. apply zrange_n_length. Qed.

Lemma zrange_split a m b : a <= m <= b -> zrange a b = zrange a m ++ zrange m b.
Proof.
  intros H. unfold zrange.
  replace (Z.to_nat (b - a)) with (Z.to_nat (m - a) + Z.to_nat (b - m))%nat by lia.
  rewrite zrange_n_app. f_equal. f_equal. lia.
Qed.

Lemma firstn_zrange a b k : 0 <= k <= b - a -> firstn (Z.to_nat k) (zrange a b) = zrange a (a + k).
Proof.
  intros H. rewrite (zrange_split a (a + k) b) by lia. rewrite firstn_app, zrange_length.
  replace (Z.to_nat k - Z.to_nat (a + k - a))%nat with 0%nat by lia. simpl. rewrite app_nil_r.
  apply firstn_all2. rewrite zrange_length. lia.
Qed.

Lemma skipn_zrange a b k : 0 <= k <= b - a -> skipn (Z.to_nat k) (zrange a b) = zrange (a + k) b.
Proof.
  intros H. rewrite (zrange_split a (a + k) b) by lia. rewrite skipn_app, zrange_length.
  rewrite skipn_all2 by (rewrite zrange_length; lia).
  replace (Z.to_nat k - Z.to_nat (a + k - a))%nat with 0%nat by lia. reflexivity.
Qed.

Lemma sublist_zrange a b u v : 0 <= u <= v -> v <= b - a ->
  sublist u v (zrange a b) = zrange (a + u) (a + v).
Proof.
  intros H1 H2. unfold sublist. rewrite skipn_zrange by lia. rewrite firstn_zrange by lia.
  f_equal. lia.
Qed.

(* ================= ascending exon lists ================= *)
Definition plen (p : part) : Z := pe p - ps p.
Definition asc (A : list part) : list Z := flat_map (fun p => zrange (ps p) (pe p)) A.

(* exons in ascending coordinate order: non-empty, not overlapping (adjacent allowed), from lo on *)
Fixpoint mono (lo : Z) (A : list part) : Prop :=
  match A with
  | [] => True
  | p :: r => lo <= ps p /\ ps p < pe p /\ mono (pe p) r
  end.

Lemma mono_b_spec A : forall lo, mono_b lo A = true <-> mono lo A.
Proof.
  induction A as [|p r IH]; intros lo; simpl; [tauto|].
  rewrite !andb_true_iff, IH, Z.leb_le, Z.ltb_lt. tauto.
Qed.

Lemma mono_weaken A lo lo' : lo' <= lo -> mono lo A -> mono lo' A.
Proof. destruct A as [|p r]; simpl; [tauto|]. intros H [H1 H2]. split; [lia|assumption]. Qed.

Lemma mono_in A : forall lo q, mono lo A -> In q A -> lo <= ps q /\ ps q < pe q.
Proof.
  induction A as [|p r IH]; intros lo q Hm Hin; [destruct Hin|].
  destruct Hm as [H1 [H2 H3]]. destruct Hin as [->|Hin]; [lia|].
  destruct (IH _ _ H3 Hin). lia.
Qed.

Lemma mono_app_last X : forall lo p, mono lo (X ++ [p]) -> forall q, In q X -> pe q <= ps p.
Proof.
  induction X as [|x X IH]; intros lo p Hm q Hin; [destruct Hin|].
  simpl in Hm. destruct Hm as [H1 [H2 H3]]. destruct Hin as [->|Hin].
  - assert (Hp : In p (X ++ [p])) by (apply in_or_app; right; left; reflexivity).
    destruct (mono_in _ _ _ H3 Hp). lia.
  - eapply IH; eassumption.
Qed.

Lemma llen_cons p r : llen (p :: r) = plen p + llen r.
Proof. reflexivity. Qed.

Lemma llen_app a b : llen (a ++ b) = llen a + llen b.
Proof. induction a as [|p a IH]; [reflexivity|]. simpl app. rewrite !llen_cons, IH. lia. Qed.

Lemma llen_rev a : llen (rev a) = llen a.
Proof.
  induction a as [|p a IH]; [reflexivity|]. simpl rev. rewrite llen_app, IH, !llen_cons.
  change (llen []) with 0. lia.
Qed.

Definition okp (p : part) : Prop := ps p <= pe p.

Lemma asc_length A : Forall okp A -> length (asc A) = Z.to_nat (llen A) /\ 0 <= llen A.
Proof.
  induction 1 as [|p r Hp Hr [IH1 IH2]]; [split; [reflexivity|change (llen []) with 0; lia]|].
  unfold asc in *. simpl flat_map. rewrite app_length, zrange_length, IH1, llen_cons.
  unfold okp, plen in *. lia.
Qed.

Lemma mono_okp A : forall lo, mono lo A -> Forall okp A.
Proof.
  induction A as [|p r IH]; intros lo Hm; [constructor|]. destruct Hm as [H1 [H2 H3]].
  constructor; [unfold okp; lia|eapply IH; eassumption].
Qed.

(* ---------- the coordinate of the r-th base of the spliced exons ---------- *)
Fixpoint locate (A : list part) (r : Z) : option Z :=
  match A with
  | [] => None
  | p :: rest => if (0 <=? r) && (r <? plen p) then Some (ps p + r) else locate rest (r - plen p)
  end.

Lemma locate_bounds A : forall lo r x, mono lo A -> locate A r = Some x ->
  exists q, In q A /\ ps q <= x < pe q /\ lo <= x.
Proof.
  induction A as [|p rest IH]; intros lo r x Hm Hl; [discriminate|].
  destruct Hm as [H1 [H2 H3]]. simpl in Hl.
  destruct ((0 <=? r) && (r <? plen p)) eqn:Hc.
  - injection Hl as <-. exists p. unfold plen in Hc. split; [left; reflexivity|lia].
  - destruct (IH _ _ _ H3 Hl) as [q [Hq [Hb Hlo]]]. exists q. split; [right; assumption|lia].
Qed.

Lemma locate_total A : forall lo r, mono lo A -> 0 <= r < llen A -> exists x, locate A r = Some x.
Proof.
  induction A as [|p rest IH]; intros lo r Hm Hr; [change (llen []) with 0 in Hr; lia|].
  destruct Hm as [H1 [H2 H3]]. rewrite llen_cons in Hr. simpl.
  destruct ((0 <=? r) && (r <? plen p)) eqn:Hc; [eexists; reflexivity|].
  apply (IH (pe p)); [assumption|lia].
Qed.

Lemma locate_mono A : forall lo u u' x x', mono lo A -> 0 <= u <= u' ->
  locate A u = Some x -> locate A u' = Some x' -> x <= x'.
Proof.
  induction A as [|p rest IH]; intros lo u u' x x' Hm Hu Hx Hx'; [discriminate|].
  destruct Hm as [H1 [H2 H3]]. simpl in Hx, Hx'.
  destruct ((0 <=? u) && (u <? plen p)) eqn:Hc; destruct ((0 <=? u') && (u' <? plen p)) eqn:Hc'.
  - injection Hx as <-. injection Hx' as <-. lia.
  - injection Hx as <-. destruct (locate_bounds _ _ _ _ H3 Hx') as [q [_ [_ Hlo]]]. unfold plen in Hc. lia.
  - lia.
  - apply (IH (pe p) (u - plen p) (u' - plen p)); try assumption. lia.
Qed.

Lemma in_part_true x p : ps p <= x < pe p -> in_part x p = true.
Proof. unfold in_part. lia. Qed.
Lemma in_part_false x p : x < ps p \/ pe p <= x -> in_part x p = false.
Proof. unfold in_part. lia. Qed.

(* ================= convert_protein_position_to_dna: the loop ================= *)
Definition osome (o : option Z) : bool := match o with Some _ => true | None => false end.

Lemma conv_loop_spec : forall parts gap last sf ef ds de,
  conv_loop parts gap last sf ef ds de =
  (sf || osome (locate parts (ds + gap - last)),
   ef || osome (locate parts (de - 1 + gap - last)),
   if sf then ds else match locate parts (ds + gap - last) with Some x => x | None => ds end,
   if ef then de else match locate parts (de - 1 + gap - last) with Some x => x + 1 | None => de end).
Proof.
  induction parts as [|p r IH]; intros gap last sf ef ds de.
  - simpl. destruct sf, ef; reflexivity.
  - cbn [conv_loop locate].
    assert (Hs : in_part (ds + (gap + (ps p - last))) p
                 = ((0 <=? ds + gap - last) && (ds + gap - last <? plen p)))
      by (unfold in_part, plen; lia).
    assert (He : in_part (de + (gap + (ps p - last)) - 1) p
                 = ((0 <=? de - 1 + gap - last) && (de - 1 + gap - last <? plen p)))
      by (unfold in_part, plen; lia).
    destruct sf, ef; cbn [andb negb orb]; [reflexivity| | |].
    + rewrite He. destruct ((0 <=? de - 1 + gap - last) && (de - 1 + gap - last <? plen p)) eqn:Hc.
      * rewrite IH. cbn [orb osome]. f_equal. lia.
      * rewrite IH. cbn [orb].
        replace (de - 1 + (gap + (ps p - last)) - pe p) with (de - 1 + gap - last - plen p)
          by (unfold plen; lia). reflexivity.
    + rewrite Hs. destruct ((0 <=? ds + gap - last) && (ds + gap - last <? plen p)) eqn:Hc.
      * rewrite IH. cbn [orb osome]. f_equal. f_equal. lia.
      * rewrite IH. cbn [orb].
        replace (ds + (gap + (ps p - last)) - pe p) with (ds + gap - last - plen p)
          by (unfold plen; lia). reflexivity.
    + rewrite Hs, He.
      destruct ((0 <=? ds + gap - last) && (ds + gap - last <? plen p)) eqn:Hc;
      destruct ((0 <=? de - 1 + gap - last) && (de - 1 + gap - last <? plen p)) eqn:Hc';
      rewrite IH; cbn [orb osome];
      replace (de - 1 + (gap + (ps p - last)) - pe p) with (de - 1 + gap - last - plen p)
          by (unfold plen; lia);
      replace (ds + (gap + (ps p - last)) - pe p) with (ds + gap - last - plen p)
          by (unfold plen; lia).
      * f_equal; [f_equal; lia|lia].
      * f_equal. f_equal. lia.
      * f_equal. lia.
      * reflexivity.
Qed.

(* ================= sorted(parts, key=start) on a gene that does not span the origin ============ *)
Lemma insert_end : forall acc x, Forall (fun y => ps y <= ps x) acc ->
  insert_by by_start x acc = acc ++ [x].
Proof.
  induction acc as [|y acc IH]; intros x H; [reflexivity|].
  inversion H as [|? ? Hy Hacc]; subst. simpl. unfold by_start at 1.
  destruct (ps x <? ps y) eqn:Hc; [lia|]. rewrite IH by assumption. reflexivity.
Qed.

Lemma sort_asc_aux : forall A lo acc, mono lo A -> Forall (fun y => ps y <= lo) acc ->
  fold_left (fun acc x => insert_by by_start x acc) A acc = acc ++ A.
Proof.
  induction A as [|p r IH]; intros lo acc Hm Hacc; [rewrite app_nil_r; reflexivity|].
  destruct Hm as [H1 [H2 H3]]. simpl fold_left.
  rewrite insert_end by (eapply Forall_impl; [|exact Hacc]; simpl; intros; lia).
  rewrite (IH (pe p)); [rewrite <- app_assoc; reflexivity|assumption|].
  apply Forall_app. split; [eapply Forall_impl; [|exact Hacc]; simpl; intros; lia|].
  constructor; [lia|constructor].
Qed.

Lemma sort_asc A lo : mono lo A -> sort_by by_start A = A.
Proof. intros H. unfold sort_by. rewrite (sort_asc_aux A lo []); [reflexivity|assumption|constructor]. Qed.

Lemma sort_rev A : forall lo, mono lo A -> sort_by by_start (rev A) = A.
Proof.
  unfold sort_by. induction A as [|p r IH]; intros lo Hm; [reflexivity|].
  destruct Hm as [H1 [H2 H3]]. simpl rev. rewrite fold_left_app. simpl fold_left.
  rewrite (IH (pe p)) by assumption.
  destruct r as [|q r']; [reflexivity|]. simpl. unfold by_start.
  destruct H3 as [H4 _]. destruct (ps p <? ps q) eqn:Hc; [reflexivity|lia].
Qed.

(* ---------- min / max of a list (as in C04) ---------- *)
Lemma fold_min_le l : forall x y, In y (x :: l) -> fold_left Z.min l x <= y.
Proof.
  induction l as [|a l IH]; intros x y Hin; simpl in *.
  - destruct Hin as [->|[]]. lia.
  - destruct Hin as [->|[->|Hin]].
    + specialize (IH (Z.min y a) (Z.min y a) (or_introl eq_refl)). lia.
    + specialize (IH (Z.min x y) (Z.min x y) (or_introl eq_refl)). lia.
    + apply IH. right. assumption.
Qed.
Lemma fold_max_ge l : forall x y, In y (x :: l) -> y <= fold_left Z.max l x.
Proof.
  induction l as [|a l IH]; intros x y Hin; simpl in *.
  - destruct Hin as [->|[]]. lia.
  - destruct Hin as [->|[->|Hin]].
    + specialize (IH (Z.max y a) (Z.max y a) (or_introl eq_refl)). lia.
    + specialize (IH (Z.max x y) (Z.max x y) (or_introl eq_refl)). lia.
    + apply IH. right. assumption.
Qed.
Lemma fold_min_in l : forall x, In (fold_left Z.min l x) (x :: l).
Proof.
  induction l as [|a l IH]; intros x; simpl.
  - left. reflexivity.
  - destruct (IH (Z.min x a)) as [H|H].
    + destruct (Z.min_spec x a) as [[_ E]|[_ E]]; rewrite E in *; auto.
    + right. right. assumption.
Qed.
Lemma lmin_le l y : In y l -> lmin l <= y.
Proof. destruct l as [|x l]; [intros []|]. apply fold_min_le. Qed.
Lemma lmax_ge l y : In y l -> y <= lmax l.
Proof. destruct l as [|x l]; [intros []|]. apply fold_max_ge. Qed.
Lemma lmin_in l : l <> [] -> In (lmin l) l.
Proof. destruct l as [|x l]; [congruence|]. intros _. apply fold_min_in. Qed.
Lemma lmin_unique l m : In m l -> (forall y, In y l -> m <= y) -> lmin l = m.
Proof.
  intros Hin Hle. assert (Hne : l <> []) by (intros ->; destruct Hin).
  pose proof (lmin_in l Hne) as H1. pose proof (lmin_le l m Hin) as H2.
  specialize (Hle _ H1). lia.
Qed.

(* ================= the gene in transcription order ================= *)
Definition gene_of (st : Z) (A : list part) : loc := if st =? -1 then rev A else A.
Definition same_strand (st : Z) (A : list part) : Prop := Forall (fun p => pst p = st) A.

Lemma same_strand_cons st p r : same_strand st (p :: r) -> pst p = st /\ same_strand st r.
Proof. unfold same_strand. intros H. apply Forall_cons_iff in H. exact H. Qed.

Lemma in_gene st A q : In q (gene_of st A) <-> In q A.
Proof. unfold gene_of. destruct (st =? -1); [symmetry; apply in_rev|tauto]. Qed.

Lemma same_strand_gene st A : same_strand st A -> same_strand st (gene_of st A).
Proof. unfold gene_of, same_strand. destruct (st =? -1); [apply Forall_rev|tauto]. Qed.

Lemma lstrand_same st l : l <> [] -> same_strand st l -> lstrand l = st.
Proof.
  destruct l as [|p r]; [congruence|]. intros _ H. inversion H as [|? ? Hp Hr]; subst.
  unfold lstrand. replace (forallb (fun q => pst q =? pst p) r) with true; [reflexivity|].
  symmetry. apply forallb_forall. intros q Hq. rewrite Forall_forall in Hr. rewrite (Hr q Hq). lia.
Qed.

Lemma gene_nonempty st A : A <> [] -> gene_of st A <> [].
Proof.
  unfold gene_of. destruct (st =? -1); [|tauto]. intros H E. apply H.
  rewrite <- (rev_involutive A), E. reflexivity.
Qed.

Lemma llen_gene st A : llen (gene_of st A) = llen A.
Proof. unfold gene_of. destruct (st =? -1); [apply llen_rev|reflexivity]. Qed.

Lemma sort_gene st A lo : mono lo A -> sort_by by_start (gene_of st A) = A.
Proof. unfold gene_of. destruct (st =? -1); [apply sort_rev|apply sort_asc]. Qed.

Lemma lstart_gene st p A lo : mono lo (p :: A) -> lstart (gene_of st (p :: A)) = ps p.
Proof.
  intros Hm. unfold lstart. apply lmin_unique.
  - apply in_map. apply in_gene. left. reflexivity.
  - intros y Hy. apply in_map_iff in Hy. destruct Hy as [q [<- Hq]]. apply in_gene in Hq.
    destruct Hq as [->|Hq]; [lia|]. destruct Hm as [_ [H2 H3]].
    destruct (mono_in _ _ _ H3 Hq). lia.
Qed.

Lemma lend_gene_ge st A q : In q A -> pe q <= lend (gene_of st A).
Proof. intros H. unfold lend. apply lmax_ge. apply in_map. apply in_gene. assumption. Qed.

Lemma is_compound_gene st A : is_compound (gene_of st A) = is_compound A.
Proof.
  unfold gene_of. destruct (st =? -1); [|reflexivity].
  destruct A as [|p [|q r]]; [reflexivity|reflexivity|].
  simpl rev. destruct (rev r) as [|x [|y z]]; reflexivity.
Qed.

(* ================= the walk building new_locations ================= *)
Definition walk_parts (w : part + list part) : list part :=
  match w with inl p => [p] | inr l => l end.

(* what every part of the result satisfies: strand, non-empty, inside one exon *)
Definition inside (st : Z) (A : list part) (b : part) : Prop :=
  pst b = st /\ ps b < pe b /\ exists q, In q A /\ ps q <= ps b /\ pe b <= pe q.

Lemma inside_cons st p A b : inside st A b -> inside st (p :: A) b.
Proof. intros [H1 [H2 [q [Hq Hb]]]]. split; [assumption|]. split; [assumption|]. exists q. split; [right; assumption|assumption]. Qed.

(* after the start has been found: whole exons are appended until the one holding the end *)
Lemma walk_tail : forall A lo ds de st acc w x,
  mono lo A -> same_strand st A -> ds < lo -> acc <> [] -> 0 <= w < llen A ->
  locate A w = Some x -> de = x + 1 ->
  exists B, sub_walk A ds de st acc = inr (acc ++ B) /\
            asc B = firstn (Z.to_nat (w + 1)) (asc A) /\ Forall (inside st A) B.
Proof.
  induction A as [|p rest IH]; intros lo ds de st acc w x Hm Hst Hds Hacc Hw Hl Hde; [discriminate|].
  destruct Hm as [H1 [H2 H3]]. destruct (same_strand_cons _ _ _ Hst) as [Hp Hrest].
  rewrite llen_cons in Hw. cbn [sub_walk]. simpl in Hl.
  rewrite (in_part_false ds p) by lia.
  destruct ((0 <=? w) && (w <? plen p)) eqn:Hc.
  - injection Hl as <-. unfold plen in Hc. rewrite (in_part_true (de - 1) p) by lia.
    exists [mkPart (ps p) de st]. split; [reflexivity|]. split.
    + unfold asc. simpl flat_map. rewrite app_nil_r. rewrite firstn_app, zrange_length.
      replace (Z.to_nat (w + 1) - Z.to_nat (pe p - ps p))%nat with 0%nat by lia.
      simpl firstn. rewrite app_nil_r. rewrite firstn_zrange by lia. f_equal. lia.
    + constructor; [|constructor]. split; [reflexivity|]. simpl. split; [lia|].
      exists p. split; [left; reflexivity|lia].
  - destruct (locate_bounds _ _ _ _ H3 Hl) as [q [Hq [Hb Hlo]]].
    rewrite (in_part_false (de - 1) p) by lia.
    destruct acc as [|a0 acc']; [congruence|].
    destruct (IH (pe p) ds de st ((a0 :: acc') ++ [p]) (w - plen p) x) as [B [HB [Hasc Hin]]];
      try assumption; try lia.
    { destruct acc'; discriminate. }
    exists (p :: B). split; [rewrite HB, <- app_assoc; reflexivity|]. split.
    + unfold asc in *. simpl flat_map. rewrite Hasc. rewrite firstn_app, zrange_length.
      rewrite (firstn_all2 (zrange (ps p) (pe p))) by (rewrite zrange_length; unfold plen in *; lia).
      f_equal. f_equal. unfold plen in *. lia.
    + constructor.
      * split; [assumption|]. split; [lia|]. exists p. split; [left; reflexivity|lia].
      * eapply Forall_impl; [|exact Hin]. intros b. apply inside_cons.
Qed.

Lemma walk_head : forall A lo ds de st u v xe,
  mono lo A -> same_strand st A -> 0 <= u < v -> v <= llen A ->
  locate A u = Some ds -> locate A (v - 1) = Some xe -> de = xe + 1 ->
  exists B, walk_parts (sub_walk A ds de st []) = B /\ B <> [] /\
            asc B = sublist u v (asc A) /\ Forall (inside st A) B.
Proof.
  induction A as [|p rest IH]; intros lo ds de st u v xe Hm Hst Hu Hv Hls Hle Hde; [discriminate|].
  destruct Hm as [H1 [H2 H3]]. destruct (same_strand_cons _ _ _ Hst) as [Hp Hrest].
  rewrite llen_cons in Hv. cbn [sub_walk]. simpl in Hls, Hle.
  assert (HLp : length (zrange (ps p) (pe p)) = Z.to_nat (plen p)) by apply zrange_length.
  destruct ((0 <=? u) && (u <? plen p)) eqn:Hcu.
  - injection Hls as <-. unfold plen in Hcu. rewrite (in_part_true (ps p + u) p) by lia.
    destruct ((0 <=? v - 1) && (v - 1 <? plen p)) eqn:Hcv.
    + injection Hle as <-. unfold plen in Hcv. rewrite (in_part_true (de - 1) p) by lia.
      eexists. split; [reflexivity|]. split; [discriminate|]. split.
      * unfold asc. simpl flat_map. rewrite app_nil_r.
        rewrite (sublist_app_l _ _ (plen p) u v HLp) by (unfold plen; lia).
        rewrite sublist_zrange by lia. f_equal. lia.
      * constructor; [|constructor]. split; [reflexivity|]. simpl. split; [lia|].
        exists p. split; [left; reflexivity|lia].
    + destruct (locate_bounds _ _ _ _ H3 Hle) as [q [Hq [Hb Hlo]]].
      rewrite (in_part_false (de - 1) p) by lia.
      assert (Hds' : ps p + u < pe p) by lia.
      assert (Hacc' : [] ++ [mkPart (ps p + u) (pe p) st] <> []) by (simpl; discriminate).
      assert (Hw' : 0 <= v - 1 - plen p < llen rest) by lia.
      destruct (walk_tail rest (pe p) (ps p + u) de st _ (v - 1 - plen p) xe
                          H3 Hrest Hds' Hacc' Hw' Hle Hde) as [B [HB [Hasc Hin]]].
      rewrite HB. eexists. split; [reflexivity|]. split; [discriminate|]. split.
      * unfold asc in *. simpl flat_map. rewrite Hasc.
        rewrite (sublist_app_mid _ _ (plen p) u v HLp) by (unfold plen in *; lia).
        rewrite skipn_zrange by (unfold plen in *; lia). f_equal. f_equal. lia.
      * constructor.
        -- split; [reflexivity|]. simpl. split; [lia|]. exists p. split; [left; reflexivity|lia].
        -- eapply Forall_impl; [|exact Hin]. intros b. apply inside_cons.
  - destruct (locate_bounds _ _ _ _ H3 Hls) as [q [Hq [Hb Hlo]]].
    rewrite (in_part_false ds p) by lia.
    destruct ((0 <=? v - 1) && (v - 1 <? plen p)) eqn:Hcv; [lia|].
    destruct (locate_bounds _ _ _ _ H3 Hle) as [q' [Hq' [Hb' Hlo']]].
    rewrite (in_part_false (de - 1) p) by lia.
    destruct (IH (pe p) ds de st (u - plen p) (v - plen p) xe) as [B [HB [Hne [Hasc Hin]]]];
      try assumption; try lia.
    { replace (v - plen p - 1) with (v - 1 - plen p) by lia. assumption. }
    exists B. split; [assumption|]. split; [assumption|]. split.
    + unfold asc in *. simpl flat_map. rewrite Hasc.
      rewrite (sublist_app_r _ _ (plen p) u v HLp) by (unfold plen in *; lia). reflexivity.
    + eapply Forall_impl; [|exact Hin]. intros b. apply inside_cons.
Qed.

(* ================= convert / get_sub on a gene that does not span the origin ================= *)
(* the requested range as offsets into the ascending spliced coordinates *)
Definition off_u (st s e L : Z) : Z := if st =? -1 then L - e * 3 else s * 3.
Definition off_v (st s e L : Z) : Z := if st =? -1 then L - s * 3 else e * 3.

Lemma offsets_range st s e L : 0 <= s < e -> e <= L / 3 ->
  0 <= off_u st s e L < off_v st s e L /\ off_v st s e L <= L.
Proof.
  intros H1 H2. assert (3 * (L / 3) <= L) by (apply Z.mul_div_le; lia).
  unfold off_u, off_v. destruct (st =? -1); lia.
Qed.

Lemma convert_guard st p A' s e :
  mono 0 (p :: A') -> same_strand st (p :: A') -> 0 <= s < e -> e <= llen (p :: A') / 3 ->
  exists xu xe,
    locate (p :: A') (off_u st s e (llen (p :: A'))) = Some xu /\
    locate (p :: A') (off_v st s e (llen (p :: A')) - 1) = Some xe /\
    xu <= xe /\
    convert s e (gene_of st (p :: A')) = Ok (xu, xe + 1).
Proof.
  intros Hm Hst Hs He. set (A := p :: A') in *. set (L := llen A) in *.
  destruct (offsets_range st s e L Hs He) as [Hu Hv].
  set (u := off_u st s e L) in *. set (v := off_v st s e L) in *.
  assert (Hm' : mono (ps p) A) by (destruct Hm as [_ Hm]; split; [lia|exact Hm]).
  destruct (locate_total A (ps p) u Hm') as [xu Hxu]; [fold L; lia|].
  destruct (locate_total A (ps p) (v - 1) Hm') as [xe Hxe]; [fold L; lia|].
  exists xu, xe. split; [assumption|]. split; [assumption|].
  assert (Hle : xu <= xe) by (apply (locate_mono A (ps p) u (v - 1)); try assumption; lia).
  split; [assumption|].
  destruct (locate_bounds _ _ _ _ Hm' Hxu) as [qu [Hqu [Hbu Hlou]]].
  destruct (locate_bounds _ _ _ _ Hm' Hxe) as [qe [Hqe [Hbe Hloe]]].
  assert (Hne : A <> []) by discriminate.
  pose proof (lstrand_same st _ (gene_nonempty st A Hne) (same_strand_gene st A Hst)) as Hstr.
  pose proof (lstart_gene st p A' 0 Hm) as Hstart. fold A in Hstart.
  pose proof (lend_gene_ge st A qe Hqe) as Hend.
  unfold convert. rewrite llen_gene, Hstr, Hstart. fold L.
  set (n3 := L / 3) in *.
  replace ((0 <=? s) && (s <? e) && (e <=? n3)) with true by lia. cbn [negb].
  replace (if st =? -1 then ps p + L - e * 3 else ps p + s * 3) with (ps p + u)
    by (unfold u, off_u; destruct (st =? -1); lia).
  replace (if st =? -1 then ps p + L - s * 3 else ps p + e * 3) with (ps p + v)
    by (unfold v, off_v; destruct (st =? -1); lia).
  rewrite is_compound_gene. destruct A' as [|p2 A''].
  - (* a single exon *)
    subst A. cbn [is_compound negb]. simpl in Hxu, Hxe.
    change (llen [p]) with (plen p + 0) in L.
    destruct ((0 <=? u) && (u <? plen p)) eqn:Hcu; [|discriminate].
    destruct ((0 <=? v - 1) && (v - 1 <? plen p)) eqn:Hcv; [|discriminate].
    injection Hxu as <-. injection Hxe as <-.
    destruct Hqe as [<-|[]].
    replace ((ps p <=? ps p + u) && (ps p + u <? ps p + v) && (ps p + v <=? lend (gene_of st [p])))
      with true by lia.
    cbv iota. f_equal. f_equal. lia.
  - subst A. cbn [is_compound negb]. rewrite (sort_gene st _ 0 Hm).
    rewrite conv_loop_spec. cbn [orb].
    replace (ps p + u + 0 - ps p) with u by lia.
    replace (ps p + v - 1 + 0 - ps p) with (v - 1) by lia.
    rewrite Hxu, Hxe. cbn [osome negb].
    replace ((ps p <=? xu) && (xu <? xe + 1) && (xe + 1 <=? lend (gene_of st (p :: p2 :: A''))))
      with true by lia.
    reflexivity.
Qed.

Lemma gene_single st b : gene_of st [b] = [b].
Proof. unfold gene_of. destruct (st =? -1); reflexivity. Qed.

Lemma get_sub_guard st p A' s e ea sb :
  mono 0 (p :: A') -> same_strand st (p :: A') -> 0 <= s < e -> e <= llen (p :: A') / 3 ->
  exists B, get_sub (gene_of st (p :: A')) ea sb s e = Ok (gene_of st B) /\ B <> [] /\
            asc B = sublist (off_u st s e (llen (p :: A'))) (off_v st s e (llen (p :: A'))) (asc (p :: A')) /\
            Forall (inside st (p :: A')) B.
Proof.
  intros Hm Hst Hs He.
  destruct (convert_guard st p A' s e Hm Hst Hs He) as [xu [xe [Hxu [Hxe [Hle Hconv]]]]].
  set (A := p :: A') in *. set (L := llen A) in *.
  destruct (offsets_range st s e L Hs He) as [Hu Hv].
  set (u := off_u st s e L) in *. set (v := off_v st s e L) in *.
  assert (Hm' : mono (ps p) A) by (destruct Hm as [_ Hm]; split; [lia|exact Hm]).
  destruct (locate_bounds _ _ _ _ Hm' Hxu) as [qu [Hqu [Hbu Hlou]]].
  destruct (locate_bounds _ _ _ _ Hm' Hxe) as [qe [Hqe [Hbe Hloe]]].
  assert (Hne : A <> []) by discriminate.
  pose proof (lstrand_same st _ (gene_nonempty st A Hne) (same_strand_gene st A Hst)) as Hstr.
  unfold get_sub. rewrite llen_gene. fold L. set (n3 := L / 3) in *.
  replace ((0 <=? s) && (s <=? n3 - 1)) with true by lia. cbn [negb].
  replace ((1 <=? e) && (e <=? n3)) with true by lia. cbn [bind].
  replace (e <=? s) with false by lia.
  rewrite Hconv. cbn [bind].
  replace (xu <? xe + 1) with true by lia. cbn [negb].
  assert (Hin1 : in_loc xu (gene_of st A) = true).
  { unfold in_loc. apply existsb_exists. exists qu. split; [apply in_gene; assumption|].
    apply in_part_true. lia. }
  rewrite Hin1. cbn [negb].
  assert (Hin2 : existsb (fun p0 => in_part (xe + 1) p0 || (xe + 1 =? pe p0)) (gene_of st A) = true).
  { apply existsb_exists. exists qe. split; [apply in_gene; assumption|]. unfold in_part. lia. }
  rewrite Hin2, orb_true_r. cbn [negb].
  rewrite is_compound_gene, Hstr. destruct A' as [|p2 A''].
  - subst A. cbn [is_compound negb]. simpl in Hxu, Hxe.
    change (llen [p]) with (plen p + 0) in L.
    destruct ((0 <=? u) && (u <? plen p)) eqn:Hcu; [|discriminate].
    destruct ((0 <=? v - 1) && (v - 1 <? plen p)) eqn:Hcv; [|discriminate].
    injection Hxu as <-. injection Hxe as <-.
    exists [mkPart (ps p + u) (ps p + (v - 1) + 1) st]. rewrite gene_single.
    split; [reflexivity|]. split; [discriminate|]. split.
    + unfold asc. simpl flat_map. rewrite !app_nil_r.
      rewrite sublist_zrange by (unfold plen in *; lia). f_equal. lia.
    + constructor; [|constructor]. split; [reflexivity|]. simpl. split; [lia|].
      exists p. split; [left; reflexivity|unfold plen in *; lia].
  - cbn [A is_compound negb]. rewrite (sort_gene st A 0 Hm).
    destruct (walk_head A 0 xu (xe + 1) st u v xe Hm Hst) as [B [HB [HBne [Hasc Hin]]]];
      try assumption; try reflexivity; try lia.
    exists B. destruct (sub_walk A xu (xe + 1) st []) as [b|news]; simpl in HB; subst B.
    + rewrite gene_single. split; [reflexivity|]. split; [assumption|]. split; assumption.
    + destruct news as [|n0 ns]; [congruence|].
      split; [reflexivity|]. split; [assumption|]. split; assumption.
Qed.

(* ================= reading order, extraction, translation ================= *)
Lemma inside_strand st A B : Forall (inside st A) B -> same_strand st B.
Proof. intros H. eapply Forall_impl; [|exact H]. intros b [Hb _]. exact Hb. Qed.

Lemma inside_okp st A B : Forall (inside st A) B -> Forall okp B.
Proof. intros H. eapply Forall_impl; [|exact H]. intros b [_ [Hb _]]. unfold okp. lia. Qed.

Lemma idx_fwd st B : same_strand st B -> st <> -1 -> idx B = asc B.
Proof.
  intros H Hst. induction H as [|b B Hb HB IH]; [reflexivity|].
  unfold idx, asc in *. simpl flat_map. rewrite IH. f_equal. unfold part_idx. rewrite Hb.
  destruct (st =? -1) eqn:E; [lia|reflexivity].
Qed.

Lemma idx_rev_strand B : same_strand (-1) B -> idx (rev B) = rev (asc B).
Proof.
  intros H. induction H as [|b B Hb HB IH]; [reflexivity|].
  simpl rev. unfold idx, asc in *. rewrite flat_map_app, IH. simpl flat_map.
  rewrite rev_app_distr, app_nil_r. f_equal. unfold part_idx. rewrite Hb. reflexivity.
Qed.

Lemma idx_gene st B : same_strand st B ->
  idx (gene_of st B) = if st =? -1 then rev (asc B) else asc B.
Proof.
  intros H. unfold gene_of. destruct (st =? -1) eqn:E.
  - assert (st = -1) by lia. subst st. apply idx_rev_strand. assumption.
  - apply (idx_fwd st); [assumption|lia].
Qed.

Definition base_fn (st : Z) (sq : Z -> Z) (i : Z) : Z := if st =? -1 then comp (sq i) else sq i.

Lemma extract_idx st sq l : same_strand st l -> extract sq l = map (base_fn st sq) (idx l).
Proof.
  intros H. induction H as [|b l Hb Hl IH]; [reflexivity|].
  unfold extract, idx in *. simpl flat_map. rewrite map_app, IH. f_equal.
  unfold extract_part, part_idx, base_fn. rewrite Hb. destruct (st =? -1); reflexivity.
Qed.

Lemma translate_skipn cod : forall (n : nat) x,
  translate cod (skipn (3 * n) x) = skipn n (translate cod x).
Proof.
  induction n as [|n IH]; intros x; [reflexivity|].
  replace (3 * S n)%nat with (S (S (S (3 * n)))) by lia.
  destruct x as [|a [|b [|c r]]]; try reflexivity.
  cbn [skipn translate]. apply IH.
Qed.

Lemma translate_firstn cod : forall (n : nat) x,
  translate cod (firstn (3 * n) x) = firstn n (translate cod x).
Proof.
  induction n as [|n IH]; intros x; [reflexivity|].
  replace (3 * S n)%nat with (S (S (S (3 * n)))) by lia.
  destruct x as [|a [|b [|c r]]]; try reflexivity.
  cbn [firstn translate]. f_equal. apply IH.
Qed.

Lemma translate_sublist cod s e x : 0 <= s <= e ->
  translate cod (sublist (3 * s) (3 * e) x) = sublist s e (translate cod x).
Proof.
  intros H. unfold sublist.
  replace (Z.to_nat (3 * e - 3 * s)) with (3 * Z.to_nat (e - s))%nat by lia.
  replace (Z.to_nat (3 * s)) with (3 * Z.to_nat s)%nat by lia.
  rewrite translate_firstn, translate_skipn. reflexivity.
Qed.

Lemma contains_inside st A B : Forall (inside st A) B -> contains (gene_of st A) (gene_of st B) = true.
Proof.
  intros H. unfold contains. apply forallb_forall. intros b Hb. apply in_gene in Hb.
  rewrite Forall_forall in H. destruct (H b Hb) as [_ [Hlt [q [Hq Hq']]]].
  apply existsb_exists. exists q. split; [apply in_gene; assumption|]. unfold part_contains. lia.
Qed.

(* the statement about a sub-location, for the gene g and residues [s,e) *)
Definition subloc_ok (g : loc) (s e : Z) (sub : loc) : Prop :=
  contains g sub = true /\
  llen sub = 3 * (e - s) /\
  idx sub = sublist (3 * s) (3 * e) (idx g) /\
  (forall sq, extract sq sub = sublist (3 * s) (3 * e) (extract sq g)) /\
  (forall sq cod, translate cod (extract sq sub) = sublist s e (translate cod (extract sq g))).

Lemma subloc_asc st A s e ea sb :
  A <> [] -> mono 0 A -> same_strand st A -> 0 <= s < e -> e <= llen A / 3 ->
  exists sub, get_sub (gene_of st A) ea sb s e = Ok sub /\ subloc_ok (gene_of st A) s e sub.
Proof.
  intros Hne Hm Hst Hs He. destruct A as [|p A']; [congruence|].
  destruct (get_sub_guard st p A' s e ea sb Hm Hst Hs He) as [B [Hget [HBne [Hasc Hin]]]].
  set (A := p :: A') in *. set (L := llen A) in *.
  destruct (offsets_range st s e L Hs He) as [Hu Hv].
  exists (gene_of st B). split; [assumption|].
  pose proof (inside_strand _ _ _ Hin) as HstB.
  destruct (asc_length A (mono_okp _ _ Hm)) as [HlenA HL0]. fold L in HlenA, HL0.
  destruct (asc_length B (inside_okp _ _ _ Hin)) as [HlenB HLB0].
  assert (Hidx : idx (gene_of st B) = sublist (3 * s) (3 * e) (idx (gene_of st A))).
  { rewrite (idx_gene st B HstB), (idx_gene st A Hst). rewrite Hasc.
    unfold off_u, off_v in *. destruct (st =? -1).
    - rewrite (rev_sublist _ _ _ L) by lia. f_equal; lia.
    - f_equal; lia. }
  split; [apply (contains_inside st A B); assumption|]. split.
  - rewrite llen_gene.
    assert (Hl : length (asc B) = Z.to_nat (off_v st s e L - off_u st s e L))
      by (rewrite Hasc; apply sublist_length; lia).
    assert (off_v st s e L - off_u st s e L = 3 * (e - s))
      by (unfold off_u, off_v; destruct (st =? -1); lia).
    lia.
  - split; [assumption|].
    assert (Hex : forall sq, extract sq (gene_of st B) = sublist (3 * s) (3 * e) (extract sq (gene_of st A))).
    { intros sq. rewrite (extract_idx st sq _ (same_strand_gene st B HstB)).
      rewrite (extract_idx st sq _ (same_strand_gene st A Hst)).
      rewrite Hidx. symmetry. apply sublist_map. }
    split; [assumption|]. intros sq cod. rewrite Hex. apply translate_sublist. lia.
Qed.

(* the run-time guard implies the hypotheses *)
Lemma same_strand_b_spec st l : same_strand_b st l = true <-> same_strand st l.
Proof.
  unfold same_strand_b, same_strand. rewrite forallb_forall, Forall_forall.
  split; intros H p Hp; specialize (H p Hp); lia.
Qed.

Lemma guard_gene_form l : guard_gene l = true ->
  exists st A, l = gene_of st A /\ A <> [] /\ mono 0 A /\ same_strand st A.
Proof.
  destruct l as [|q r]; [discriminate|]. unfold guard_gene. rewrite andb_true_iff.
  intros [H1 H2]. apply same_strand_b_spec in H1. apply mono_b_spec in H2.
  assert (Hstr : lstrand (q :: r) = pst q) by (apply lstrand_same; [discriminate|assumption]).
  exists (pst q), (ascending (q :: r)). unfold ascending in *. rewrite Hstr in *.
  unfold gene_of. destruct (pst q =? -1).
  - split; [rewrite rev_involutive; reflexivity|]. split.
    + intros E. apply (f_equal (@rev part)) in E. rewrite rev_involutive in E. discriminate.
    + split; [assumption|]. apply Forall_rev. assumption.
  - split; [reflexivity|]. split; [discriminate|]. split; assumption.
Qed.

Lemma subloc_guard g s e ea sb :
  guard_gene g = true -> 0 <= s < e -> e <= llen g / 3 ->
  exists sub, get_sub g ea sb s e = Ok sub /\ subloc_ok g s e sub.
Proof.
  intros Hg Hs He. destruct (guard_gene_form g Hg) as [st [A [-> [Hne [Hm Hst]]]]].
  rewrite llen_gene in He. apply subloc_asc; assumption.
Qed.

(* ================= Prepeptide.to_biopython: leader / core / tail ================= *)
(* the sections counted back from the end of the location (the code before the repair of
   prepeptide_tail_boundary_shifted_by_stop_codon; it never looks at the core's length) *)
Lemma prepeptide_old_guard g ll tl slack :
  guard_gene g = true -> 0 <= ll -> 0 <= tl -> ll + tl < llen g / 3 ->
  exists locs, prepeptide_locs_old_s g ll tl slack = Ok locs /\
    flat_map idx locs = sublist 0 (3 * (llen g / 3)) (idx g) /\
    Forall (fun l => contains g l = true) locs /\
    map llen locs = (if 0 <? ll then [3 * ll] else []) ++ [3 * (llen g / 3 - ll - tl)]
                    ++ (if 0 <? tl then [3 * tl] else []).
Proof.
  intros Hg Hl Ht Hlt. unfold prepeptide_locs_old_s. set (total := llen g / 3) in *.
  destruct (subloc_guard g ll (total - tl) false false Hg) as [core [Hcore [Hc1 [Hc2 [Hc3 _]]]]];
    [lia|fold total; lia|].
  rewrite Hcore.
  destruct (0 <? ll) eqn:Ell; destruct (0 <? tl) eqn:Etl.
  - destruct (subloc_guard g 0 ll false false Hg) as [lead [Hlead [Ha1 [Ha2 [Ha3 _]]]]];
      [lia|fold total; lia|].
    destruct (subloc_guard g (total - tl) total false false Hg) as [tail [Htail [Hb1 [Hb2 [Hb3 _]]]]];
      [lia|fold total; lia|].
    rewrite Hlead, Htail. cbn [bind]. eexists. split; [reflexivity|]. split; [|split].
    + simpl flat_map. rewrite app_nil_r, Ha3, Hc3, Hb3.
      rewrite (sublist_join (3 * ll)) by lia. rewrite (sublist_join (3 * 0)) by lia.
      reflexivity.
    + repeat constructor; assumption.
    + cbn [map app]. rewrite Ha2, Hc2, Hb2. repeat (f_equal; try lia).
  - assert (tl = 0) by lia. subst tl.
    destruct (subloc_guard g 0 ll false false Hg) as [lead [Hlead [Ha1 [Ha2 [Ha3 _]]]]];
      [lia|fold total; lia|].
    rewrite Hlead. cbn [bind]. eexists. split; [reflexivity|]. split; [|split].
    + simpl flat_map. rewrite app_nil_r, Ha3, Hc3.
      rewrite (sublist_join (3 * 0)) by lia. f_equal; lia.
    + repeat constructor; assumption.
    + cbn [map app]. rewrite Ha2, Hc2. repeat (f_equal; try lia).
  - assert (ll = 0) by lia. subst ll.
    destruct (subloc_guard g (total - tl) total false false Hg) as [tail [Htail [Hb1 [Hb2 [Hb3 _]]]]];
      [lia|fold total; lia|].
    rewrite Htail. cbn [bind]. eexists. split; [reflexivity|]. split; [|split].
    + simpl flat_map. rewrite app_nil_r, Hc3, Hb3.
      rewrite (sublist_join (3 * 0)) by lia. reflexivity.
    + repeat constructor; assumption.
    + cbn [map app]. rewrite Hc2, Hb2. repeat (f_equal; try lia).
  - assert (ll = 0) by lia. assert (tl = 0) by lia. subst ll tl.
    cbn [bind]. eexists. split; [reflexivity|]. split; [|split].
    + simpl flat_map. rewrite app_nil_r, Hc3. f_equal; lia.
    + repeat constructor; assumption.
    + cbn [map app]. rewrite Hc2. repeat (f_equal; try lia).
Qed.

(* sections that fill the codons of the location exactly (slack = 0): counting from the start (the repaired code)
   and counting back from the end (the code before) are the same function *)
Lemma prepeptide_s_zero l ll tl :
  0 <= tl -> prepeptide_locs_s l ll tl 0 = prepeptide_locs_old_s l ll tl 0.
Proof.
  intros Ht. unfold prepeptide_locs_s, prepeptide_locs_old_s. cbv zeta.
  destruct (0 <? tl) eqn:E.
  - replace (ll + (llen l / 3 - ll - tl - 0)) with (llen l / 3 - tl) by lia. reflexivity.
  - assert (tl = 0) by lia. subst tl. replace (llen l / 3 - 0) with (llen l / 3) by lia. reflexivity.
Qed.

Lemma prepeptide_zero_old l ll tl :
  0 <= tl -> prepeptide_locs l ll tl = prepeptide_locs_old_s l ll tl 0.
Proof. intros Ht. unfold prepeptide_locs. apply prepeptide_s_zero. assumption. Qed.

Lemma prepeptide_guard g ll tl :
  guard_gene g = true -> 0 <= ll -> 0 <= tl -> ll + tl < llen g / 3 ->
  exists locs, prepeptide_locs g ll tl = Ok locs /\
    flat_map idx locs = sublist 0 (3 * (llen g / 3)) (idx g) /\
    Forall (fun l => contains g l = true) locs /\
    map llen locs = (if 0 <? ll then [3 * ll] else []) ++ [3 * (llen g / 3 - ll - tl)]
                    ++ (if 0 <? tl then [3 * tl] else []).
Proof.
  intros Hg Hl Ht Hlt. rewrite prepeptide_zero_old by assumption. apply prepeptide_old_guard; assumption.
Qed.

(* ================= TTA marker on a single-exon gene ================= *)
Lemma tta_single p i : pst p = 1 \/ pst p = -1 -> 0 <= ps p -> 0 <= i -> i + 3 <= pe p - ps p ->
  exists m, tta_marker [p] i = Ok m /\ contains [p] m = true /\ llen m = 3 /\
            idx m = sublist i (i + 3) (idx [p]) /\
            forall sq, extract sq m = sublist i (i + 3) (extract sq [p]).
Proof.
  intros Hst Hps Hi Hlen.
  assert (Hidx : forall m, tta_marker [p] i = Ok m -> idx m = sublist i (i + 3) (idx [p]) /\
                           same_strand (pst p) m /\ contains [p] m = true /\ llen m = 3).
  { intros m. unfold tta_marker. cbn [is_compound bind].
    change (lstrand [p]) with (pst p). change (lstart [p]) with (ps p). change (lend [p]) with (pe p).
    destruct Hst as [E|E]; rewrite E; cbn [Z.eqb Pos.eqb].
    - replace (ps p + i <? 0) with false by lia. intros H. injection H as <-.
      split; [|split; [repeat constructor; simpl; congruence|split]].
      + unfold idx. simpl flat_map. unfold part_idx. rewrite E. simpl pst. cbn [Z.eqb].
        rewrite !app_nil_r. simpl ps. simpl pe. rewrite sublist_zrange by lia. f_equal; lia.
      + unfold contains, part_contains. simpl. lia.
      + unfold llen. simpl. lia.
    - replace (pe p - i - 3 <? 0) with false by lia. intros H. injection H as <-.
      split; [|split; [repeat constructor; simpl; congruence|split]].
      + unfold idx. simpl flat_map. unfold part_idx. rewrite E. simpl pst. cbn [Z.eqb Pos.eqb].
        rewrite !app_nil_r. simpl ps. simpl pe.
        replace (sublist i (i + 3) (rev (zrange (ps p) (pe p))))
          with (rev (sublist (pe p - ps p - i - 3) (pe p - ps p - i) (zrange (ps p) (pe p)))).
        * f_equal. rewrite sublist_zrange by lia. f_equal; lia.
        * rewrite (rev_sublist _ _ _ (pe p - ps p)); [f_equal; lia|lia|lia|apply zrange_length].
      + unfold contains, part_contains. simpl. lia.
      + unfold llen. simpl. lia. }
  destruct (tta_marker [p] i) as [m|k] eqn:Hm.
  - destruct (Hidx m eq_refl) as [H1 [H2 [H3 H4]]]. exists m. split; [reflexivity|].
    split; [assumption|]. split; [assumption|]. split; [assumption|]. intros sq.
    rewrite (extract_idx (pst p) sq m H2).
    rewrite (extract_idx (pst p) sq [p]) by (repeat constructor).
    rewrite H1. symmetry. apply sublist_map.
  - exfalso. unfold tta_marker in Hm. cbn [is_compound bind] in Hm.
    change (lstrand [p]) with (pst p) in Hm. change (lstart [p]) with (ps p) in Hm.
    change (lend [p]) with (pe p) in Hm.
    destruct (pst p =? 1).
    + destruct (ps p + i <? 0) eqn:Hc; [lia|discriminate].
    + destruct (pe p - i - 3 <? 0) eqn:Hc; [lia|discriminate].
Qed.

(* ================= TTA marker on a gene of several exons ================= *)
(* the coordinate of the r-th spliced base is the r-th element of the ascending coordinates *)
Lemma sublist_locate A : forall lo r x, mono lo A -> 0 <= r -> locate A r = Some x ->
  sublist r (r + 1) (asc A) = [x].
Proof.
  induction A as [|p rest IH]; intros lo r x Hm Hr Hl; [discriminate|].
  destruct Hm as [H1 [H2 H3]]. simpl in Hl.
  assert (HLp : length (zrange (ps p) (pe p)) = Z.to_nat (plen p)) by apply zrange_length.
  unfold asc in *. simpl flat_map.
  destruct ((0 <=? r) && (r <? plen p)) eqn:Hc.
  - injection Hl as <-. rewrite (sublist_app_l _ _ (plen p) r (r + 1) HLp) by lia.
    rewrite sublist_zrange by (unfold plen in *; lia). unfold zrange.
    replace (ps p + (r + 1) - (ps p + r)) with 1 by lia. reflexivity.
  - rewrite (sublist_app_r _ _ (plen p) r (r + 1) HLp) by (unfold plen in *; lia).
    replace (r + 1 - plen p) with (r - plen p + 1) by lia.
    apply (IH (pe p)); [assumption|unfold plen in *; lia|assumption].
Qed.

Lemma zrange3 a : zrange a (a + 3) = [a; a + 1; a + 2].
Proof.
  unfold zrange. replace (a + 3 - a) with 3 by lia. simpl.
  replace (a + 1 + 1) with (a + 2) by lia. reflexivity.
Qed.

(* the codon r of a gene that does not span the origin, strand 1 or -1, any number of exons: if its
   three bases are adjacent in the record - [x, x+3) read in the gene's direction - the marker is
   exactly [x, x+3) *)
Lemma tta_codon st p A' r x :
  st = 1 \/ st = -1 ->
  mono 0 (p :: A') -> same_strand st (p :: A') -> 0 <= r -> r + 1 <= llen (p :: A') / 3 ->
  sublist (3 * r) (3 * r + 3) (idx (gene_of st (p :: A'))) = idx [mkPart x (x + 3) st] ->
  tta_marker (gene_of st (p :: A')) (3 * r) = Ok [mkPart x (x + 3) st].
Proof.
  intros Hpm Hm Hst Hr He Hadj.
  assert (Hs : 0 <= r < r + 1) by lia.
  destruct (convert_guard st p A' r (r + 1) Hm Hst Hs He) as [xu [xe [Hxu [Hxe [Hle Hconv]]]]].
  set (A := p :: A') in *. set (L := llen A) in *.
  destruct (offsets_range st r (r + 1) L Hs He) as [Hu Hv].
  set (u := off_u st r (r + 1) L) in *. set (v := off_v st r (r + 1) L) in *.
  assert (Hv3 : v = u + 3) by (unfold u, v, off_u, off_v; destruct (st =? -1); lia).
  assert (Hm' : mono (ps p) A) by (destruct Hm as [_ Hm]; split; [lia|exact Hm]).
  destruct (locate_total A (ps p) (u + 1) Hm') as [x1 Hx1]; [fold L; lia|].
  destruct (locate_bounds _ _ _ _ Hm Hxu) as [_ [_ [_ Hx0]]].
  assert (Hthree : sublist u (u + 3) (asc A) = [xu; x1; xe]).
  { rewrite <- (sublist_join u (u + 1) (u + 3)) by lia.
    rewrite <- (sublist_join (u + 1) (u + 2) (u + 3)) by lia.
    rewrite (sublist_locate A (ps p) u xu Hm') by (assumption || lia).
    replace (u + 2) with (u + 1 + 1) by lia.
    rewrite (sublist_locate A (ps p) (u + 1) x1 Hm') by (assumption || lia).
    replace (u + 3) with (u + 1 + 1 + 1) by lia.
    rewrite (sublist_locate A (ps p) (u + 1 + 1) xe Hm'); [reflexivity|lia|].
    replace (u + 1 + 1) with (v - 1) by lia. assumption. }
  assert (Hxx : xu = x /\ xe = x + 2).
  { rewrite (idx_gene st A Hst) in Hadj. unfold idx in Hadj. simpl flat_map in Hadj.
    rewrite app_nil_r in Hadj. unfold part_idx in Hadj. cbn [pst ps pe] in Hadj.
    destruct (asc_length A (mono_okp _ _ Hm)) as [HlenA _]. fold L in HlenA.
    destruct (st =? -1) eqn:Est.
    - replace (sublist (3 * r) (3 * r + 3) (rev (asc A)))
        with (rev (sublist u (u + 3) (asc A))) in Hadj.
      + rewrite Hthree, zrange3 in Hadj. simpl in Hadj. injection Hadj as E1 _ E3. lia.
      + rewrite (rev_sublist _ _ _ L) by (assumption || lia). unfold u, off_u. rewrite Est. f_equal; lia.
    - replace (3 * r) with u in Hadj by (unfold u, off_u; rewrite Est; lia).
      rewrite Hthree, zrange3 in Hadj. injection Hadj as E1 _ E3. lia. }
  destruct Hxx as [-> ->].
  assert (Hne : A <> []) by discriminate.
  pose proof (lstrand_same st _ (gene_nonempty st A Hne) (same_strand_gene st A Hst)) as Hstr.
  unfold tta_marker. rewrite is_compound_gene, Hstr.
  replace (3 * r / 3) with r by (rewrite Z.mul_comm, Z.div_mul; lia).
  destruct A' as [|p2 A''].
  - subst A. cbn [is_compound bind]. rewrite gene_single.
    change (lstart [p]) with (ps p). change (lend [p]) with (pe p).
    simpl in Hxu. change (llen [p]) with (plen p + 0) in L.
    destruct ((0 <=? u) && (u <? plen p)) eqn:Hcu; [|discriminate]. injection Hxu as Hxu.
    assert (Hstart : (if st =? 1 then ps p + 3 * r else pe p - 3 * r - 3) = x).
    { clear Hadj Hthree Hconv Hx1 Hxe. subst u v L. unfold off_u, off_v, plen in *.
      destruct Hpm as [E|E]; rewrite E in *; cbn [Z.eqb Pos.eqb] in *; lia. }
    rewrite Hstart. replace (x <? 0) with false by lia. reflexivity.
  - subst A. cbn [is_compound]. rewrite Hconv. cbn [bind fst snd].
    replace (if st =? -1 then x + 2 + 1 - 3 else x) with x by (destruct (st =? -1); lia).
    replace (x <? 0) with false by lia. reflexivity.
Qed.

Lemma lstrand_pm g st : lstrand g = st -> st = 1 \/ st = -1 -> same_strand st g.
Proof.
  destruct g as [|p r]; [unfold lstrand, S_None; intros <- [H|H]; discriminate H|].
  unfold lstrand. destruct (forallb (fun q => pst q =? pst p) r) eqn:E.
  - intros <- _. constructor; [reflexivity|]. apply Forall_forall. intros q Hq.
    rewrite forallb_forall in E. specialize (E q Hq). lia.
  - unfold S_None. intros <- [H|H]; discriminate H.
Qed.

Lemma tta_guard g r x :
  guard_gene g = true -> lstrand g = 1 \/ lstrand g = -1 -> 0 <= r -> r + 1 <= llen g / 3 ->
  sublist (3 * r) (3 * r + 3) (idx g) = idx [mkPart x (x + 3) (lstrand g)] ->
  tta_marker g (3 * r) = Ok [mkPart x (x + 3) (lstrand g)] /\
  (forall sq, extract sq [mkPart x (x + 3) (lstrand g)] = sublist (3 * r) (3 * r + 3) (extract sq g)).
Proof.
  intros Hg Hpm Hr He Hadj. destruct (guard_gene_form g Hg) as [st [A [-> [Hne [Hm Hst]]]]].
  pose proof (lstrand_same st _ (gene_nonempty st A Hne) (same_strand_gene st A Hst)) as Hstr.
  rewrite Hstr in *. rewrite llen_gene in He. destruct A as [|p A']; [congruence|].
  split; [apply tta_codon; assumption|]. intros sq.
  rewrite (extract_idx st sq [mkPart x (x + 3) st]) by (repeat constructor).
  rewrite (extract_idx st sq _ (same_strand_gene st _ Hst)).
  rewrite <- Hadj. symmetry. apply sublist_map.
Qed.

(* ================= codon_start: the adjustment is undone exactly ================= *)
Lemma fold_max_in l : forall x, In (fold_left Z.max l x) (x :: l).
Proof.
  induction l as [|a l IH]; intros x; simpl.
  - left. reflexivity.
  - destruct (IH (Z.max x a)) as [H|H].
    + destruct (Z.max_spec x a) as [[_ E]|[_ E]]; rewrite E in *; auto.
    + right. right. assumption.
Qed.
Lemma lmax_in l : l <> [] -> In (lmax l) l.
Proof. destruct l as [|x l]; [congruence|]. intros _. apply fold_max_in. Qed.
Lemma lmax_unique l m : In m l -> (forall y, In y l -> y <= m) -> lmax l = m.
Proof.
  intros Hin Hle. assert (Hne : l <> []) by (intros ->; destruct Hin).
  pose proof (lmax_in l Hne) as H1. pose proof (lmax_ge l m Hin) as H2.
  specialize (Hle _ H1). lia.
Qed.

(* the first listed exon is the outermost one in reading direction (true of every gene that
   does not span the origin) *)
Definition first_outermost (st : Z) (l : loc) : Prop :=
  match l with
  | [] => False
  | p :: r => ps p <= pe p /\
              (if st =? -1 then Forall (fun q => pe q <= ps p) r else Forall (fun q => pe p <= ps q) r)
  end.

Lemma part_eta p : mkPart (ps p) (pe p) (pst p) = p.
Proof. destruct p; reflexivity. Qed.

Lemma adjust_undo st p r o l' :
  same_strand st (p :: r) -> first_outermost st (p :: r) -> o <> 0 -> -2 <= o <= 2 ->
  (if st =? -1 then o < 0 else 0 < o) ->
  adjust_by_offset (p :: r) o = Ok l' ->
  adjust_by_offset l' (- o) = Ok (p :: r) /\ lstrand l' = st.
Proof.
  intros Hst [Hp Hout] Ho Hr Hsign H.
  destruct (same_strand_cons _ _ _ Hst) as [Hps Hrest].
  assert (Hstr : lstrand (p :: r) = st) by (apply lstrand_same; [discriminate|assumption]).
  unfold adjust_by_offset in H.
  replace (o =? 0) with false in H by lia.
  replace ((-2 <=? o) && (o <=? 2)) with true in H by lia. cbn [negb] in H.
  rewrite Hstr, Hps in H. unfold mkFL in H.
  assert (Hgoal : forall q, pst q = st ->
            (if st =? -1 then ps q = ps p /\ pe q = pe p + o /\ ps p <= pe p + o
             else ps q = ps p + o /\ pe q = pe p /\ ps p + o <= pe p) ->
            adjust_by_offset (q :: r) (- o) = Ok (p :: r) /\ lstrand (q :: r) = st).
  { intros q Hq Hqq.
    assert (Hst' : same_strand st (q :: r)) by (constructor; assumption).
    assert (Hstr' : lstrand (q :: r) = st) by (apply lstrand_same; [discriminate|assumption]).
    split; [|assumption]. unfold adjust_by_offset.
    replace (- o =? 0) with false by lia.
    replace ((-2 <=? - o) && (- o <=? 2)) with true by lia. cbn [negb].
    rewrite Hstr', Hq. unfold mkFL.
    destruct (st =? -1) eqn:Est.
    - destruct Hqq as [Q1 [Q2 Q3]]. rewrite Q1, Q2.
      replace (pe p + o + - o) with (pe p) by lia.
      replace (pe p <? ps p) with false by lia. cbn [bind].
      destruct r as [|p2 r']; [rewrite <- Hps, part_eta; reflexivity|].
      replace (pe p + o =? lend (q :: p2 :: r')) with true; [rewrite orb_true_r, <- Hps, part_eta; reflexivity|].
      symmetry. apply Z.eqb_eq. symmetry. unfold lend. apply lmax_unique.
      + left. simpl. lia.
      + intros y Hy. simpl in Hy. destruct Hy as [<-|Hy]; [lia|].
        change (In y (map pe (p2 :: r'))) in Hy. apply in_map_iff in Hy.
        destruct Hy as [x [<- Hx]]. rewrite Forall_forall in Hout. specialize (Hout x Hx). lia.
    - destruct Hqq as [Q1 [Q2 Q3]]. rewrite Q1, Q2.
      replace (ps p + o + - o) with (ps p) by lia.
      replace (pe p <? ps p) with false by lia. cbn [bind].
      destruct r as [|p2 r']; [rewrite <- Hps, part_eta; reflexivity|].
      replace (ps p + o =? lstart (q :: p2 :: r')) with true; [rewrite orb_true_r, <- Hps, part_eta; reflexivity|].
      symmetry. apply Z.eqb_eq. symmetry. unfold lstart. apply lmin_unique.
      + left. simpl. lia.
      + intros y Hy. simpl in Hy. destruct Hy as [<-|Hy]; [lia|].
        change (In y (map ps (p2 :: r'))) in Hy. apply in_map_iff in Hy.
        destruct Hy as [x [<- Hx]]. rewrite Forall_forall in Hout. specialize (Hout x Hx). lia. }
  destruct (st =? -1) eqn:Est.
  - destruct (pe p + o <? ps p) eqn:Hc.
    + destruct r as [|p2 r']; [discriminate|].
      destruct (bridges (p :: p2 :: r') || (pe p =? lend (p :: p2 :: r'))); discriminate.
    + assert (Hl' : l' = mkPart (ps p) (pe p + o) st :: r).
      { destruct r as [|p2 r']; cbn [bind] in H; [congruence|].
        destruct (bridges (p :: p2 :: r') || (pe p =? lend (p :: p2 :: r'))); [cbn [bind] in H; congruence|discriminate]. }
      subst l'. apply Hgoal; [reflexivity|]. simpl. lia.
  - destruct (pe p <? ps p + o) eqn:Hc.
    + destruct r as [|p2 r']; [discriminate|].
      destruct (bridges (p :: p2 :: r') || (ps p =? lstart (p :: p2 :: r'))); discriminate.
    + assert (Hl' : l' = mkPart (ps p + o) (pe p) st :: r).
      { destruct r as [|p2 r']; cbn [bind] in H; [congruence|].
        destruct (bridges (p :: p2 :: r') || (ps p =? lstart (p :: p2 :: r'))); [cbn [bind] in H; congruence|discriminate]. }
      subst l'. apply Hgoal; [reflexivity|]. simpl. lia.
Qed.

Lemma frameshift_roundtrip st l cs l' :
  same_strand st l -> first_outermost st l ->
  frameshift l cs false = Ok l' -> frameshift l' cs true = Ok l.
Proof.
  intros Hst Hout H. destruct l as [|p r]; [destruct Hout|].
  assert (Hstr : lstrand (p :: r) = st) by (apply lstrand_same; [discriminate|assumption]).
  unfold frameshift in *. cbv zeta in *. rewrite Hstr in H.
  destruct ((0 <=? cs - 1) && (cs - 1 <=? 2)) eqn:Hr; cbn [negb] in *; [|discriminate].
  destruct (cs - 1 =? 0) eqn:Hz.
  - assert (Hl' : l' = p :: r).
    { unfold adjust_by_offset in H. destruct (st =? -1);
      [replace (- (cs - 1) =? 0) with true in H by lia|replace (cs - 1 =? 0) with true in H by lia];
      congruence. }
    subst l'. rewrite Hstr. unfold adjust_by_offset.
    destruct (st =? -1); [replace (- - (cs - 1) =? 0) with true by lia
                         |replace (- (cs - 1) =? 0) with true by lia]; reflexivity.
  - set (o := if st =? -1 then - (cs - 1) else cs - 1) in *.
    destruct (adjust_undo st p r o l' Hst Hout) as [Hundo Hstr']; try assumption.
    + unfold o. destruct (st =? -1); lia.
    + unfold o. destruct (st =? -1); lia.
    + unfold o. destruct (st =? -1); lia.
    + rewrite Hstr'. fold o. exact Hundo.
Qed.

Lemma guard_first_outermost g : guard_gene g = true ->
  exists st, same_strand st g /\ first_outermost st g.
Proof.
  destruct g as [|q r]; [discriminate|]. unfold guard_gene. rewrite andb_true_iff.
  intros [H1 H2]. apply same_strand_b_spec in H1. apply mono_b_spec in H2.
  assert (Hstr : lstrand (q :: r) = pst q) by (apply lstrand_same; [discriminate|assumption]).
  exists (pst q). split; [assumption|]. unfold ascending in H2. rewrite Hstr in H2.
  unfold first_outermost. destruct (pst q =? -1).
  - simpl rev in H2. split.
    + assert (Hq : In q (rev r ++ [q])) by (apply in_or_app; right; left; reflexivity).
      destruct (mono_in _ _ _ H2 Hq). lia.
    + apply Forall_forall. intros x Hx. apply (mono_app_last (rev r) 0 q H2). apply in_rev in Hx. exact Hx.
  - destruct H2 as [_ [H3 H4]]. split; [lia|].
    apply Forall_forall. intros x Hx. destruct (mono_in _ _ _ H4 Hx). lia.
Qed.

Lemma codon_start_restored g cs g' :
  guard_gene g = true -> frameshift g cs false = Ok g' -> frameshift g' cs true = Ok g.
Proof.
  intros Hg H. destruct (guard_first_outermost g Hg) as [st [Hst Hout]].
  exact (frameshift_roundtrip st g cs g' Hst Hout H).
Qed.

(* ================= the statements that are false of the current code ================= *)
Definition span_fwd : loc := [mkPart 90 102 1; mkPart 0 21 1].

Lemma subloc_origin_refuted :
  exists g s e sub, spanning_gene g = true /\ 0 <= s < e /\ e <= llen g / 3 /\
    get_sub g false false s e = Ok sub /\
    idx sub <> sublist (3 * s) (3 * e) (idx g) /\ contains g sub = true /\ llen sub = 3 * (e - s).
Proof.
  exists span_fwd, 0, 2, [mkPart 0 6 1].
  split; [vm_compute; reflexivity|]. split; [lia|]. split; [vm_compute; discriminate|].
  split; [vm_compute; reflexivity|]. split; [|split; vm_compute; reflexivity].
  intros H. vm_compute in H. discriminate H.
Qed.

Definition two_exons : loc := [mkPart 0 4 1; mkPart 10 15 1].

(* what is left of the finding tta_multi_exon after the repair: a codon that an intron splits (offset
   3 of join{[0:4](+), [10:15](+)} = coordinates 3, 10, 11) cannot be covered by a marker of one
   part; the marker starts at the codon's first base and runs into the intron *)
Lemma tta_split_codon_refuted :
  exists g r m, guard_gene g = true /\ 0 <= r /\ r + 1 <= llen g / 3 /\ codon_split g (3 * r) = true /\
    tta_marker g (3 * r) = Ok m /\ idx m <> sublist (3 * r) (3 * r + 3) (idx g).
Proof.
  exists two_exons, 1, [mkPart 3 6 1].
  split; [vm_compute; reflexivity|]. split; [lia|]. split; [vm_compute; discriminate|].
  split; [vm_compute; reflexivity|]. split; [vm_compute; reflexivity|].
  intros H. vm_compute in H. discriminate H.
Qed.

(* ================= codon_start: what the adjusted location reads ================= *)
Definition first_exon_len (g : loc) : Z := match g with p :: _ => pe p - ps p | [] => 0 end.

(* the first listed exon, shortened by k bases at its 5' end *)
Definition shorten (st : Z) (p : part) (k : Z) : part :=
  if st =? -1 then mkPart (ps p) (pe p - k) st else mkPart (ps p + k) (pe p) st.

Lemma first_outer_bound st p r : first_outermost st (p :: r) ->
  if st =? -1 then lend (p :: r) = pe p else lstart (p :: r) = ps p.
Proof.
  intros [Hp Hout]. destruct (st =? -1); rewrite Forall_forall in Hout.
  - unfold lend. apply lmax_unique; [left; reflexivity|].
    intros y Hy. simpl in Hy. destruct Hy as [<-|Hy]; [lia|]. apply in_map_iff in Hy.
    destruct Hy as [x [<- Hx]]. specialize (Hout x Hx). simpl in Hout. lia.
  - unfold lstart. apply lmin_unique; [left; reflexivity|].
    intros y Hy. simpl in Hy. destruct Hy as [<-|Hy]; [lia|]. apply in_map_iff in Hy.
    destruct Hy as [x [<- Hx]]. specialize (Hout x Hx). simpl in Hout. lia.
Qed.

(* the test of _adjust_location_by_offset on a location of several parts: it crosses the origin
   (location_bridges_origin), or its first listed exon is the outermost one *)
Definition adj_test (st : Z) (p : part) (r : list part) : bool :=
  bridges (p :: r) || (if st =? -1 then pe p =? lend (p :: r) else ps p =? lstart (p :: r)).

Lemma frameshift_shape_gen st p r cs :
  same_strand st (p :: r) -> adj_test st p r = true -> 1 <= cs <= 3 -> cs - 1 <= pe p - ps p ->
  frameshift (p :: r) cs false = Ok (shorten st p (cs - 1) :: r).
Proof.
  intros Hst Ht Hcs Hlen.
  destruct (same_strand_cons _ _ _ Hst) as [Hps Hrest].
  assert (Hstr : lstrand (p :: r) = st) by (apply lstrand_same; [discriminate|assumption]).
  unfold frameshift. cbv zeta. rewrite Hstr.
  replace ((0 <=? cs - 1) && (cs - 1 <=? 2)) with true by lia. cbn [negb].
  unfold shorten. destruct (cs - 1 =? 0) eqn:Hz.
  - assert (Hk : cs - 1 = 0) by lia. rewrite Hk.
    unfold adjust_by_offset. destruct (st =? -1); simpl (_ =? 0); cbn iota;
      rewrite ?Z.sub_0_r, ?Z.add_0_r, <- Hps, part_eta; reflexivity.
  - unfold adjust_by_offset. rewrite Hstr, Hps. unfold mkFL. unfold adj_test in Ht.
    destruct (st =? -1) eqn:Est.
    + replace (- (cs - 1) =? 0) with false by lia.
      replace ((-2 <=? - (cs - 1)) && (- (cs - 1) <=? 2)) with true by lia. cbn [negb].
      replace (pe p + - (cs - 1) <? ps p) with false by lia.
      replace (pe p + - (cs - 1)) with (pe p - (cs - 1)) by lia.
      destruct r as [|p2 r']; [reflexivity|]. rewrite Ht. reflexivity.
    + rewrite Hz. replace ((-2 <=? cs - 1) && (cs - 1 <=? 2)) with true by lia. cbn [negb].
      replace (pe p <? ps p + (cs - 1)) with false by lia.
      destruct r as [|p2 r']; [reflexivity|]. rewrite Ht. reflexivity.
Qed.

Lemma frameshift_shape st p r cs :
  same_strand st (p :: r) -> first_outermost st (p :: r) -> 1 <= cs <= 3 -> cs - 1 <= pe p - ps p ->
  frameshift (p :: r) cs false = Ok (shorten st p (cs - 1) :: r).
Proof.
  intros Hst Hout Hcs Hlen. apply frameshift_shape_gen; try assumption.
  pose proof (first_outer_bound st p r Hout) as Hb. unfold adj_test.
  destruct (st =? -1); rewrite Hb, Z.eqb_refl; apply orb_true_r.
Qed.

(* to_biopython's undo on the shortened location, under the same test *)
Lemma frameshift_unshape st p r cs :
  same_strand st (p :: r) -> adj_test st (shorten st p (cs - 1)) r = true ->
  1 <= cs <= 3 -> cs - 1 <= pe p - ps p ->
  frameshift (shorten st p (cs - 1) :: r) cs true = Ok (p :: r).
Proof.
  intros Hst Ht Hcs Hlen.
  destruct (same_strand_cons _ _ _ Hst) as [Hps Hrest].
  set (q := shorten st p (cs - 1)) in *.
  assert (Hq : pst q = st) by (unfold q, shorten; destruct (st =? -1); reflexivity).
  assert (Hst' : same_strand st (q :: r)) by (constructor; assumption).
  assert (Hstr : lstrand (q :: r) = st) by (apply lstrand_same; [discriminate|assumption]).
  unfold frameshift. cbv zeta. rewrite Hstr.
  replace ((0 <=? cs - 1) && (cs - 1 <=? 2)) with true by lia. cbn [negb].
  destruct (cs - 1 =? 0) eqn:Hz.
  - assert (Hk : cs - 1 = 0) by lia.
    assert (Hqp : q = p).
    { unfold q, shorten. rewrite Hk. destruct (st =? -1);
        rewrite ?Z.sub_0_r, ?Z.add_0_r, <- Hps; apply part_eta. }
    rewrite Hqp, Hk. unfold adjust_by_offset. destruct (st =? -1); reflexivity.
  - unfold adjust_by_offset. rewrite Hstr, Hq. unfold mkFL. unfold adj_test in Ht. fold q in Ht.
    destruct (st =? -1) eqn:Est.
    + replace (- - (cs - 1) =? 0) with false by lia.
      replace ((-2 <=? - - (cs - 1)) && (- - (cs - 1) <=? 2)) with true by lia. cbn [negb].
      assert (Hqq : ps q = ps p /\ pe q = pe p - (cs - 1)) by (unfold q, shorten; rewrite Est; split; reflexivity).
      destruct Hqq as [Q1 Q2]. rewrite Q1, Q2.
      replace (pe p - (cs - 1) + - - (cs - 1)) with (pe p) by lia.
      replace (pe p <? ps p) with false by lia.
      destruct r as [|p2 r']; cbn [bind]; [rewrite <- Hps, part_eta; reflexivity|].
      rewrite Q2 in Ht. rewrite Ht. cbn [bind]. rewrite <- Hps, part_eta. reflexivity.
    + replace (- (cs - 1) =? 0) with false by lia.
      replace ((-2 <=? - (cs - 1)) && (- (cs - 1) <=? 2)) with true by lia. cbn [negb].
      assert (Hqq : ps q = ps p + (cs - 1) /\ pe q = pe p) by (unfold q, shorten; rewrite Est; split; reflexivity).
      destruct Hqq as [Q1 Q2]. rewrite Q1, Q2.
      replace (ps p + (cs - 1) + - (cs - 1)) with (ps p) by lia.
      replace (pe p <? ps p) with false by lia.
      destruct r as [|p2 r']; cbn [bind]; [rewrite <- Hps, part_eta; reflexivity|].
      rewrite Q1 in Ht. rewrite Ht. cbn [bind]. rewrite <- Hps, part_eta. reflexivity.
Qed.

(* shortening the first listed exon at its 5' end keeps a location that crosses the origin crossing it *)
Lemma bridges_shorten st p r k : st = 1 \/ st = -1 -> same_strand st (p :: r) -> 0 <= k ->
  bridges (p :: r) = true -> bridges (shorten st p k :: r) = true.
Proof.
  intros Hpm Hst Hk Hb.
  destruct (same_strand_cons _ _ _ Hst) as [Hps Hrest].
  set (q := shorten st p k) in *.
  assert (Hq : pst q = st) by (unfold q, shorten; destruct (st =? -1); reflexivity).
  assert (Hst' : same_strand st (q :: r)) by (constructor; assumption).
  assert (Hstr : lstrand (p :: r) = st) by (apply lstrand_same; [discriminate|assumption]).
  assert (Hstr' : lstrand (q :: r) = st) by (apply lstrand_same; [discriminate|assumption]).
  unfold bridges in *. destruct r as [|p2 r']; [discriminate|]. cbn [is_compound] in *.
  rewrite Hstr in Hb. rewrite Hstr'.
  replace ((st =? 1) || (st =? -1)) with true in * by lia.
  cbn [check_order] in *. apply orb_true_iff in Hb. apply orb_true_iff.
  destruct Hb as [Hb|Hb]; [left|right; assumption].
  unfold q, shorten. destruct Hpm; subst st; cbn [Z.eqb Pos.eqb ps] in *; lia.
Qed.

Lemma part_idx_length p : ps p <= pe p -> length (part_idx p) = Z.to_nat (pe p - ps p).
Proof.
  intros H. unfold part_idx. destruct (pst p =? -1); [rewrite rev_length|]; apply zrange_length.
Qed.

Lemma idx_shorten st p r k : pst p = st -> 0 <= k <= pe p - ps p ->
  idx (shorten st p k :: r) = skipn (Z.to_nat k) (idx (p :: r)).
Proof.
  intros Hps Hk. unfold idx. simpl flat_map. rewrite skipn_app.
  rewrite part_idx_length by lia.
  replace (Z.to_nat k - Z.to_nat (pe p - ps p))%nat with 0%nat by lia. cbn [skipn]. f_equal.
  unfold shorten, part_idx. rewrite Hps. destruct (st =? -1) eqn:Est; cbn [pst ps pe]; rewrite Est.
  - rewrite skipn_rev. f_equal. rewrite zrange_length.
    replace (Z.to_nat (pe p - ps p) - Z.to_nat k)%nat with (Z.to_nat (pe p - ps p - k)) by lia.
    rewrite firstn_zrange by lia. f_equal. lia.
  - rewrite skipn_zrange by lia. reflexivity.
Qed.

Lemma llen_shorten st p r k : llen (shorten st p k :: r) = llen (p :: r) - k.
Proof. rewrite !llen_cons. unfold shorten, plen. destruct (st =? -1); cbn [ps pe]; lia. Qed.

Lemma mono_change_last X : forall lo p q, mono lo (X ++ [p]) -> ps q = ps p -> ps q < pe q ->
  mono lo (X ++ [q]).
Proof.
  induction X as [|x X IH]; intros lo p q Hm H1 H2; simpl in *.
  - destruct Hm as [Ha [Hb _]]. split; [lia|]. split; [assumption|exact I].
  - destruct Hm as [Ha [Hb Hc]]. split; [assumption|]. split; [assumption|]. eapply IH; eassumption.
Qed.

Lemma guard_shorten p r k : guard_gene (p :: r) = true -> 0 <= k < pe p - ps p ->
  guard_gene (shorten (pst p) p k :: r) = true.
Proof.
  unfold guard_gene. rewrite !andb_true_iff. intros [H1 H2] Hk.
  set (st := pst p) in *. set (q := shorten st p k).
  assert (Hq : pst q = st) by (unfold q, shorten; destruct (st =? -1); reflexivity).
  rewrite Hq. apply same_strand_b_spec in H1. apply mono_b_spec in H2.
  destruct (same_strand_cons _ _ _ H1) as [_ Hrest].
  assert (Hst' : same_strand st (q :: r)) by (constructor; assumption).
  split; [apply same_strand_b_spec; assumption|]. apply mono_b_spec.
  assert (Hstr : lstrand (p :: r) = st) by (apply lstrand_same; [discriminate|assumption]).
  assert (Hstr' : lstrand (q :: r) = st) by (apply lstrand_same; [discriminate|assumption]).
  unfold ascending in *. rewrite Hstr in H2. rewrite Hstr'.
  unfold q, shorten. destruct (st =? -1) eqn:Est.
  - simpl rev in *. eapply mono_change_last; [exact H2|reflexivity|].
    cbn [ps pe]. lia.
  - simpl in *. destruct H2 as [Ha [Hb Hc]]. split; [lia|]. split; [lia|assumption].
Qed.

Lemma part_contains_trans a b c :
  part_contains a b = true -> part_contains b c = true -> part_contains a c = true.
Proof. unfold part_contains. lia. Qed.

Lemma contains_trans a b c : contains a b = true -> contains b c = true -> contains a c = true.
Proof.
  unfold contains. rewrite !forallb_forall. intros Hab Hbc x Hx.
  specialize (Hbc x Hx). apply existsb_exists in Hbc. destruct Hbc as [y [Hy Hyx]].
  specialize (Hab y Hy). apply existsb_exists in Hab. destruct Hab as [z [Hz Hzy]].
  apply existsb_exists. exists z. split; [assumption|]. eapply part_contains_trans; eassumption.
Qed.

Lemma contains_shorten st p r k : Forall okp (p :: r) -> 0 <= k <= pe p - ps p ->
  contains (p :: r) (shorten st p k :: r) = true.
Proof.
  intros Hok Hk. unfold contains. apply forallb_forall. intros x [<-|Hx].
  - apply existsb_exists. exists p. split; [left; reflexivity|].
    unfold part_contains, shorten. destruct (st =? -1); cbn [ps pe]; lia.
  - apply existsb_exists. exists x. split; [right; assumption|].
    rewrite Forall_forall in Hok. specialize (Hok x (or_intror Hx)). unfold okp in Hok.
    unfold part_contains. lia.
Qed.

Lemma guard_okp g : guard_gene g = true -> Forall okp g.
Proof.
  intros Hg. destruct (guard_gene_form g Hg) as [st [A [-> [_ [Hm _]]]]].
  apply Forall_forall. intros x Hx. apply in_gene in Hx.
  pose proof (mono_okp _ _ Hm) as H. rewrite Forall_forall in H. apply H. assumption.
Qed.

(* the adjusted location of a gene that does not span the origin reads the annotated location from
   base codon_start-1 on *)
Lemma codon_start_reads g cs :
  guard_gene g = true -> 1 <= cs <= 3 -> cs - 1 <= first_exon_len g ->
  exists g', frameshift g cs false = Ok g' /\
    idx g' = skipn (Z.to_nat (cs - 1)) (idx g) /\
    llen g' = llen g - (cs - 1) /\
    contains g g' = true /\
    (forall sq, extract sq g' = skipn (Z.to_nat (cs - 1)) (extract sq g)) /\
    (cs - 1 < first_exon_len g -> guard_gene g' = true).
Proof.
  intros Hg Hcs Hlen. destruct (guard_first_outermost g Hg) as [st [Hst Hout]].
  destruct g as [|p r]; [discriminate|]. simpl in Hlen.
  destruct (same_strand_cons _ _ _ Hst) as [Hps _].
  exists (shorten st p (cs - 1) :: r).
  split; [apply frameshift_shape; assumption|].
  assert (Hidx : idx (shorten st p (cs - 1) :: r) = skipn (Z.to_nat (cs - 1)) (idx (p :: r)))
    by (apply idx_shorten; [assumption|lia]).
  split; [assumption|]. split; [apply llen_shorten|].
  split; [apply contains_shorten; [apply guard_okp; assumption|lia]|].
  split.
  - intros sq. rewrite (extract_idx st sq (p :: r) Hst).
    assert (Hst' : same_strand st (shorten st p (cs - 1) :: r)).
    { constructor; [unfold shorten; destruct (st =? -1); reflexivity|].
      destruct (same_strand_cons _ _ _ Hst); assumption. }
    rewrite (extract_idx st sq _ Hst'), Hidx, skipn_map. reflexivity.
  - intros Hlt. simpl in Hlt. rewrite <- Hps. apply guard_shorten; [assumption|lia].
Qed.

(* the same for a location that crosses the origin (location_bridges_origin), strand 1 or -1: the
   adjustment shortens the first listed exon - the 5' one - whatever its coordinates, the adjusted
   location reads the annotated one from base codon_start-1 on, and to_biopython's undo restores it *)
Lemma codon_start_bridging g cs :
  bridges g = true -> lstrand g = 1 \/ lstrand g = -1 -> Forall okp g ->
  1 <= cs <= 3 -> cs - 1 <= first_exon_len g ->
  exists g', frameshift g cs false = Ok g' /\
    idx g' = skipn (Z.to_nat (cs - 1)) (idx g) /\
    llen g' = llen g - (cs - 1) /\
    contains g g' = true /\
    (forall sq, extract sq g' = skipn (Z.to_nat (cs - 1)) (extract sq g)) /\
    frameshift g' cs true = Ok g.
Proof.
  intros Hb Hpm Hok Hcs Hlen. set (st := lstrand g) in *.
  pose proof (lstrand_pm g st eq_refl Hpm) as Hst.
  destruct g as [|p r]; [discriminate|]. simpl in Hlen.
  destruct (same_strand_cons _ _ _ Hst) as [Hps Hrest].
  exists (shorten st p (cs - 1) :: r).
  split; [apply frameshift_shape_gen; try assumption; unfold adj_test; rewrite Hb; reflexivity|].
  assert (Hidx : idx (shorten st p (cs - 1) :: r) = skipn (Z.to_nat (cs - 1)) (idx (p :: r)))
    by (apply idx_shorten; [assumption|lia]).
  split; [assumption|]. split; [apply llen_shorten|].
  split; [apply contains_shorten; [assumption|lia]|].
  split.
  - intros sq. rewrite (extract_idx st sq (p :: r) Hst).
    assert (Hst' : same_strand st (shorten st p (cs - 1) :: r)).
    { constructor; [unfold shorten; destruct (st =? -1); reflexivity|assumption]. }
    rewrite (extract_idx st sq _ Hst'), Hidx, skipn_map. reflexivity.
  - apply frameshift_unshape; try assumption. unfold adj_test.
    rewrite (bridges_shorten st p r (cs - 1)); try assumption; [reflexivity|lia].
Qed.

(* a well-formed gene that spans the origin (Model.spanning_gene) on strand 1 or -1 is a location that
   location_bridges_origin recognises *)
Lemma check_order_mid st : forall X a b Y,
  (if st =? 1 then ps b <? ps a else ps a <? ps b) = true -> check_order st (X ++ a :: b :: Y) = true.
Proof.
  induction X as [|x X IH]; intros a b Y H.
  - simpl app. change (check_order st (a :: b :: Y))
      with ((if st =? 1 then ps b <? ps a else ps a <? ps b) || check_order st (b :: Y)).
    rewrite H. reflexivity.
  - simpl app. destruct (X ++ a :: b :: Y) as [|y l] eqn:E.
    + destruct X; discriminate.
    + change (check_order st (x :: y :: l))
        with ((if st =? 1 then ps y <? ps x else ps x <? ps y) || check_order st (y :: l)).
      rewrite <- E. rewrite (IH a b Y H). apply orb_true_r.
Qed.

Lemma split_run_spec : forall l prev first second, split_run prev l = (first, second) ->
  prev :: l = first ++ second /\
  (second = [] \/ exists F a b S, first = F ++ [a] /\ second = b :: S /\ ps b < pe a).
Proof.
  induction l as [|p r IH]; intros prev first second H; simpl in H.
  - injection H as <- <-. split; [reflexivity|left; reflexivity].
  - destruct (pe prev <=? ps p) eqn:E.
    + destruct (split_run p r) as [a0 b0] eqn:E2. injection H as <- <-.
      destruct (IH p a0 b0 E2) as [H1 H2]. split; [simpl; rewrite H1; reflexivity|].
      destruct H2 as [H2|[F [a [b [S [HF [HS Hlt]]]]]]]; [left; assumption|].
      right. exists (prev :: F), a, b, S. split; [simpl; rewrite HF; reflexivity|]. split; assumption.
    + injection H as <- <-. split; [reflexivity|]. right. exists [], prev, p, r.
      split; [reflexivity|]. split; [reflexivity|lia].
Qed.

Lemma spanning_bridges g : spanning_gene g = true -> lstrand g = 1 \/ lstrand g = -1 ->
  bridges g = true /\ Forall okp g.
Proof.
  destruct g as [|p0 r0]; [discriminate|]. unfold spanning_gene. rewrite !andb_true_iff.
  intros [[H1 _] H3] Hpm. apply same_strand_b_spec in H1.
  assert (Hstr : lstrand (p0 :: r0) = pst p0) by (apply lstrand_same; [discriminate|assumption]).
  rewrite Hstr in Hpm.
  destruct (ascending (p0 :: r0)) as [|q r] eqn:Easc; [discriminate|].
  destruct (split_run q r) as [first second] eqn:Esp.
  destruct second as [|b0 S0] eqn:Esec; [discriminate|]. rewrite <- Esec in *. apply mono_b_spec in H3.
  destruct (split_run_spec _ _ _ _ Esp) as [Happ [Hnil|[F [a [b [S [HF [HS Hlt]]]]]]]]; [congruence|].
  assert (Hok : Forall okp (p0 :: r0)).
  { pose proof (mono_okp _ _ H3) as Hk. apply Forall_app in Hk. destruct Hk as [K1 K2].
    assert (Hk : Forall okp (ascending (p0 :: r0))) by (rewrite Easc, Happ; apply Forall_app; split; assumption).
    unfold ascending in Hk. destruct (lstrand (p0 :: r0) =? -1); [|assumption].
    rewrite <- (rev_involutive (p0 :: r0)). apply Forall_rev. assumption. }
  split; [|assumption].
  assert (Hba : ps b < ps a).
  { rewrite HS, HF in H3.
    replace ((b :: S) ++ F ++ [a]) with ((b :: S ++ F) ++ [a]) in H3 by (simpl; rewrite <- app_assoc; reflexivity).
    pose proof (mono_app_last _ _ _ H3 b (or_introl eq_refl)) as Hl.
    simpl in H3. destruct H3 as [_ [Hb _]]. lia. }
  assert (Hasc : ascending (p0 :: r0) = F ++ a :: b :: S)
    by (rewrite Easc, Happ, HF, HS, <- app_assoc; reflexivity).
  unfold bridges. rewrite Hstr.
  replace ((pst p0 =? 1) || (pst p0 =? -1)) with true by lia.
  unfold ascending in Hasc. rewrite Hstr in Hasc.
  destruct (pst p0 =? -1) eqn:Est.
  - assert (Hg : p0 :: r0 = rev S ++ b :: a :: rev F).
    { rewrite <- (rev_involutive (p0 :: r0)), Hasc, rev_app_distr. simpl. rewrite <- !app_assoc. reflexivity. }
    rewrite Hg. replace (is_compound (rev S ++ b :: a :: rev F)) with true
      by (destruct (rev S) as [|x [|y z]]; reflexivity).
    apply check_order_mid. replace (pst p0 =? 1) with false by lia. lia.
  - rewrite Hasc. replace (is_compound (F ++ a :: b :: S)) with true
      by (destruct F as [|x [|y z]]; reflexivity).
    apply check_order_mid. replace (pst p0 =? 1) with true by lia. lia.
Qed.

(* the statement for genes in the class the harness uses *)
Lemma codon_start_origin g cs :
  spanning_gene g = true -> lstrand g = 1 \/ lstrand g = -1 ->
  1 <= cs <= 3 -> cs - 1 <= first_exon_len g ->
  exists g', frameshift g cs false = Ok g' /\
    idx g' = skipn (Z.to_nat (cs - 1)) (idx g) /\
    llen g' = llen g - (cs - 1) /\
    contains g g' = true /\
    (forall sq, extract sq g' = skipn (Z.to_nat (cs - 1)) (extract sq g)) /\
    frameshift g' cs true = Ok g.
Proof.
  intros Hsp Hpm Hcs Hlen. destruct (spanning_bridges g Hsp Hpm) as [Hb Hok].
  apply codon_start_bridging; assumption.
Qed.

Lemma sublist_skipn {A} k u v (l : list A) : 0 <= k -> 0 <= u ->
  sublist u v (skipn (Z.to_nat k) l) = sublist (k + u) (k + v) l.
Proof.
  intros Hk Hu. unfold sublist. rewrite skipn_skipn_add.
  replace (Z.to_nat (k + v - (k + u))) with (Z.to_nat (v - u)) by lia.
  replace (Z.to_nat k + Z.to_nat u)%nat with (Z.to_nat (k + u)) by lia. reflexivity.
Qed.

(* with a codon_start offset the sub-location is computed on the adjusted location: it covers the
   bases cs-1+3s .. cs-1+3e of the ANNOTATED location, and to_biopython restores the latter *)
Lemma codon_start_subloc g cs s e ea sb :
  guard_gene g = true -> 1 <= cs <= 3 -> cs - 1 < first_exon_len g ->
  0 <= s < e -> e <= (llen g - (cs - 1)) / 3 ->
  exists g' sub, frameshift g cs false = Ok g' /\ get_sub g' ea sb s e = Ok sub /\
    idx g' = skipn (Z.to_nat (cs - 1)) (idx g) /\
    contains g sub = true /\ llen sub = 3 * (e - s) /\
    idx sub = sublist (cs - 1 + 3 * s) (cs - 1 + 3 * e) (idx g) /\
    (forall sq, extract sq sub = sublist (cs - 1 + 3 * s) (cs - 1 + 3 * e) (extract sq g)) /\
    (forall sq cod, translate cod (extract sq sub) = sublist s e (translate cod (extract sq g'))) /\
    frameshift g' cs true = Ok g.
Proof.
  intros Hg Hcs Hlt Hs He.
  destruct (codon_start_reads g cs Hg Hcs) as [g' [Hf [Hidx [Hlen [Hcont [Hex Hg']]]]]]; [lia|].
  specialize (Hg' Hlt). rewrite <- Hlen in He.
  destruct (subloc_guard g' s e ea sb Hg' Hs He) as [sub [Hsub [Hc [Hl [Hi [He1 He2]]]]]].
  exists g', sub. split; [assumption|]. split; [assumption|]. split; [assumption|].
  split; [eapply contains_trans; eassumption|]. split; [assumption|].
  split; [rewrite Hi, Hidx; apply sublist_skipn; lia|].
  split; [intros sq; rewrite He1, Hex; apply sublist_skipn; lia|].
  split; [assumption|]. apply codon_start_restored; assumption.
Qed.

(* ================= the loading path of a CDS ================= *)
Lemma has_dup_false xs : NoDup xs -> has_dup xs = false.
Proof.
  induction 1 as [|x r Hx Hr IH]; [reflexivity|]. simpl. rewrite IH, orb_false_r.
  destruct (existsb (Z.eqb x) r) eqn:E; [|reflexivity].
  apply existsb_exists in E. destruct E as [y [Hy Hxy]]. apply Z.eqb_eq in Hxy. subst y. contradiction.
Qed.

Lemma mono_nodup A : forall lo, mono lo A -> NoDup (map pe A).
Proof.
  induction A as [|p r IH]; intros lo Hm; [constructor|]. destruct Hm as [H1 [H2 H3]].
  simpl. constructor; [|eapply IH; eassumption].
  intros Hin. apply in_map_iff in Hin. destruct Hin as [q [Hq Hin]].
  destruct (mono_in _ _ _ H3 Hin). lia.
Qed.

Lemma guard_feature_init g : guard_gene g = true -> feature_init g = Ok tt.
Proof.
  intros Hg. destruct (guard_gene_form g Hg) as [st [A [-> [Hne [Hm Hst]]]]].
  unfold feature_init.
  assert (Hnd : has_dup (map pe (gene_of st A)) = false).
  { apply has_dup_false. unfold gene_of. destruct (st =? -1).
    - rewrite map_rev. apply NoDup_rev. eapply mono_nodup; eassumption.
    - eapply mono_nodup; eassumption. }
  rewrite Hnd, andb_false_r.
  destruct A as [|p A']; [congruence|].
  assert (Hp : In p (gene_of st (p :: A'))) by (apply in_gene; left; reflexivity).
  assert (H1 : lstart (gene_of st (p :: A')) <= ps p) by (apply lmin_le, in_map; assumption).
  assert (H2 : pe p <= lend (gene_of st (p :: A'))) by (apply lmax_ge, in_map; assumption).
  destruct (mono_in _ _ p Hm (or_introl eq_refl)) as [H3 H4].
  replace (lend (gene_of st (p :: A')) <? lstart (gene_of st (p :: A'))) with false by lia.
  assert (H5 : 0 <= lstart (gene_of st (p :: A'))).
  { assert (Hin : In (lstart (gene_of st (p :: A'))) (map ps (gene_of st (p :: A')))).
    { apply lmin_in. intros E. apply map_eq_nil in E. rewrite E in Hp. destruct Hp. }
    apply in_map_iff in Hin. destruct Hin as [q [<- Hq]]. apply in_gene in Hq.
    destruct (mono_in _ _ q Hm Hq). lia. }
  replace (lstart (gene_of st (p :: A')) <? 0) with false by lia. reflexivity.
Qed.

Lemma lend_contains a b : b <> [] -> contains a b = true -> lend b <= lend a.
Proof.
  intros Hne Hc. assert (Hin : In (lend b) (map pe b)).
  { apply lmax_in. intros E. apply map_eq_nil in E. contradiction. }
  apply in_map_iff in Hin. destruct Hin as [x [Hx Hin]].
  unfold contains in Hc. rewrite forallb_forall in Hc. specialize (Hc x Hin).
  apply existsb_exists in Hc. destruct Hc as [y [Hy Hyx]].
  assert (pe y <= lend a) by (apply lmax_ge, in_map; assumption).
  unfold part_contains in Hyx. lia.
Qed.

Lemma translate_length3 cod : forall n x, (length x <= n)%nat ->
  (3 * length (translate cod x) <= length x)%nat.
Proof.
  induction n as [|n IH]; intros x Hn.
  - destruct x; [simpl; lia|simpl in Hn; lia].
  - destruct x as [|a [|b [|c r]]]; simpl; try lia.
    assert (H : (length r <= n)%nat) by (simpl in Hn; lia). specialize (IH r H). simpl in IH. lia.
Qed.

Lemma translate_nonempty cod x : (3 <= length x)%nat -> translate cod x <> [].
Proof. destruct x as [|a [|b [|c r]]]; simpl; intros H; try lia. discriminate. Qed.

Lemma take_to_stop_length l : (length (take_to_stop l) <= length l)%nat.
Proof. induction l as [|x r IH]; simpl; [lia|]. destruct (x =? AA_STOP); simpl; lia. Qed.

Lemma take_to_stop_nostop l : ~ In AA_STOP l -> take_to_stop l = l.
Proof.
  induction l as [|x r IH]; intros H; [reflexivity|]. simpl.
  destruct (x =? AA_STOP) eqn:E.
  - exfalso. apply H. left. lia.
  - f_equal. apply IH. intros Hin. apply H. right. assumption.
Qed.

Lemma idx_length_guard g : guard_gene g = true -> length (idx g) = Z.to_nat (llen g).
Proof.
  intros Hg. destruct (guard_gene_form g Hg) as [st [A [-> [_ [Hm Hst]]]]].
  rewrite (idx_gene st A Hst), llen_gene.
  destruct (asc_length A (mono_okp _ _ Hm)) as [H _].
  destruct (st =? -1); [rewrite rev_length|]; assumption.
Qed.

Lemma extract_length_guard sq g : guard_gene g = true -> length (extract sq g) = Z.to_nat (llen g).
Proof.
  intros Hg. destruct (guard_first_outermost g Hg) as [st [Hst _]].
  rewrite (extract_idx st sq g Hst), map_length. apply idx_length_guard. assumption.
Qed.

(* the stored residues: translation up to the first stop codon (of everything if that is empty) *)
Definition stored_seq (full : list Z) : list Z :=
  match take_to_stop full with [] => full | s => s end.

Lemma stored_seq_length full : (length (stored_seq full) <= length full)%nat.
Proof.
  unfold stored_seq. pose proof (take_to_stop_length full).
  destruct (take_to_stop full); [lia|assumption].
Qed.
Lemma stored_seq_nonempty full : full <> [] -> stored_seq full <> [].
Proof. unfold stored_seq. destruct (take_to_stop full); [tauto|discriminate]. Qed.

(* A CDS annotated with /codon_start on a gene that does not span the origin is loaded: the gene's
   location is the annotated one shortened by codon_start-1 bases, the translation is generated
   from exactly that location, and writing it out restores the annotation *)
Lemma cds_load tbl sq n l cs :
  guard_gene l = true -> lstrand l = 1 \/ lstrand l = -1 -> 1 <= cs <= 3 ->
  cs - 1 < first_exon_len l -> lend l <= n -> 3 <= llen l - (cs - 1) ->
  exists g t0, frameshift l cs false = Ok g /\
    aa_translation tbl sq n g = Ok t0 /\ t0 <> [] /\
    cds_from_biopython tbl sq n l cs = Ok (g, mfix t0, cs - 1) /\
    cds_to_biopython g (cs - 1) = Ok (l, cs) /\
    (~ In AA_STOP (translate (codon_of tbl) (extract sq g)) ->
     t0 = map replace_invalid (translate (codon_of tbl) (extract sq g))).
Proof.
  intros Hg Hstr Hcs Hlt Hn Hlen.
  destruct (codon_start_reads l cs Hg Hcs) as [g [Hf [Hidx [Hll [Hcont [Hex Hg']]]]]]; [lia|].
  specialize (Hg' Hlt).
  assert (Hgne : g <> []) by (intros ->; discriminate Hg').
  pose proof (lend_contains l g Hgne Hcont) as Hend.
  set (full := translate (codon_of tbl) (extract sq g)).
  assert (Hxl : length (extract sq g) = Z.to_nat (llen g)) by (apply extract_length_guard; assumption).
  assert (Hfull : full <> []) by (apply translate_nonempty; lia).
  assert (Haa : aa_translation tbl sq n g = Ok (map replace_invalid (stored_seq full))).
  { unfold aa_translation. replace (n <? lend g) with false by lia. reflexivity. }
  exists g, (map replace_invalid (stored_seq full)).
  split; [assumption|]. split; [assumption|].
  assert (Hne : map replace_invalid (stored_seq full) <> []).
  { intros E. apply map_eq_nil in E. revert E. apply stored_seq_nonempty. assumption. }
  split; [assumption|].
  assert (Hrest : frameshift g cs true = Ok l) by (apply codon_start_restored; assumption).
  split; [|split].
  - unfold cds_from_biopython. cbv zeta. replace (0 <=? cs) with true by lia.
    assert (Hv : verify_location l = Ok tt).
    { unfold verify_location. destruct Hstr as [-> | ->]; reflexivity. }
    rewrite Hv. cbn [any_as_invalid bind]. rewrite Hf. cbn [bind].
    unfold ensure_translation. replace (n <? lend g) with false by lia.
    replace (llen g <? 3) with false by lia. rewrite Haa. cbn [as_invalid bind].
    unfold cds_init. rewrite (guard_feature_init l Hg), Hv. cbn [bind].
    destruct (map replace_invalid (stored_seq full)) as [|x t] eqn:Et; [congruence|].
    rewrite <- Et.
    assert (Hzl : zlen (map replace_invalid (stored_seq full)) * 3 <= llen l).
    { unfold zlen. rewrite map_length. pose proof (stored_seq_length full).
      pose proof (translate_length3 (codon_of tbl) _ (extract sq g) (le_n _)). fold full in H0. lia. }
    replace (llen l <? zlen (map replace_invalid (stored_seq full)) * 3) with false by lia.
    reflexivity.
  - unfold cds_to_biopython. replace (cs - 1 <? 0) with false by lia.
    replace (cs - 1 + 1) with cs by lia. rewrite Hrest. reflexivity.
  - intros Hns. fold full in Hns |- *. unfold stored_seq. rewrite (take_to_stop_nostop full Hns).
    clearbody full. destruct full; reflexivity.
Qed.

Lemma sublist_mfix s e t : 1 <= s -> sublist s e (mfix t) = sublist s e t.
Proof.
  intros Hs. unfold sublist, mfix. destruct t as [|x r]; [reflexivity|].
  destruct (x =? AA_M); [reflexivity|].
  replace (Z.to_nat s) with (S (Z.to_nat (s - 1))) by lia. reflexivity.
Qed.

(* end to end: a sub-location inside a CDS loaded with /codon_start lies inside the annotated
   location, has three bases per residue and translates (stop-free frame, residues after the
   first, which is stored as M) to exactly that stretch of the stored translation *)
Lemma cds_load_subloc tbl sq n l cs g t ocs s e :
  guard_gene l = true -> lstrand l = 1 \/ lstrand l = -1 -> 1 <= cs <= 3 ->
  cs - 1 < first_exon_len l -> lend l <= n -> 3 <= llen l - (cs - 1) ->
  cds_from_biopython tbl sq n l cs = Ok (g, t, ocs) ->
  ~ In AA_STOP (translate (codon_of tbl) (extract sq g)) ->
  1 <= s < e -> e <= llen g / 3 ->
  exists sub, get_sub g false false s e = Ok sub /\
    contains l sub = true /\ llen sub = 3 * (e - s) /\
    idx sub = sublist (cs - 1 + 3 * s) (cs - 1 + 3 * e) (idx l) /\
    map replace_invalid (translate (codon_of tbl) (extract sq sub)) = sublist s e t.
Proof.
  intros Hg Hstr Hcs Hlt Hn Hlen Hload Hns Hs He.
  destruct (cds_load tbl sq n l cs Hg Hstr Hcs Hlt Hn Hlen) as [g0 [t0 [Hf [_ [_ [Hl0 [_ Ht0]]]]]]].
  rewrite Hl0 in Hload. injection Hload as <- <- _. specialize (Ht0 Hns).
  destruct (codon_start_subloc l cs s e false false Hg Hcs Hlt) as [g1 [sub [Hf1 [Hsub [_ [Hc [Hll [Hi [_ [Htr _]]]]]]]]]];
    [lia| |].
  - assert (Hgl : llen g0 = llen l - (cs - 1)).
    { destruct (codon_start_reads l cs Hg Hcs) as [g2 [Hf2 [_ [H2 _]]]]; [lia|]. congruence. }
    rewrite <- Hgl. assumption.
  - assert (g1 = g0) by congruence. subst g1.
    exists sub. split; [assumption|]. split; [assumption|]. split; [assumption|]. split; [assumption|].
    rewrite Htr, sublist_mfix by lia. rewrite Ht0. symmetry. apply sublist_map.
Qed.

(* exons overlapping by one base (programmed frameshift): residue 3 of join{[32:43](+), [42:45](+)}
   is placed at [41:43] - two bases *)
Lemma subloc_overlap_refuted :
  exists g s e sub, slippage_gene g = true /\ 0 <= s < e /\ e <= llen g / 3 /\
    get_sub g false false s e = Ok sub /\ llen sub <> 3 * (e - s) /\
    idx sub <> sublist (3 * s) (3 * e) (idx g).
Proof.
  exists [mkPart 32 43 1; mkPart 42 45 1], 3, 4, [mkPart 41 43 1].
  split; [vm_compute; reflexivity|]. split; [lia|]. split; [vm_compute; discriminate|].
  split; [vm_compute; reflexivity|]. split; [vm_compute; discriminate|].
  intros H. vm_compute in H. discriminate H.
Qed.

(* ================= build_location_from_others ================= *)
Lemma last_opt_snoc {A} (X : list A) p : last_opt (X ++ [p]) = Some p.
Proof. unfold last_opt. rewrite rev_app_distr. reflexivity. Qed.

Definition lastpe (l : list part) : Z := match last_opt l with Some p => pe p | None => 0 end.

Lemma lastpe_app X Y : Y <> [] -> lastpe (X ++ Y) = lastpe Y.
Proof.
  intros HY. unfold lastpe, last_opt. rewrite rev_app_distr.
  destruct (rev Y) as [|z zs] eqn:E; [|reflexivity].
  exfalso. apply HY. rewrite <- (rev_involutive Y), E. reflexivity.
Qed.

Lemma lastpe_same_end a b Y : pe a = pe b -> lastpe (a :: Y) = lastpe (b :: Y).
Proof.
  intros H. destruct Y as [|y Y]; [exact H|].
  change (a :: y :: Y) with ([a] ++ y :: Y). change (b :: y :: Y) with ([b] ++ y :: Y).
  rewrite !lastpe_app by discriminate. reflexivity.
Qed.

Lemma mono_app X : forall lo p Y, mono lo (X ++ [p]) -> mono (pe p) Y -> mono lo (X ++ p :: Y).
Proof.
  induction X as [|x X IH]; intros lo p Y H1 H2; simpl in *.
  - destruct H1 as [Ha [Hb _]]. split; [assumption|]. split; assumption.
  - destruct H1 as [Ha [Hb Hc]]. split; [assumption|]. split; [assumption|]. apply IH; assumption.
Qed.

Lemma lend_snoc lo X p : mono lo (X ++ [p]) -> lend (X ++ [p]) = pe p.
Proof.
  intros Hm. unfold lend. apply lmax_unique.
  - apply in_map. apply in_or_app. right. left. reflexivity.
  - intros y Hy. apply in_map_iff in Hy. destruct Hy as [q [<- Hq]].
    assert (Hp : In p (X ++ [p])) by (apply in_or_app; right; left; reflexivity).
    destruct (mono_in _ _ _ Hm Hp).
    apply in_app_or in Hq. destruct Hq as [Hq|[->|[]]]; [|lia].
    pose proof (mono_app_last X lo p Hm q Hq). lia.
Qed.

Lemma lstart_mono lo b B : mono lo (b :: B) -> lstart (b :: B) = ps b.
Proof. intros H. exact (lstart_gene 1 b B lo H). Qed.

Lemma asc_app X Y : asc (X ++ Y) = asc X ++ asc Y.
Proof. unfold asc. apply flat_map_app. Qed.

(* the sections, as ascending exon lists on a strand other than -1: each non-empty, without
   overlaps, and starting at or after the end of the one before *)
Fixpoint chain (st e : Z) (Bs : list (list part)) : Prop :=
  match Bs with
  | [] => True
  | B :: r => B <> [] /\ same_strand st B /\ mono e B /\ chain st (lastpe B) r
  end.

Lemma same_strand_app st X Y : same_strand st X -> same_strand st Y -> same_strand st (X ++ Y).
Proof. unfold same_strand. intros H1 H2. apply Forall_app. split; assumption. Qed.

Lemma blo_fwd st : forall Bs acc lo,
  acc <> [] -> mono lo acc -> same_strand st acc -> chain st (lastpe acc) Bs ->
  exists R, blo_go acc Bs = Ok R /\ R <> [] /\ mono lo R /\ same_strand st R /\
            asc R = asc acc ++ flat_map asc Bs.
Proof.
  induction Bs as [|B r IH]; intros acc lo Hne Hm Hst Hch.
  - exists acc. simpl. rewrite app_nil_r. repeat split; assumption.
  - destruct Hch as [HB [HstB [HmB Hch]]].
    destruct (exists_last Hne) as [X [p ->]].
    destruct B as [|b B']; [congruence|].
    unfold lastpe in HmB. rewrite last_opt_snoc in HmB.
    assert (Hp : In p (X ++ [p])) by (apply in_or_app; right; left; reflexivity).
    destruct (mono_in _ _ _ Hm Hp) as [_ Hpp].
    pose proof HmB as HmB0. destruct HmB as [Hb1 [Hb2 Hb3]].
    assert (HstX : same_strand st X).
    { unfold same_strand in *. apply Forall_app in Hst. tauto. }
    destruct (same_strand_cons _ _ _ HstB) as [Hstb HstB'].
    cbn [blo_go]. unfold blo_step.
    rewrite (lstart_mono _ _ _ HmB0), (lend_snoc _ _ _ Hm).
    destruct (ps b =? pe p) eqn:E.
    + rewrite last_opt_snoc, removelast_last. unfold mkFL.
      replace (pe b <? ps p) with false by lia. cbn [bind].
      rewrite (lstrand_same st (X ++ [p])) by (try assumption; destruct X; discriminate).
      set (np := mkPart (ps p) (pe b) st).
      destruct (IH (X ++ np :: B') lo) as [R [HR [HRne [HRm [HRst HRasc]]]]].
      * destruct X; discriminate.
      * apply mono_app; [|exact Hb3].
        apply (mono_change_last X lo p np Hm); simpl; lia.
      * apply same_strand_app; [assumption|]. constructor; [reflexivity|assumption].
      * rewrite lastpe_app by discriminate.
        rewrite (lastpe_same_end np b B') by reflexivity. exact Hch.
      * exists R. split; [exact HR|]. split; [assumption|]. split; [assumption|]. split; [assumption|].
        rewrite HRasc. cbn [flat_map]. rewrite !asc_app.
        change (asc (np :: B')) with (zrange (ps p) (pe b) ++ asc B').
        change (asc [p]) with (zrange (ps p) (pe p) ++ []).
        change (asc (b :: B')) with (zrange (ps b) (pe b) ++ asc B').
        rewrite (zrange_split (ps p) (pe p) (pe b)) by lia.
        replace (ps b) with (pe p) by lia.
        rewrite app_nil_r, <- !app_assoc. reflexivity.
    + cbn [bind].
      destruct (IH ((X ++ [p]) ++ b :: B') lo) as [R [HR [HRne [HRm [HRst HRasc]]]]].
      * destruct X; discriminate.
      * rewrite <- app_assoc. cbn [app]. apply mono_app; assumption.
      * apply same_strand_app; assumption.
      * rewrite lastpe_app by discriminate. exact Hch.
      * exists R. split; [exact HR|]. split; [assumption|]. split; [assumption|]. split; [assumption|].
        rewrite HRasc. rewrite asc_app. cbn [flat_map]. rewrite <- app_assoc. reflexivity.
Qed.

Lemma chain_strands st : forall Bs e, chain st e Bs -> Forall (same_strand st) Bs.
Proof.
  induction Bs as [|B r IH]; intros e H; [constructor|].
  destruct H as [_ [H1 [_ H2]]]. constructor; [assumption|eapply IH; eassumption].
Qed.

Lemma guard_gene_of st T : T <> [] -> mono 0 T -> same_strand st T -> guard_gene (gene_of st T) = true.
Proof.
  intros Hne Hm Hst.
  pose proof (gene_nonempty st T Hne) as Hg. pose proof (same_strand_gene st T Hst) as Hsg.
  pose proof (lstrand_same st _ Hg Hsg) as Hstr.
  destruct (gene_of st T) as [|q r] eqn:Eg; [congruence|].
  unfold guard_gene. apply andb_true_iff. split.
  - apply same_strand_b_spec. inversion Hsg as [|? ? Hq Hr]; subst. rewrite Hq. assumption.
  - apply mono_b_spec. unfold ascending. rewrite Hstr, <- Eg. unfold gene_of.
    destruct (st =? -1); [rewrite rev_involutive|]; assumption.
Qed.

(* forward strand (any strand but -1): [leader; core; tail], each ascending, in ascending order *)
Lemma build_forward st B Bs :
  st <> -1 -> B <> [] -> mono 0 B -> same_strand st B -> chain st (lastpe B) Bs ->
  exists R, build_from_others (B :: Bs) = Ok R /\ guard_gene R = true /\
            idx R = flat_map idx (B :: Bs) /\ llen R = llen B + fold_right (fun l a => llen l + a) 0 Bs.
Proof.
  intros Hst Hne Hm HsB Hch.
  destruct (blo_fwd st Bs B 0 Hne Hm HsB Hch) as [R [HR [HRne [HRm [HRst HRasc]]]]].
  exists R. split; [exact HR|]. split.
  - pose proof (guard_gene_of st R HRne HRm HRst) as G. unfold gene_of in G.
    replace (st =? -1) with false in G by lia. exact G.
  - split.
    + rewrite (idx_fwd st R HRst Hst), HRasc. cbn [flat_map]. rewrite (idx_fwd st B HsB Hst). f_equal.
      pose proof (chain_strands st Bs _ Hch) as HF. clear -HF Hst.
      induction HF as [|x l Hx Hl IH]; [reflexivity|]. cbn [flat_map]. rewrite IH, (idx_fwd st x Hx Hst). reflexivity.
    + destruct (asc_length R (mono_okp _ _ HRm)) as [L1 L2].
      destruct (asc_length B (mono_okp _ _ Hm)) as [L3 L4].
      assert (HL : forall Bs e, chain st e Bs ->
                 length (flat_map asc Bs) = Z.to_nat (fold_right (fun l a => llen l + a) 0 Bs) /\
                 0 <= fold_right (fun l a => llen l + a) 0 Bs).
      { clear. induction Bs as [|x l IH]; intros e H; [split; [reflexivity|simpl; lia]|].
        destruct H as [_ [_ [Hm Hc]]]. destruct (IH _ Hc) as [I1 I2].
        destruct (asc_length x (mono_okp _ _ Hm)) as [A1 A2].
        cbn [flat_map fold_right]. rewrite app_length, I1, A1. lia. }
      destruct (HL Bs _ Hch) as [L5 L6].
      rewrite HRasc, app_length, L3, L5 in L1. lia.
Qed.

(* ---------- reverse strand ---------- *)
Lemma mono_drop X : forall lo Y, mono lo (X ++ Y) -> exists lo', mono lo' Y.
Proof.
  induction X as [|x X IH]; intros lo Y H; [exists lo; exact H|].
  destruct H as [_ [_ H]]. eapply IH; exact H.
Qed.

Lemma mono_app_order X : forall lo Y, mono lo (X ++ Y) ->
  forall x y, In x X -> In y Y -> pe x <= ps y.
Proof.
  induction X as [|a X IH]; intros lo Y H x y Hx Hy; [destruct Hx|].
  destruct H as [_ [_ H]]. destruct Hx as [->|Hx].
  - assert (Hin : In y (X ++ Y)) by (apply in_or_app; right; assumption).
    destruct (mono_in _ _ _ H Hin). assumption.
  - eapply IH; eassumption.
Qed.

(* [leader; core; tail] on strand -1: each section lists its exons in descending order and the
   sections descend; written with ascending lists: section i is [rev Bi], and
   Bk ++ ... ++ B1 ++ A0 is ascending.  Nothing is ever merged: the result is the plain
   concatenation, which is the descending listing of that ascending list *)
Lemma blo_rev : forall Bs A0 lo,
  A0 <> [] -> Forall (fun B => B <> []) Bs -> mono lo (concat (rev Bs) ++ A0) ->
  blo_go (rev A0) (map (@rev part) Bs) = Ok (rev (concat (rev Bs) ++ A0)).
Proof.
  induction Bs as [|B r IH]; intros A0 lo HA HBs Hm; [reflexivity|].
  inversion HBs as [|? ? HB Hr]; subst.
  cbn [rev] in Hm. rewrite concat_app in Hm. cbn [concat] in Hm. rewrite app_nil_r, <- app_assoc in Hm.
  cbn [map blo_go]. unfold blo_step.
  destruct (mono_drop _ _ _ Hm) as [lo' Hm'].
  assert (Hlt : lstart (rev B) < lend (rev A0)).
  { destruct B as [|b B']; [congruence|]. destruct A0 as [|a A0']; [congruence|].
    assert (Hb : In b (b :: B')) by (left; reflexivity).
    assert (Ha : In a (a :: A0')) by (left; reflexivity).
    pose proof (mono_app_order _ _ _ Hm' b a Hb Ha) as Hord.
    assert (In b ((b :: B') ++ a :: A0')) as Hb' by (apply in_or_app; left; assumption).
    assert (In a ((b :: B') ++ a :: A0')) as Ha' by (apply in_or_app; right; assumption).
    destruct (mono_in _ _ _ Hm' Hb'). destruct (mono_in _ _ _ Hm' Ha').
    assert (lstart (rev (b :: B')) <= ps b).
    { unfold lstart. apply lmin_le. apply in_map. apply in_rev in Hb. exact Hb. }
    assert (pe a <= lend (rev (a :: A0'))).
    { unfold lend. apply lmax_ge. apply in_map. apply in_rev in Ha. exact Ha. }
    lia. }
  replace (lstart (rev B) =? lend (rev A0)) with false by lia. cbn [bind].
  rewrite <- rev_app_distr.
  rewrite (IH (B ++ A0) lo); [|destruct B; [congruence|discriminate]|assumption|exact Hm].
  cbn [rev]. rewrite concat_app. cbn [concat]. rewrite app_nil_r, <- app_assoc. reflexivity.
Qed.

Lemma idx_app X Y : idx (X ++ Y) = idx X ++ idx Y.
Proof. unfold idx. apply flat_map_app. Qed.

Lemma build_reverse Bs A0 :
  A0 <> [] -> Forall (fun B => B <> []) Bs -> mono 0 (concat (rev Bs) ++ A0) ->
  same_strand (-1) (concat (rev Bs) ++ A0) ->
  exists R, build_from_others (rev A0 :: map (@rev part) Bs) = Ok R /\
            R = gene_of (-1) (concat (rev Bs) ++ A0) /\ guard_gene R = true /\
            idx R = flat_map idx (rev A0 :: map (@rev part) Bs) /\ llen R = llen (concat (rev Bs) ++ A0).
Proof.
  intros HA HBs Hm Hst. eexists. split; [apply (blo_rev Bs A0 0); assumption|].
  assert (Hne : concat (rev Bs) ++ A0 <> []) by (destruct (concat (rev Bs)); [exact HA|discriminate]).
  split; [reflexivity|]. split; [apply (guard_gene_of (-1)); assumption|]. split.
  - clear. revert A0. induction Bs as [|B r IH]; intros A0.
    + cbn. rewrite app_nil_r. reflexivity.
    + cbn [rev map flat_map]. rewrite concat_app. cbn [concat]. rewrite app_nil_r, <- app_assoc.
      rewrite IH. cbn [flat_map]. rewrite rev_app_distr, idx_app, <- app_assoc. reflexivity.
  - apply llen_rev.
Qed.

(* ================= Prepeptide on a location that holds more codons than its sections ================= *)
(* finding prepeptide_tail_boundary_shifted_by_stop_codon (repaired) and what is left of it,
   prepeptide_last_section_holds_stop_codon *)
Lemma zlist_eqb_refl a : zlist_eqb a a = true.
Proof.
  unfold zlist_eqb. induction a as [|x a IH]; [reflexivity|].
  cbn [list_eqb]. rewrite Z.eqb_refl, IH. reflexivity.
Qed.

Lemma spec_sub_of_ok g s e sub : subloc_ok g s e sub -> spec_sub g s e sub = true.
Proof.
  intros [Hc [Hl [Hi _]]]. unfold spec_sub. rewrite Hc, Hl, Hi, Z.eqb_refl, zlist_eqb_refl. reflexivity.
Qed.

(* one location per residue range, each with everything C09_subloc states for its range *)
Definition sections_ok (g : loc) (ranges : list (Z * Z)) (locs : list loc) : Prop :=
  Forall2 (fun r l => subloc_ok g (fst r) (snd r) l) ranges locs.

Lemma spec_sections_of_ok g ranges locs : sections_ok g ranges locs -> spec_sections g ranges locs = true.
Proof.
  intros H. induction H as [|[s e] l rr lr H1 _ IH]; [reflexivity|].
  cbn [spec_sections]. cbn [fst snd] in H1. rewrite (spec_sub_of_ok _ _ _ _ H1), IH. reflexivity.
Qed.

(* the ranges spelt out *)
Lemma extended_ranges_tail total ll tl slack : 0 < tl ->
  extended_ranges total ll tl slack
  = (if 0 <? ll then [(0, ll)] else []) ++ [(ll, total - tl - slack); (total - tl - slack, total)].
Proof.
  intros Ht. unfold extended_ranges, section_ranges. cbv zeta.
  destruct (0 <? tl) eqn:E; [reflexivity|lia].
Qed.

Lemma extended_ranges_no_tail total ll slack :
  extended_ranges total ll 0 slack = (if 0 <? ll then [(0, ll)] else []) ++ [(ll, total)].
Proof. reflexivity. Qed.

Lemma strict_ranges_tail total ll tl slack : 0 < tl ->
  strict_ranges total ll tl slack
  = (if 0 <? ll then [(0, ll)] else []) ++ [(ll, total - tl - slack); (total - tl - slack, total - slack)].
Proof.
  intros Ht. unfold strict_ranges, section_ranges. cbv zeta.
  destruct (0 <? tl) eqn:E; [|lia].
  replace (total - tl - slack + tl) with (total - slack) by lia. reflexivity.
Qed.

Lemma strict_ranges_no_tail total ll slack :
  strict_ranges total ll 0 slack = (if 0 <? ll then [(0, ll)] else []) ++ [(ll, total - slack)].
Proof.
  unfold strict_ranges, section_ranges. cbv zeta. cbn [Z.ltb Z.compare app].
  replace (total - 0 - slack) with (total - slack) by lia. reflexivity.
Qed.

Lemma ranges_slack_zero total ll tl : 0 <= tl ->
  extended_ranges total ll tl 0 = strict_ranges total ll tl 0.
Proof.
  intros Ht. unfold extended_ranges, strict_ranges. cbv zeta. destruct (0 <? tl) eqn:E.
  - f_equal. lia.
  - assert (tl = 0) by lia. subst tl. f_equal; lia.
Qed.

Lemma prepeptide_slack_ranges total ll tl slack :
  (0 < tl ->
   extended_ranges total ll tl slack
   = (if 0 <? ll then [(0, ll)] else []) ++ [(ll, total - tl - slack); (total - tl - slack, total)] /\
   strict_ranges total ll tl slack
   = (if 0 <? ll then [(0, ll)] else []) ++ [(ll, total - tl - slack); (total - tl - slack, total - slack)]) /\
  extended_ranges total ll 0 slack = (if 0 <? ll then [(0, ll)] else []) ++ [(ll, total)] /\
  strict_ranges total ll 0 slack = (if 0 <? ll then [(0, ll)] else []) ++ [(ll, total - slack)].
Proof.
  split; [intros H; split|split].
  - exact (extended_ranges_tail total ll tl slack H).
  - exact (strict_ranges_tail total ll tl slack H).
  - exact (extended_ranges_no_tail total ll slack).
  - exact (strict_ranges_no_tail total ll slack).
Qed.

Lemma prepeptide_slack_zero g ll tl :
  0 <= tl ->
  prepeptide_locs_s g ll tl 0 = prepeptide_locs_old_s g ll tl 0 /\
  prepeptide_locs g ll tl = prepeptide_locs_old_s g ll tl 0.
Proof. intros H. split; [exact (prepeptide_s_zero g ll tl H)|exact (prepeptide_zero_old g ll tl H)]. Qed.

(* the repaired function: for every slack >= 0 the sections exist and are the sub-locations of the extended ranges -
   every section exact, but the last one running on to the end of the location *)
Lemma prepeptide_s_guard g ll tl slack :
  guard_gene g = true -> 0 <= ll -> 0 <= tl -> 0 <= slack -> ll + tl + slack < llen g / 3 ->
  exists locs, prepeptide_locs_s g ll tl slack = Ok locs /\
    sections_ok g (extended_ranges (llen g / 3) ll tl slack) locs /\
    spec_prepeptide_relaxed_s g ll tl slack (Ok locs) = true.
Proof.
  intros Hg Hl Ht Hs Hlt.
  assert (H : exists locs, prepeptide_locs_s g ll tl slack = Ok locs /\
                           sections_ok g (extended_ranges (llen g / 3) ll tl slack) locs).
  { unfold prepeptide_locs_s, extended_ranges, section_ranges, sections_ok.
    set (total := llen g / 3) in *. cbv zeta.
    replace (ll + (total - ll - tl - slack)) with (total - tl - slack) by lia.
    destruct (0 <? tl) eqn:Etl; destruct (0 <? ll) eqn:Ell.
    - destruct (subloc_guard g 0 ll false false Hg) as [a [Ha Hao]]; [lia|fold total; lia|].
      destruct (subloc_guard g ll (total - tl - slack) false false Hg) as [c [Hc Hco]]; [lia|fold total; lia|].
      destruct (subloc_guard g (total - tl - slack) total false false Hg) as [t [Htl Hto]]; [lia|fold total; lia|].
      rewrite Ha, Hc, Htl. cbn [bind app]. eexists. split; [reflexivity|].
      repeat (apply Forall2_cons; [assumption|]). apply Forall2_nil.
    - destruct (subloc_guard g ll (total - tl - slack) false false Hg) as [c [Hc Hco]]; [lia|fold total; lia|].
      destruct (subloc_guard g (total - tl - slack) total false false Hg) as [t [Htl Hto]]; [lia|fold total; lia|].
      rewrite Hc, Htl. cbn [bind app]. eexists. split; [reflexivity|].
      repeat (apply Forall2_cons; [assumption|]). apply Forall2_nil.
    - destruct (subloc_guard g 0 ll false false Hg) as [a [Ha Hao]]; [lia|fold total; lia|].
      destruct (subloc_guard g ll total false false Hg) as [c [Hc Hco]]; [lia|fold total; lia|].
      rewrite Ha, Hc. cbn [bind app]. eexists. split; [reflexivity|].
      repeat (apply Forall2_cons; [assumption|]). apply Forall2_nil.
    - destruct (subloc_guard g ll total false false Hg) as [c [Hc Hco]]; [lia|fold total; lia|].
      rewrite Hc. cbn [bind app]. eexists. split; [reflexivity|].
      repeat (apply Forall2_cons; [assumption|]). apply Forall2_nil. }
  destruct H as [locs [H1 H2]]. exists locs. split; [assumption|]. split; [assumption|].
  unfold spec_prepeptide_relaxed_s. rewrite (spec_sections_of_ok _ _ _ H2). apply orb_true_r.
Qed.

(* with a tail: leader and core are exact (the core has three bases per residue of the core and ends where the
   tail's first codon starts), the tail starts at its first residue and holds the trailing 3*slack bases as well *)
Lemma prepeptide_s_tail g ll tl slack :
  guard_gene g = true -> 0 <= ll -> 0 < tl -> 0 <= slack -> ll + tl + slack < llen g / 3 ->
  exists lead c t, prepeptide_locs_s g ll tl slack = Ok (lead ++ [c; t]) /\
    sections_ok g (if 0 <? ll then [(0, ll)] else []) lead /\
    subloc_ok g ll (llen g / 3 - tl - slack) c /\
    llen c = 3 * (llen g / 3 - ll - tl - slack) /\
    subloc_ok g (llen g / 3 - tl - slack) (llen g / 3) t /\
    llen t = 3 * tl + 3 * slack.
Proof.
  intros Hg Hl Ht Hs Hlt.
  destruct (prepeptide_s_guard g ll tl slack Hg Hl) as [locs [H1 [H2 _]]]; [lia|assumption|assumption|].
  unfold sections_ok in H2. rewrite extended_ranges_tail in H2 by assumption.
  apply Forall2_app_inv_l in H2. destruct H2 as [lead [rest [Hlead [Hrest ->]]]].
  inversion Hrest as [|r1 c rr1 lr1 Hc Hrest1]; subst.
  inversion Hrest1 as [|r2 t rr2 lr2 Htl Hrest2]; subst.
  inversion Hrest2; subst. cbn [fst snd] in Hc, Htl.
  exists lead, c, t. split; [assumption|]. split; [assumption|]. split; [assumption|].
  split; [destruct Hc as [_ [Hc _]]; lia|]. split; [assumption|].
  destruct Htl as [_ [Htl _]]. lia.
Qed.

(* slack = 0: the strict specification holds (this is C09_prepeptide_partition's case) *)
Lemma prepeptide_s_zero_strict g ll tl :
  guard_gene g = true -> 0 <= ll -> 0 <= tl -> ll + tl < llen g / 3 ->
  exists locs, prepeptide_locs_s g ll tl 0 = Ok locs /\
    sections_ok g (strict_ranges (llen g / 3) ll tl 0) locs /\
    spec_prepeptide_s g ll tl 0 (Ok locs) = true.
Proof.
  intros Hg Hl Ht Hlt.
  destruct (prepeptide_s_guard g ll tl 0 Hg Hl Ht) as [locs [H1 [H2 _]]]; [lia|lia|].
  rewrite ranges_slack_zero in H2 by assumption.
  exists locs. split; [assumption|]. split; [assumption|].
  unfold spec_prepeptide_s. apply spec_sections_of_ok. assumption.
Qed.

(* the strict specification implies the relaxed one *)
Lemma spec_strict_relaxed g ll tl slack out :
  spec_prepeptide_s g ll tl slack out = true -> spec_prepeptide_relaxed_s g ll tl slack out = true.
Proof. intros H. unfold spec_prepeptide_relaxed_s. rewrite H. reflexivity. Qed.

(* ----- refutations: LEAD + CORE + TL (4, 4, 2 residues) on [0:33](+), a location of 11 codons: slack = 1 ----- *)
Definition stop_gene : loc := [mkPart 0 33 1].

(* the code BEFORE the repair: the core [12:27] holds 15 bases for 4 residues (it swallows the tail's first codon),
   the tail [27:33] starts one residue late; not even the relaxed specification holds *)
Lemma prepeptide_old_tail_refuted :
  exists g ll tl a c t, guard_gene g = true /\ 0 <= ll /\ 0 < tl /\ ll + tl + 1 < llen g / 3 /\
    prepeptide_locs_old_s g ll tl 1 = Ok [a; c; t] /\
    llen c = 3 * (llen g / 3 - ll - tl - 1) + 3 /\
    idx t <> sublist (3 * (llen g / 3 - tl - 1)) (3 * (llen g / 3)) (idx g) /\
    spec_prepeptide_relaxed_s g ll tl 1 (Ok [a; c; t]) = false.
Proof.
  exists stop_gene, 4, 2, [mkPart 0 12 1], [mkPart 12 27 1], [mkPart 27 33 1].
  split; [vm_compute; reflexivity|]. split; [lia|]. split; [lia|]. split; [vm_compute; reflexivity|].
  split; [vm_compute; reflexivity|]. split; [vm_compute; reflexivity|].
  split; [vm_compute; discriminate|]. vm_compute. reflexivity.
Qed.

(* the REPAIRED code on the same prepeptide: leader [0:12], core [12:24] exact, tail [24:33] = its two residues
   plus the stop codon - the relaxed specification holds, the strict one does not (what is left of the finding) *)
Lemma prepeptide_last_section_refuted :
  exists g ll tl a c t, guard_gene g = true /\ 0 <= ll /\ 0 < tl /\ ll + tl + 1 < llen g / 3 /\
    prepeptide_locs_s g ll tl 1 = Ok [a; c; t] /\
    llen c = 3 * (llen g / 3 - ll - tl - 1) /\
    llen t = 3 * tl + 3 /\
    spec_prepeptide_s g ll tl 1 (Ok [a; c; t]) = false /\
    spec_prepeptide_relaxed_s g ll tl 1 (Ok [a; c; t]) = true.
Proof.
  exists stop_gene, 4, 2, [mkPart 0 12 1], [mkPart 12 24 1], [mkPart 24 33 1].
  split; [vm_compute; reflexivity|]. split; [lia|]. split; [lia|]. split; [vm_compute; reflexivity|].
  split; [vm_compute; reflexivity|]. split; [vm_compute; reflexivity|]. split; [vm_compute; reflexivity|].
  split; vm_compute; reflexivity.
Qed.

(* without a tail the core is the last section: LEAD + CORETL on [0:33] gives the core [12:33], 21 bases for 6
   residues (before and after the repair) *)
Lemma prepeptide_core_stop_refuted :
  exists g ll a c, guard_gene g = true /\ 0 <= ll /\ ll + 0 + 1 < llen g / 3 /\
    prepeptide_locs_s g ll 0 1 = Ok [a; c] /\ prepeptide_locs_old_s g ll 0 1 = Ok [a; c] /\
    llen c = 3 * (llen g / 3 - ll - 0 - 1) + 3 /\
    spec_prepeptide_s g ll 0 1 (Ok [a; c]) = false /\
    spec_prepeptide_relaxed_s g ll 0 1 (Ok [a; c]) = true.
Proof.
  exists stop_gene, 4, [mkPart 0 12 1], [mkPart 12 33 1].
  split; [vm_compute; reflexivity|]. split; [lia|]. split; [vm_compute; reflexivity|].
  split; [vm_compute; reflexivity|]. split; [vm_compute; reflexivity|]. split; [vm_compute; reflexivity|].
  split; vm_compute; reflexivity.
Qed.
