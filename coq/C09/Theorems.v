(* C09 - property theorems: annotations placed inside a gene by protein coordinates cover the
   nucleotides that encode them.  Vocabulary (Model.v): a location is the list of its exons in
   the listed (= transcription) order; [idx l] is the list of record coordinates that
   location.extract reads, in reading order; [extract sq l] the bases read from the sequence [sq]
   (reverse-complemented per exon on strand -1); [translate cod] cuts into codons and applies an
   arbitrary codon table; [sublist u v x] = x[u:v].  [guard_gene g]: one common strand, exons
   non-empty, non-negative, not overlapping, and listed in coordinate order for the strand - i.e.
   the gene does not span the origin. *)
From ASV.C09 Require Import Model Proofs.

(* For every gene that does not span the origin - either strand, any number of exons, any intron
   sizes, exon borders anywhere incl. inside a codon, surplus bases - and every residue range
   0 <= s < e <= len/3 (whatever the partial-end flags): the sub-location exists, lies inside the
   gene, has three bases per residue, reads exactly the coordinates 3s..3e of the gene's reading
   order; hence for EVERY record sequence it extracts to that stretch of the gene's extraction and
   for EVERY codon table it translates to residues [s,e) of the gene's translation. *)
Theorem C09_subloc : forall g s e end_after start_before,
  guard_gene g = true -> 0 <= s < e -> e <= llen g / 3 ->
  exists sub, get_sub g end_after start_before s e = Ok sub /\
    contains g sub = true /\
    llen sub = 3 * (e - s) /\
    idx sub = sublist (3 * s) (3 * e) (idx g) /\
    (forall sq, extract sq sub = sublist (3 * s) (3 * e) (extract sq g)) /\
    (forall sq cod, translate cod (extract sq sub) = sublist s e (translate cod (extract sq g))).
Proof. exact subloc_guard. Qed.
Print Assumptions C09_subloc.

(* the same, with the guard spelt out as propositions over the exons in ascending order *)
Theorem C09_subloc_exons : forall st A s e end_after start_before,
  A <> [] -> mono 0 A -> same_strand st A -> 0 <= s < e -> e <= llen A / 3 ->
  exists sub, get_sub (gene_of st A) end_after start_before s e = Ok sub /\
              subloc_ok (gene_of st A) s e sub.
Proof. exact subloc_asc. Qed.
Print Assumptions C09_subloc_exons.

(* non-vacuity: a reverse-strand gene of three exons with introns, one exon border inside a codon,
   a range that starts exactly on an exon border *)
Example C09_subloc_nonvacuous :
  let g := [mkPart 40 52 (-1); mkPart 20 31 (-1); mkPart 3 10 (-1)] in
  guard_gene g = true /\ 0 <= 4 < 9 /\ 9 <= llen g / 3 /\
  get_sub g false false 4 9 = Ok [mkPart 20 31 (-1); mkPart 6 10 (-1)].
Proof. split; [vm_compute; reflexivity|]. split; [lia|]. split; [vm_compute; discriminate|]. vm_compute. reflexivity. Qed.

(* FALSE for a gene that spans the origin (finding origin_spanning_gene_sublocation): residues 0-1
   of join{[90:102](+), [0:21](+)} are placed at [0:6] - inside the gene and of the right length,
   but not the nucleotides that encode them ([90:96]) *)
Theorem C09_subloc_origin_refuted :
  exists g s e sub, spanning_gene g = true /\ 0 <= s < e /\ e <= llen g / 3 /\
    get_sub g false false s e = Ok sub /\
    idx sub <> sublist (3 * s) (3 * e) (idx g) /\ contains g sub = true /\ llen sub = 3 * (e - s).
Proof. exact subloc_origin_refuted. Qed.
Print Assumptions C09_subloc_origin_refuted.

(* leader, core and tail of a prepeptide on a gene that does not span the origin: the locations
   exist, lie inside the gene, have three bases per residue of the stored peptide, and read
   consecutive stretches that together are exactly the first 3*(len/3) coordinates of the gene
   (consecutive, disjoint, nothing lost); empty leader / tail produce no location *)
Theorem C09_prepeptide_partition : forall g leader_len tail_len,
  guard_gene g = true -> 0 <= leader_len -> 0 <= tail_len -> leader_len + tail_len < llen g / 3 ->
  exists locs, prepeptide_locs g leader_len tail_len = Ok locs /\
    flat_map idx locs = sublist 0 (3 * (llen g / 3)) (idx g) /\
    Forall (fun l => contains g l = true) locs /\
    map llen locs = (if 0 <? leader_len then [3 * leader_len] else [])
                    ++ [3 * (llen g / 3 - leader_len - tail_len)]
                    ++ (if 0 <? tail_len then [3 * tail_len] else []).
Proof. exact prepeptide_guard. Qed.
Print Assumptions C09_prepeptide_partition.

Example C09_prepeptide_nonvacuous :
  let g := [mkPart 0 7 1; mkPart 10 21 1] in
  guard_gene g = true /\ 1 + 2 < llen g / 3 /\
  prepeptide_locs g 1 2 = Ok [[mkPart 0 3 1]; [mkPart 3 7 1; mkPart 10 15 1]; [mkPart 15 21 1]].
Proof. split; [vm_compute; reflexivity|]. split; [vm_compute; reflexivity|]. vm_compute. reflexivity. Qed.

(* ---------- a prepeptide whose location holds more codons than its sections (the stop codon) ----------
   Vocabulary.  The RiPP modules build Prepeptide(cds.location, ..., core, leader=..., tail=...) with
   leader + core + tail = the gene's translation, while the location as a rule ends with the stop codon.
   [slack] = len(location) // 3 - len(leader) - len(core) - len(tail) (1 in that case; 0 when the sections fill the
   location: the case of C09_prepeptide_partition).  [prepeptide_locs_s g ll tl slack] is Prepeptide.to_biopython AS
   REPAIRED (boundaries counted from the start: core = [ll, ll + len(core)) if there is a tail, the last section runs
   to the end of the location); [prepeptide_locs_old_s] the code BEFORE the repair (tail counted back from the end,
   len(core) never looked at); [prepeptide_locs g ll tl] is by definition [prepeptide_locs_s g ll tl 0].
   Model.v: [strict_ranges total ll tl slack] = the residue ranges the property demands, leader [0,ll) if ll > 0,
   core [ll, total-tl-slack), tail [total-tl-slack, total-slack) if tl > 0; [extended_ranges] = the same with the LAST
   section running on to [total] (it also holds the 3*slack trailing bases); [spec_prepeptide_s] (strict) /
   [spec_prepeptide_relaxed_s] (strict or extended) are the decidable forms evaluated on every implementation output.
   Proofs.v: [sections_ok g ranges locs] - one location per range, each with everything C09_subloc states for its
   range ([subloc_ok]: inside the gene, 3 bases per residue, reads exactly that stretch of the gene's reading order,
   extracts / translates to that stretch for every sequence and codon table). *)

(* (a) sections that fill the location: counting from the start (repaired) and counting back from the end (before)
   are the same function, so C09_prepeptide_partition speaks about both *)
Theorem C09_prepeptide_slack_zero : forall g leader_len tail_len,
  0 <= tail_len ->
  prepeptide_locs_s g leader_len tail_len 0 = prepeptide_locs_old_s g leader_len tail_len 0 /\
  prepeptide_locs g leader_len tail_len = prepeptide_locs_old_s g leader_len tail_len 0.
Proof. exact prepeptide_slack_zero. Qed.
Print Assumptions C09_prepeptide_slack_zero.

(* ... and with slack 0 every section satisfies the strict specification *)
Theorem C09_prepeptide_slack_zero_strict : forall g leader_len tail_len,
  guard_gene g = true -> 0 <= leader_len -> 0 <= tail_len -> leader_len + tail_len < llen g / 3 ->
  exists locs, prepeptide_locs_s g leader_len tail_len 0 = Ok locs /\
    sections_ok g (strict_ranges (llen g / 3) leader_len tail_len 0) locs /\
    spec_prepeptide_s g leader_len tail_len 0 (Ok locs) = true.
Proof. exact prepeptide_s_zero_strict. Qed.
Print Assumptions C09_prepeptide_slack_zero_strict.

(* (b) the repaired function, any slack >= 0, a core of at least one residue, gene not spanning the origin: the
   sections exist and are exactly the sub-locations of the extended ranges - every section starts at its first
   residue, every section but the last has three bases per residue and reads exactly its stretch of the gene, the
   last one runs on to the end of the location's codons; the relaxed specification holds *)
Theorem C09_prepeptide_slack : forall g leader_len tail_len slack,
  guard_gene g = true -> 0 <= leader_len -> 0 <= tail_len -> 0 <= slack ->
  leader_len + tail_len + slack < llen g / 3 ->
  exists locs, prepeptide_locs_s g leader_len tail_len slack = Ok locs /\
    sections_ok g (extended_ranges (llen g / 3) leader_len tail_len slack) locs /\
    spec_prepeptide_relaxed_s g leader_len tail_len slack (Ok locs) = true.
Proof. exact prepeptide_s_guard. Qed.
Print Assumptions C09_prepeptide_slack.

(* the ranges of that statement spelt out *)
Theorem C09_prepeptide_slack_ranges : forall total leader_len tail_len slack,
  (0 < tail_len ->
   extended_ranges total leader_len tail_len slack
   = (if 0 <? leader_len then [(0, leader_len)] else [])
     ++ [(leader_len, total - tail_len - slack); (total - tail_len - slack, total)] /\
   strict_ranges total leader_len tail_len slack
   = (if 0 <? leader_len then [(0, leader_len)] else [])
     ++ [(leader_len, total - tail_len - slack); (total - tail_len - slack, total - slack)]) /\
  extended_ranges total leader_len 0 slack
  = (if 0 <? leader_len then [(0, leader_len)] else []) ++ [(leader_len, total)] /\
  strict_ranges total leader_len 0 slack
  = (if 0 <? leader_len then [(0, leader_len)] else []) ++ [(leader_len, total - slack)].
Proof. exact prepeptide_slack_ranges. Qed.
Print Assumptions C09_prepeptide_slack_ranges.

(* with a tail: leader and core are EXACT - the core has three bases per residue of the core and ends where the
   tail's first codon starts (what the repair is about) -, the tail starts at its first residue and holds its
   3*tail_len bases plus the 3*slack trailing ones *)
Theorem C09_prepeptide_slack_tail : forall g leader_len tail_len slack,
  guard_gene g = true -> 0 <= leader_len -> 0 < tail_len -> 0 <= slack ->
  leader_len + tail_len + slack < llen g / 3 ->
  exists lead c t, prepeptide_locs_s g leader_len tail_len slack = Ok (lead ++ [c; t]) /\
    sections_ok g (if 0 <? leader_len then [(0, leader_len)] else []) lead /\
    subloc_ok g leader_len (llen g / 3 - tail_len - slack) c /\
    llen c = 3 * (llen g / 3 - leader_len - tail_len - slack) /\
    subloc_ok g (llen g / 3 - tail_len - slack) (llen g / 3) t /\
    llen t = 3 * tail_len + 3 * slack.
Proof. exact prepeptide_s_tail. Qed.
Print Assumptions C09_prepeptide_slack_tail.

(* non-vacuity: LEAD + CORE + TL on [0:33](+) (11 codons, slack 1), and a reverse-strand gene of two exons with
   the core | tail boundary on the exon border, slack 1, no leader *)
Example C09_prepeptide_slack_nonvacuous :
  let g := [mkPart 0 33 1] in
  let h := [mkPart 40 52 (-1); mkPart 20 32 (-1)] in
  guard_gene g = true /\ 4 + 2 + 1 < llen g / 3 /\
  prepeptide_locs_s g 4 2 1 = Ok [[mkPart 0 12 1]; [mkPart 12 24 1]; [mkPart 24 33 1]] /\
  guard_gene h = true /\ 0 + 3 + 1 < llen h / 3 /\
  prepeptide_locs_s h 0 3 1 = Ok [[mkPart 40 52 (-1)]; [mkPart 20 32 (-1)]].
Proof. repeat split; vm_compute; reflexivity. Qed.

(* (c) FALSE for the code BEFORE the repair (finding prepeptide_tail_boundary_shifted_by_stop_codon, fixed): with
   slack 1 and a tail not even the relaxed specification holds - LEAD + CORE + TL on [0:33](+) gave the core [12:27],
   15 bases for 4 residues (it swallowed the tail's first codon), and the tail [27:33], starting one residue late *)
Theorem C09_prepeptide_old_tail_refuted :
  exists g ll tl a c t, guard_gene g = true /\ 0 <= ll /\ 0 < tl /\ ll + tl + 1 < llen g / 3 /\
    prepeptide_locs_old_s g ll tl 1 = Ok [a; c; t] /\
    llen c = 3 * (llen g / 3 - ll - tl - 1) + 3 /\
    idx t <> sublist (3 * (llen g / 3 - tl - 1)) (3 * (llen g / 3)) (idx g) /\
    spec_prepeptide_relaxed_s g ll tl 1 (Ok [a; c; t]) = false.
Proof. exact prepeptide_old_tail_refuted. Qed.
Print Assumptions C09_prepeptide_old_tail_refuted.

(* STILL FALSE for the repaired code (finding prepeptide_last_section_holds_stop_codon, what is left): the STRICT
   specification with slack 1 - the tail [24:33] of the same prepeptide is its two residues plus the stop codon
   (leader and core are exact, the relaxed specification holds) *)
Theorem C09_prepeptide_last_section_refuted :
  exists g ll tl a c t, guard_gene g = true /\ 0 <= ll /\ 0 < tl /\ ll + tl + 1 < llen g / 3 /\
    prepeptide_locs_s g ll tl 1 = Ok [a; c; t] /\
    llen c = 3 * (llen g / 3 - ll - tl - 1) /\
    llen t = 3 * tl + 3 /\
    spec_prepeptide_s g ll tl 1 (Ok [a; c; t]) = false /\
    spec_prepeptide_relaxed_s g ll tl 1 (Ok [a; c; t]) = true.
Proof. exact prepeptide_last_section_refuted. Qed.
Print Assumptions C09_prepeptide_last_section_refuted.

(* ... and without a tail the core is the last section: LEAD + CORETL on [0:33](+) has the core [12:33], 21 bases
   for 6 residues, before and after the repair *)
Theorem C09_prepeptide_core_stop_refuted :
  exists g ll a c, guard_gene g = true /\ 0 <= ll /\ ll + 0 + 1 < llen g / 3 /\
    prepeptide_locs_s g ll 0 1 = Ok [a; c] /\ prepeptide_locs_old_s g ll 0 1 = Ok [a; c] /\
    llen c = 3 * (llen g / 3 - ll - 0 - 1) + 3 /\
    spec_prepeptide_s g ll 0 1 (Ok [a; c]) = false /\
    spec_prepeptide_relaxed_s g ll 0 1 (Ok [a; c]) = true.
Proof. exact prepeptide_core_stop_refuted. Qed.
Print Assumptions C09_prepeptide_core_stop_refuted.

(* the marker of the three bases at offset i (any offset, not only a codon's) of a single-exon gene
   (either strand) lies inside the gene, has three bases and extracts, for every sequence, to bases
   i..i+3 of the gene's extraction *)
Theorem C09_tta : forall p i,
  pst p = 1 \/ pst p = -1 -> 0 <= ps p -> 0 <= i -> i + 3 <= pe p - ps p ->
  exists m, tta_marker [p] i = Ok m /\ contains [p] m = true /\ llen m = 3 /\
            idx m = sublist i (i + 3) (idx [p]) /\
            forall sq, extract sq m = sublist i (i + 3) (extract sq [p]).
Proof. exact tta_single. Qed.
Print Assumptions C09_tta.

Example C09_tta_nonvacuous :
  tta_marker [mkPart 10 31 (-1)] 6 = Ok [mkPart 22 25 (-1)].
Proof. vm_compute. reflexivity. Qed.

(* A gene of several exons (repaired: finding tta_multi_exon, the offset is now mapped through the
   exons by convert_protein_position_to_dna): for every gene of strand 1/-1 that does not span the
   origin and every codon r whose three bases are adjacent in the record - they are the coordinates
   [x, x+3) read in the gene's direction, i.e. the codon lies inside one exon or runs over the border
   of two exons that adjoin without an intron - the marker of offset 3r is exactly [x, x+3): it
   reads the coordinates 3r..3r+3 of the gene's reading order and extracts, for every sequence, to
   bases 3r..3r+3 of the gene's extraction *)
Theorem C09_tta_multi_exon : forall g r x,
  guard_gene g = true -> lstrand g = 1 \/ lstrand g = -1 -> 0 <= r -> r + 1 <= llen g / 3 ->
  sublist (3 * r) (3 * r + 3) (idx g) = idx [mkPart x (x + 3) (lstrand g)] ->
  tta_marker g (3 * r) = Ok [mkPart x (x + 3) (lstrand g)] /\
  (forall sq, extract sq [mkPart x (x + 3) (lstrand g)] = sublist (3 * r) (3 * r + 3) (extract sq g)).
Proof. exact tta_guard. Qed.
Print Assumptions C09_tta_multi_exon.

(* non-vacuity: the former witness of the finding (the codon at spliced offset 6 of
   join{[0:4](+), [10:15](+)} was marked at [6:9], in the intron) and a reverse-strand gene of
   three exons *)
Example C09_tta_multi_exon_nonvacuous :
  let g := [mkPart 0 4 1; mkPart 10 15 1] in
  let h := [mkPart 40 52 (-1); mkPart 20 31 (-1); mkPart 3 10 (-1)] in
  guard_gene g = true /\ sublist 6 9 (idx g) = idx [mkPart 12 15 1] /\
  tta_marker g 6 = Ok [mkPart 12 15 1] /\
  guard_gene h = true /\ sublist 12 15 (idx h) = idx [mkPart 28 31 (-1)] /\
  tta_marker h 12 = Ok [mkPart 28 31 (-1)].
Proof. repeat split; vm_compute; reflexivity. Qed.

(* STILL FALSE (finding tta_codon_split_by_intron, what is left of tta_multi_exon): a codon that an
   intron splits - offset 3 of join{[0:4](+), [10:15](+)} is the coordinates 3, 10, 11 - cannot be
   covered by a marker of one part; the marker [3:6] starts at the codon's first base and runs into
   the intron *)
Theorem C09_tta_split_codon_refuted :
  exists g r m, guard_gene g = true /\ 0 <= r /\ r + 1 <= llen g / 3 /\ codon_split g (3 * r) = true /\
    tta_marker g (3 * r) = Ok m /\ idx m <> sublist (3 * r) (3 * r + 3) (idx g).
Proof. exact tta_split_codon_refuted. Qed.
Print Assumptions C09_tta_split_codon_refuted.

(* codon_start: whenever from_biopython's adjustment of a gene that does not span the origin
   succeeds, to_biopython's undo restores exactly the original location *)
Theorem C09_codon_start_restored : forall g codon_start g',
  guard_gene g = true -> frameshift g codon_start false = Ok g' ->
  frameshift g' codon_start true = Ok g.
Proof. exact codon_start_restored. Qed.
Print Assumptions C09_codon_start_restored.

Example C09_codon_start_nonvacuous :
  let g := [mkPart 40 52 (-1); mkPart 20 31 (-1)] in
  guard_gene g = true /\ frameshift g 3 false = Ok [mkPart 40 50 (-1); mkPart 20 31 (-1)].
Proof. split; vm_compute; reflexivity. Qed.

(* A gene that spans the origin (repaired: finding origin_spanning_codon_start; the assertion about
   the first listed exon is only made for locations that do not cross the origin): on strand 1/-1,
   with the offset not longer than the first listed exon, the adjustment succeeds, the adjusted
   location lies inside the annotated one and reads it from base codon_start-1 on (coordinates and,
   for every sequence, bases), has codon_start-1 bases less, and to_biopython's undo restores the
   annotated location.  [first_exon_len] is defined below (length of the first LISTED exon). *)
Theorem C09_codon_start_origin : forall g cs,
  spanning_gene g = true -> lstrand g = 1 \/ lstrand g = -1 ->
  1 <= cs <= 3 -> cs - 1 <= first_exon_len g ->
  exists g', frameshift g cs false = Ok g' /\
    idx g' = skipn (Z.to_nat (cs - 1)) (idx g) /\
    llen g' = llen g - (cs - 1) /\
    contains g g' = true /\
    (forall sq, extract sq g' = skipn (Z.to_nat (cs - 1)) (extract sq g)) /\
    frameshift g' cs true = Ok g.
Proof. exact codon_start_origin. Qed.
Print Assumptions C09_codon_start_origin.

(* non-vacuity: the former witnesses of the finding (AssertionError before the repair) *)
Example C09_codon_start_origin_nonvacuous :
  let g := [mkPart 90 102 1; mkPart 0 21 1] in
  let h := [mkPart 0 21 (-1); mkPart 90 102 (-1)] in
  spanning_gene g = true /\ frameshift g 2 false = Ok [mkPart 91 102 1; mkPart 0 21 1] /\
  spanning_gene h = true /\ frameshift h 3 false = Ok [mkPart 0 19 (-1); mkPart 90 102 (-1)].
Proof. repeat split; vm_compute; reflexivity. Qed.

(* ---------- the codon_start path and the loading path of a CDS ---------- *)
(* [first_exon_len g] = length of the first LISTED exon (the 5' one); [shorten]ed by codon_start-1
   bases it stays non-empty iff codon_start-1 < first_exon_len g.

   The location adjusted for /codon_start = cs (Feature.from_biopython, CDSFeature.from_biopython)
   of a gene that does not span the origin exists, lies inside the annotated location, and reads it
   from base cs-1 on - coordinates (idx) and, for every sequence, bases (extract); it has cs-1 bases
   less, and (if the first exon is longer than the offset) again does not span the origin *)
Theorem C09_codon_start_reads : forall g cs,
  guard_gene g = true -> 1 <= cs <= 3 -> cs - 1 <= first_exon_len g ->
  exists g', frameshift g cs false = Ok g' /\
    idx g' = skipn (Z.to_nat (cs - 1)) (idx g) /\
    llen g' = llen g - (cs - 1) /\
    contains g g' = true /\
    (forall sq, extract sq g' = skipn (Z.to_nat (cs - 1)) (extract sq g)) /\
    (cs - 1 < first_exon_len g -> guard_gene g' = true).
Proof. exact codon_start_reads. Qed.
Print Assumptions C09_codon_start_reads.

(* DESIGN C09_codon_start: with a codon_start offset the sub-location is computed on the adjusted
   location g': for every residue range of g' it exists, lies inside the ANNOTATED location, has
   three bases per residue, reads exactly the bases cs-1+3s .. cs-1+3e of the annotated location,
   translates (any codon table, any sequence) to residues [s,e) of the translation of g' - and
   to_biopython's undo restores the annotated location *)
Theorem C09_codon_start : forall g cs s e end_after start_before,
  guard_gene g = true -> 1 <= cs <= 3 -> cs - 1 < first_exon_len g ->
  0 <= s < e -> e <= (llen g - (cs - 1)) / 3 ->
  exists g' sub, frameshift g cs false = Ok g' /\ get_sub g' end_after start_before s e = Ok sub /\
    idx g' = skipn (Z.to_nat (cs - 1)) (idx g) /\
    contains g sub = true /\ llen sub = 3 * (e - s) /\
    idx sub = sublist (cs - 1 + 3 * s) (cs - 1 + 3 * e) (idx g) /\
    (forall sq, extract sq sub = sublist (cs - 1 + 3 * s) (cs - 1 + 3 * e) (extract sq g)) /\
    (forall sq cod, translate cod (extract sq sub) = sublist s e (translate cod (extract sq g'))) /\
    frameshift g' cs true = Ok g.
Proof. exact codon_start_subloc. Qed.
Print Assumptions C09_codon_start.

Example C09_codon_start_path_nonvacuous :
  let g := [mkPart 40 52 (-1); mkPart 20 31 (-1)] in
  guard_gene g = true /\ 3 - 1 < first_exon_len g /\ 4 <= (llen g - (3 - 1)) / 3 /\
  frameshift g 3 false = Ok [mkPart 40 50 (-1); mkPart 20 31 (-1)] /\
  get_sub [mkPart 40 50 (-1); mkPart 20 31 (-1)] false false 1 4 = Ok [mkPart 40 47 (-1); mkPart 29 31 (-1)].
Proof.
  split; [vm_compute; reflexivity|]. split; [vm_compute; reflexivity|]. split; [vm_compute; discriminate|].
  split; vm_compute; reflexivity.
Qed.

(* The loading path CDSFeature.from_biopython (as called by Record.from_biopython) for a CDS with
   /codon_start = cs on a gene of strand 1/-1 that does not span the origin, lies inside the record
   and keeps at least one codon: the CDS is built; its location is the annotated one adjusted ONCE
   (frameshift l cs false); its stored translation is generated from exactly that location
   (aa_translation ... g, first residue forced to M); _original_codon_start = cs-1; writing it out
   gives back the annotated location and the qualifier; with a stop-free frame the stored residues
   are the codon-by-codon translation of the gene's location *)
Theorem C09_cds_load : forall tbl sq n l cs,
  guard_gene l = true -> lstrand l = 1 \/ lstrand l = -1 -> 1 <= cs <= 3 ->
  cs - 1 < first_exon_len l -> lend l <= n -> 3 <= llen l - (cs - 1) ->
  exists g t0, frameshift l cs false = Ok g /\
    aa_translation tbl sq n g = Ok t0 /\ t0 <> [] /\
    cds_from_biopython tbl sq n l cs = Ok (g, mfix t0, cs - 1) /\
    cds_to_biopython g (cs - 1) = Ok (l, cs) /\
    (~ In AA_STOP (translate (codon_of tbl) (extract sq g)) ->
     t0 = map replace_invalid (translate (codon_of tbl) (extract sq g))).
Proof. exact cds_load. Qed.
Print Assumptions C09_cds_load.

(* end to end on a loaded CDS (stop-free frame; residue 0 is stored as M whatever its codon, so
   ranges start at residue 1): the sub-location of residues [s,e) exists, lies inside the ANNOTATED
   location, has three bases per residue, reads bases cs-1+3s .. cs-1+3e of it, and extracting and
   translating it gives exactly residues [s,e) of the STORED translation *)
Theorem C09_cds_load_subloc_partial : forall tbl sq n l cs g t ocs s e,
  guard_gene l = true -> lstrand l = 1 \/ lstrand l = -1 -> 1 <= cs <= 3 ->
  cs - 1 < first_exon_len l -> lend l <= n -> 3 <= llen l - (cs - 1) ->
  cds_from_biopython tbl sq n l cs = Ok (g, t, ocs) ->
  ~ In AA_STOP (translate (codon_of tbl) (extract sq g)) ->
  1 <= s < e -> e <= llen g / 3 ->
  exists sub, get_sub g false false s e = Ok sub /\
    contains l sub = true /\ llen sub = 3 * (e - s) /\
    idx sub = sublist (cs - 1 + 3 * s) (cs - 1 + 3 * e) (idx l) /\
    map replace_invalid (translate (codon_of tbl) (extract sq sub)) = sublist s e t.
Proof. exact cds_load_subloc. Qed.
Print Assumptions C09_cds_load_subloc_partial.

(* non-vacuity: a forward two-exon gene split inside a codon, codon_start 2, a table without stop
   codons (every codon 'A' = 65), on a record of 60 bases *)
Example C09_cds_load_nonvacuous :
  let l := [mkPart 3 10 1; mkPart 15 30 1] in
  let tbl := repeat 65 64 in
  guard_gene l = true /\ lstrand l = 1 /\ 2 - 1 < first_exon_len l /\ lend l <= 60 /\ 3 <= llen l - (2 - 1) /\
  cds_from_biopython tbl (fun _ => 0) 60 l 2
    = Ok ([mkPart 4 10 1; mkPart 15 30 1], [77; 65; 65; 65; 65; 65; 65], 1) /\
  ~ In AA_STOP (translate (codon_of tbl) (extract (fun _ => 0) [mkPart 4 10 1; mkPart 15 30 1])) /\
  get_sub [mkPart 4 10 1; mkPart 15 30 1] false false 1 3 = Ok [mkPart 7 10 1; mkPart 15 18 1].
Proof.
  split; [vm_compute; reflexivity|]. split; [vm_compute; reflexivity|]. split; [vm_compute; reflexivity|].
  split; [vm_compute; discriminate|]. split; [vm_compute; discriminate|]. split; [vm_compute; reflexivity|].
  split; [|vm_compute; reflexivity].
  vm_compute. intros H. repeat (destruct H as [H|H]; [discriminate H|]). exact H.
Qed.

(* FALSE for a gene whose exons overlap by 1-2 bases (programmed frameshift; finding
   overlapping_exons_sublocation): residue 3 of join{[32:43](+), [42:45](+)} is placed at [41:43] -
   two bases, not the three that encode it ([41:43] + [42:43]) *)
Theorem C09_subloc_overlap_refuted :
  exists g s e sub, slippage_gene g = true /\ 0 <= s < e /\ e <= llen g / 3 /\
    get_sub g false false s e = Ok sub /\ llen sub <> 3 * (e - s) /\
    idx sub <> sublist (3 * s) (3 * e) (idx g).
Proof. exact subloc_overlap_refuted. Qed.
Print Assumptions C09_subloc_overlap_refuted.

(* ---------- build_location_from_others: what Prepeptide.from_biopython rebuilds ---------- *)
(* Vocabulary (Proofs.v): [chain st e Bs] - every section in Bs is a non-empty list of exons of
   strand st in ascending order without overlaps (mono), the first starting at or after e, each
   next one at or after the end of the last exon of the one before ([lastpe]).

   Strand 1 (any strand but -1): sections B :: Bs handed over in ascending (= transcription) order,
   adjoining or apart, boundaries inside an exon or on an exon border: build_location_from_others
   succeeds; the result is again a gene that does not span the origin (so C09_subloc and
   C09_prepeptide_partition apply to it), reads exactly the sections' coordinates one after the
   other (nothing lost, doubled or reordered by merging the shared boundaries), and has their total
   length *)
Theorem C09_build_from_others_forward : forall st B Bs,
  st <> -1 -> B <> [] -> mono 0 B -> same_strand st B -> chain st (lastpe B) Bs ->
  exists R, build_from_others (B :: Bs) = Ok R /\ guard_gene R = true /\
            idx R = flat_map idx (B :: Bs) /\
            llen R = llen B + fold_right (fun l a => llen l + a) 0 Bs.
Proof. exact build_forward. Qed.
Print Assumptions C09_build_from_others_forward.

(* Strand -1: the sections in transcription order are [rev A0; rev B1; ...; rev Bk] (each lists
   its exons downwards, each section lies below the one before: Bk ++ ... ++ B1 ++ A0 is ascending).
   Nothing is ever merged (loc.start == location.end never holds): the result is the plain
   concatenation = the downward listing of Bk ++ ... ++ A0, a gene that does not span the origin,
   reading exactly the sections' coordinates in order.  (A single-exon reverse gene therefore comes
   back as a join of its adjoining sections, with the same bases in the same order.) *)
Theorem C09_build_from_others_reverse : forall Bs A0,
  A0 <> [] -> Forall (fun B => B <> []) Bs -> mono 0 (concat (rev Bs) ++ A0) ->
  same_strand (-1) (concat (rev Bs) ++ A0) ->
  exists R, build_from_others (rev A0 :: map (@rev part) Bs) = Ok R /\
            R = gene_of (-1) (concat (rev Bs) ++ A0) /\ guard_gene R = true /\
            idx R = flat_map idx (rev A0 :: map (@rev part) Bs) /\
            llen R = llen (concat (rev Bs) ++ A0).
Proof. exact build_reverse. Qed.
Print Assumptions C09_build_from_others_reverse.

(* non-vacuity, on sections that the modelled sub-location function really produces: a forward
   three-exon gene, leader | core inside the first exon, core | tail on the border of the second
   and third exon; the sections meet the hypotheses and the re-read location is the gene *)
Example C09_build_forward_nonvacuous :
  let g := [mkPart 3 12 1; mkPart 20 26 1; mkPart 30 36 1] in
  prepeptide_locs g 2 2 = Ok [[mkPart 3 9 1]; [mkPart 9 12 1; mkPart 20 26 1]; [mkPart 30 36 1]] /\
  mono 0 [mkPart 3 9 1] /\ same_strand 1 [mkPart 3 9 1] /\
  chain 1 (lastpe [mkPart 3 9 1]) [[mkPart 9 12 1; mkPart 20 26 1]; [mkPart 30 36 1]] /\
  prepeptide_reread g 2 2 = Ok g.
Proof.
  split; [vm_compute; reflexivity|]. split; [simpl; lia|]. split; [repeat constructor|].
  split; [|vm_compute; reflexivity].
  simpl. repeat split; try discriminate; try lia; repeat constructor.
Qed.

(* the same on strand -1, two exons, the core spanning the intron: the sections are the downward
   listings of ascending lists that lie below one another, and the re-read location reads the
   gene's bases in order (here join{[165:195], [150:165], [60:75], [30:60]}: the gene's exons split
   at the section boundaries) *)
Example C09_build_reverse_nonvacuous :
  let g := [mkPart 150 195 (-1); mkPart 30 75 (-1)] in
  let A0 := [mkPart 165 195 (-1)] in
  let B1 := [mkPart 60 75 (-1); mkPart 150 165 (-1)] in
  let B2 := [mkPart 30 60 (-1)] in
  prepeptide_locs g 10 10 = Ok [rev A0; rev B1; rev B2] /\
  mono 0 (concat (rev [B1; B2]) ++ A0) /\ same_strand (-1) (concat (rev [B1; B2]) ++ A0) /\
  prepeptide_reread g 10 10
    = Ok [mkPart 165 195 (-1); mkPart 150 165 (-1); mkPart 60 75 (-1); mkPart 30 60 (-1)] /\
  idx [mkPart 165 195 (-1); mkPart 150 165 (-1); mkPart 60 75 (-1); mkPart 30 60 (-1)] = idx g.
Proof.
  split; [vm_compute; reflexivity|]. split; [simpl; lia|]. split; [repeat constructor|].
  split; vm_compute; reflexivity.
Qed.
