(* C09: faithful model of
     antismash/common/secmet/locations.py : convert_protein_position_to_dna
     antismash/common/secmet/features/feature.py : Feature.get_sub_location_from_protein_coordinates
     Feature.from_biopython / to_biopython (the codon_start adjustment; frameshift lives in Common/Loc.v)
     antismash/common/secmet/features/prepeptide.py : Prepeptide.to_biopython (leader/core/tail locations; as repaired,
       and as it was before for the refutation)
     antismash/modules/tta/tta.py : TTAResults.new_feature_from_other
     antismash/common/secmet/features/cds_feature.py : CDSFeature.from_biopython (the flow of the location
       through the frameshift, the generated translation, the constructor and Feature.from_biopython),
       CDSFeature.__init__ / Feature.__init__ / the translation setter, _ensure_valid_translation
     antismash/common/secmet/record.py : Record.get_aa_translation_from_location
     Feature.to_biopython (codon_start qualifier and restored location)
   and a specification-side model of Biopython's location.extract and of translation by codons.
   A location is the list of its parts (one part = FeatureLocation, several = CompoundLocation),
   strands 1, -1, 0, 2 (None) as in Common/Loc.v.  No proofs here. *)
From ASV Require Export Base Loc.

(* ---------- convert_protein_position_to_dna ---------- *)
(* sorted(location.parts, key=lambda x: x.start) *)
Definition by_start (a b : part) : bool := ps a <? ps b.

(* the for-loop over the sorted parts; state: gap, last_end, start_found, end_found, dna_start,
   dna_end; the "break" at the top of the body returns the state unchanged *)
Fixpoint conv_loop (parts : list part) (gap last_end : Z) (sf ef : bool) (ds de : Z)
  : bool * bool * Z * Z :=
  match parts with
  | [] => (sf, ef, ds, de)
  | p :: r =>
    if sf && ef then (sf, ef, ds, de) else
    let gap := gap + (ps p - last_end) in
    let hit_s := negb sf && in_part (ds + gap) p in
    let sf' := if hit_s then true else sf in
    let ds' := if hit_s then ds + gap else ds in
    let hit_e := negb ef && in_part (de + gap - 1) p in
    let ef' := if hit_e then true else ef in
    let de' := if hit_e then de + gap else de in
    conv_loop r gap (pe p) sf' ef' ds' de'
  end.

Definition convert (s e : Z) (l : loc) : res (Z * Z) :=
  let n := llen l in
  if negb ((0 <=? s) && (s <? e) && (e <=? n / 3)) then Err E_Value else
  let ds0 := if lstrand l =? -1 then lstart l + n - e * 3 else lstart l + s * 3 in
  let de0 := if lstrand l =? -1 then lstart l + n - s * 3 else lstart l + e * 3 in
  if negb (is_compound l) then
    if (lstart l <=? ds0) && (ds0 <? de0) && (de0 <=? lend l) then Ok (ds0, de0) else Err E_Value
  else
    let parts := sort_by by_start l in
    match parts with
    | [] => Err E_Index
    | p0 :: _ =>
      let '(sf, ef, ds, de) := conv_loop parts 0 (ps p0) false false ds0 de0 in
      if negb sf then Err E_Assert else
      if negb ef then Err E_Assert else
      if (lstart l <=? ds) && (ds <? de) && (de <=? lend l) then Ok (ds, de) else Err E_Value
    end.

(* ---------- Feature.get_sub_location_from_protein_coordinates ---------- *)
(* the loop over the sorted parts building new_locations; inl = the early "return" of a simple
   location, inr = new_locations after the loop (or after the break) *)
Fixpoint sub_walk (sorted : list part) (ds de st : Z) (acc : list part) : part + list part :=
  match sorted with
  | [] => inr acc
  | p :: r =>
    if in_part ds p then
      if in_part (de - 1) p then inl (mkPart ds de st)
      else sub_walk r ds de st (acc ++ [mkPart ds (pe p) st])
    else if in_part (de - 1) p then inr (acc ++ [mkPart (ps p) de st])
    else match acc with
         | [] => sub_walk r ds de st acc
         | _ => sub_walk r ds de st (acc ++ [p])
         end
  end.

(* end_after: isinstance(location.end, AfterPosition); start_before: isinstance(location.start,
   BeforePosition) - the only way position kinds influence the result *)
Definition get_sub (l : loc) (end_after start_before : bool) (s e : Z) : res loc :=
  let n3 := llen l / 3 in
  if negb ((0 <=? s) && (s <=? n3 - 1)) then Err E_Value else
  do e' <- (if (1 <=? e) && (e <=? n3) then Ok e else
            if (0 <? e) && ((negb (lstrand l =? -1) && end_after) || ((lstrand l =? -1) && start_before))
            then Ok n3 else Err E_Value);
  if e' <=? s then Err E_Value else
  do dd <- convert s e' l;
  let '(ds, de) := dd in
  if negb (ds <? de) then Err E_Value else
  if negb (in_loc ds l) then Err E_Value else
  let end_contained := in_loc de l || (de =? lend l)
                       || existsb (fun p => in_part de p || (de =? pe p)) l in
  if negb end_contained then Err E_Value else
  if negb (is_compound l) then Ok [mkPart ds de (lstrand l)] else
  match sub_walk (sort_by by_start l) ds de (lstrand l) [] with
  | inl p => Ok [p]
  | inr [] => Err E_Value
  | inr news => Ok (if lstrand l =? -1 then rev news else news)
  end.

(* ---------- codon_start: Feature.from_biopython adjusts, to_biopython restores ---------- *)
(* returns the adjusted location, the sub-location computed on it, and the restored location *)
Definition codon_start_path (l : loc) (cs s e : Z) : list Z :=
  match frameshift l cs false with
  | Err k => [1; k]
  | Ok l' => 0 :: eLoc l' ++ eRes eLoc (get_sub l' false false s e) ++ eRes eLoc (frameshift l' cs true)
  end.

(* ---------- specification side: extraction and translation ---------- *)
Fixpoint zrange_n (a : Z) (n : nat) : list Z :=
  match n with O => [] | S m => a :: zrange_n (a + 1) m end.
(* the coordinates a, a+1, ..., b-1 *)
Definition zrange (a b : Z) : list Z := zrange_n a (Z.to_nat (b - a)).

(* the record coordinates a part reads, in reading order *)
Definition part_idx (p : part) : list Z :=
  if pst p =? -1 then rev (zrange (ps p) (pe p)) else zrange (ps p) (pe p).
Definition idx (l : loc) : list Z := flat_map part_idx l.

(* bases are numbered A=0 C=1 G=2 T=3, complement = 3 - b; Biopython: a compound location
   extracts its parts in the listed order and reverse-complements each part on strand -1 *)
Definition comp (b : Z) : Z := 3 - b.
Definition extract_part (sq : Z -> Z) (p : part) : list Z :=
  if pst p =? -1 then map (fun i => comp (sq i)) (rev (zrange (ps p) (pe p)))
  else map sq (zrange (ps p) (pe p)).
Definition extract (sq : Z -> Z) (l : loc) : list Z := flat_map (extract_part sq) l.

Definition seq_of (bases : list Z) (i : Z) : Z := if i <? 0 then 0 else nth (Z.to_nat i) bases 0.

(* translation codon by codon with an arbitrary codon table *)
Fixpoint translate (cod : Z -> Z -> Z -> Z) (l : list Z) : list Z :=
  match l with
  | a :: b :: c :: r => cod a b c :: translate cod r
  | _ => []
  end.

Definition sublist {A} (u v : Z) (l : list A) : list A :=
  firstn (Z.to_nat (v - u)) (skipn (Z.to_nat u) l).

Definition zlist_eqb (a b : list Z) : bool := list_eqb Z.eqb a b.

(* ---------- the loading path of a CDS ---------- *)
(* residues are character codes; a codon table is the list of its 64 residues, codon (a, b, c) at
   index 16a + 4b + c (bases A=0 C=1 G=2 T=3), '*' for the stop codons *)
Definition AA_STOP := 42.
Definition AA_X := 88.
Definition AA_M := 77.
Definition codon_of (tbl : list Z) (a b c : Z) : Z := nth (Z.to_nat (16 * a + 4 * b + c)) tbl AA_X.

(* Seq.translate(to_stop=True) *)
Fixpoint take_to_stop (l : list Z) : list Z :=
  match l with
  | [] => []
  | x :: r => if x =? AA_STOP then [] else x :: take_to_stop r
  end.
(* for invalid in "*BJOUZ": replace by X *)
Definition replace_invalid (x : Z) : Z :=
  if existsb (Z.eqb x) [42; 66; 74; 79; 85; 90] then AA_X else x.

(* Record.get_aa_translation_from_location on a record of n unambiguous bases without gaps: the
   trailing 1-2 bases are dropped (translate does that), translation up to the first stop, or of
   everything when that is empty *)
Definition aa_translation (tbl : list Z) (sq : Z -> Z) (n : Z) (l : loc) : res (list Z) :=
  if n <? lend l then Err E_Value else
  let full := translate (codon_of tbl) (extract sq l) in
  let seq := match take_to_stop full with [] => full | s => s end in
  Ok (map replace_invalid seq).

(* _ensure_valid_translation without a /translation qualifier and with a record *)
Definition ensure_translation (tbl : list Z) (sq : Z -> Z) (n : Z) (l : loc) : res (list Z) :=
  if n <? lend l then Err E_Value else
  if llen l <? 3 then Err E_Value else
  aa_translation tbl sq n l.

Fixpoint has_dup (l : list Z) : bool :=
  match l with
  | [] => false
  | x :: r => existsb (Z.eqb x) r || has_dup r
  end.
(* Feature.__init__: exons sharing an end, start <= end, no negative coordinate *)
Definition feature_init (l : loc) : res unit :=
  if is_compound l && has_dup (map pe l) then Err E_Value else
  if lend l <? lstart l then Err E_Assert else
  if lstart l <? 0 then Err E_Value else Ok tt.
(* _verify_location *)
Definition verify_location (l : loc) : res unit :=
  if (lstrand l =? 1) || (lstrand l =? -1) then Ok tt else Err E_Value.
(* the translation setter: an alternate start codon becomes methionine *)
Definition mfix (t : list Z) : list Z :=
  match t with
  | [] => []
  | x :: r => if x =? AA_M then t else AA_M :: r
  end.
(* CDSFeature.__init__ (exact positions, valid residue characters) -> the stored translation *)
Definition cds_init (l : loc) (t : list Z) : res (list Z) :=
  do _ <- feature_init l;
  do _ <- verify_location l;
  match t with
  | [] => Err E_Value
  | _ => if llen l <? zlen t * 3 then Err E_Value else Ok (mfix t)
  end.

(* "except ValueError as err: raise SecmetInvalidInputError" (which is itself a ValueError) *)
Definition as_invalid {A} (r : res A) : res A :=
  match r with
  | Err k => if (k =? E_Value) || (k =? E_SecmetInvalid) then Err E_SecmetInvalid else Err k
  | Ok _ => r
  end.
(* "except Exception" *)
Definition any_as_invalid {A} (r : res A) : res A :=
  match r with Err _ => Err E_SecmetInvalid | Ok _ => r end.

(* CDSFeature.from_biopython on a feature with a name, without /translation, with a record;
   cs < 0: no /codon_start qualifier.  The translation is generated from a frame-shifted COPY of
   the location, the constructor receives bio_feature.location itself, and Feature.from_biopython
   then shifts the new feature's location (once).
   Result: the gene's location, its translation, _original_codon_start (-1: None) *)
Definition cds_from_biopython (tbl : list Z) (sq : Z -> Z) (n : Z) (l : loc) (cs : Z)
  : res (loc * list Z * Z) :=
  let has_cs := 0 <=? cs in
  do _ <- any_as_invalid (verify_location l);
  do t <- as_invalid (do tl <- (if has_cs then frameshift l cs false else Ok l);
                      ensure_translation tbl sq n tl);
  do t' <- cds_init l t;
  if has_cs then do g <- frameshift l cs false; Ok (g, t', cs - 1) else Ok (l, t', -1).

(* Feature.to_biopython: the location written out and the /codon_start qualifier (-1: none) *)
Definition cds_to_biopython (g : loc) (ocs : Z) : res (loc * Z) :=
  if ocs <? 0 then Ok (g, -1) else do r <- frameshift g (ocs + 1) true; Ok (r, ocs + 1).

Definition eLocQ (r : loc * Z) : list Z := eLoc (fst r) ++ [snd r].
(* load, sub-location of residues [s,e), write out *)
Definition load_path (tbl : list Z) (sq : Z -> Z) (n : Z) (l : loc) (cs s e : Z) : list Z :=
  match cds_from_biopython tbl sq n l cs with
  | Err k => [1; k]
  | Ok (g, t, ocs) =>
    0 :: eLoc g ++ eList (fun x => [x]) t ++ [ocs] ++ eRes eLoc (get_sub g false false s e)
      ++ eRes eLocQ (cds_to_biopython g ocs)
  end.

(* Record.from_biopython, last step (repair of C10-F65, /repo e0b8bed8): "for added in record.all_features: if
   location_bridges_origin(added.location): split_origin_bridging_location(added.location)", ValueError ->
   SecmetInvalidInputError.  For a CDS this is reached with the location AFTER the codon_start adjustment: an
   origin-spanning gene whose first exon is exactly codon_start-1 bases long keeps an empty first part ([23:23]),
   which the split refuses - such a gene is refused on reading (before the repair it was loaded and the record could
   not be written as soon as it held a second feature). *)
Definition sortable (l : loc) : bool :=
  if bridges l then match split_bridging l with Ok _ => true | Err _ => false end else true.
Definition load_path_record (tbl : list Z) (sq : Z -> Z) (n : Z) (l : loc) (cs s e : Z) : list Z :=
  match cds_from_biopython tbl sq n l cs with
  | Ok (g, _, _) => if sortable g then load_path tbl sq n l cs s e else [1; E_SecmetInvalid]
  | Err k => [1; k]
  end.

(* ---------- Prepeptide.to_biopython: leader / core / tail locations ---------- *)
(* The prepeptide holds three strings (leader, core, tail) and a location; only their LENGTHS matter here.
   [slack] = number of codons of the location beyond leader + core + tail:
     slack = len(location) // 3 - len(leader) - len(core) - len(tail),
   so that len(core) = total - ll - tl - slack.  The RiPP modules hand over the gene's location, which as a rule
   ends with the stop codon, and sections that make up the gene's translation: slack = 1.

   The code as REPAIRED (finding prepeptide_tail_boundary_shifted_by_stop_codon): boundaries are counted from the
   start,
     core_start = len(leader);  core_end = core_start + len(core) if tail else total_length
     leader = get_sub(0, core_start) if leader;  core = get_sub(core_start, core_end);
     tail = get_sub(core_end, total_length) if tail
   - the last section keeps whatever the location holds beyond the sections. *)
Definition prepeptide_locs_s (l : loc) (ll tl slack : Z) : res (list loc) :=
  let total := llen l / 3 in
  let core_len := total - ll - tl - slack in
  let core_start := ll in
  let core_end := if 0 <? tl then core_start + core_len else total in
  do leader <- (if 0 <? ll then do x <- get_sub l false false 0 core_start; Ok [x] else Ok []);
  do core <- get_sub l false false core_start core_end;
  do tail <- (if 0 <? tl then do x <- get_sub l false false core_end total; Ok [x] else Ok []);
  Ok (leader ++ [core] ++ tail).

(* the code BEFORE the repair (kept for the refutation): the tail was counted back from the end of the location and
   len(core) was never looked at, so [slack] plays no part:
     core = get_sub(len(leader), total_length - len(tail));  tail = get_sub(total_length - len(tail), total_length) *)
Definition prepeptide_locs_old_s (l : loc) (ll tl slack : Z) : res (list loc) :=
  let total := llen l / 3 in
  do leader <- (if 0 <? ll then do x <- get_sub l false false 0 ll; Ok [x] else Ok []);
  do core <- get_sub l false false ll (total - tl);
  do tail <- (if 0 <? tl then do x <- get_sub l false false (total - tl) total; Ok [x] else Ok []);
  Ok (leader ++ [core] ++ tail).

(* sections that fill the location's codons exactly (slack = 0: what the checks drew before the finding) *)
Definition prepeptide_locs (l : loc) (ll tl : Z) : res (list loc) := prepeptide_locs_s l ll tl 0.

(* ---------- locations.build_location_from_others ---------- *)
(* one round of the loop: "if loc.start == location.end" the last part of the location built so far
   and the first part of loc are replaced by FeatureLocation(location.parts[-1].start,
   loc.parts[0].end, location.strand) (Biopython refuses end < start with ValueError), otherwise
   the parts are concatenated; a one-part result stands for the FeatureLocation "new_sub" *)
Definition blo_step (location l : loc) : res loc :=
  if lstart l =? lend location then
    match last_opt location, l with
    | Some lp, f :: rest =>
      do ns <- mkFL (ps lp) (pe f) (lstrand location);
      Ok (removelast location ++ ns :: rest)
    | _, _ => Err E_Index
    end
  else Ok (location ++ l).
Fixpoint blo_go (location : loc) (rest : list loc) : res loc :=
  match rest with
  | [] => Ok location
  | l :: r => do x <- blo_step location l; blo_go x r
  end.
Definition build_from_others (locs : list loc) : res loc :=
  match locs with
  | [] => Err E_Value
  | l :: r => blo_go l r
  end.

(* ---------- Prepeptide.to_biopython -> Prepeptide.from_biopython ---------- *)
(* the core feature carries leader_location / tail_location as text (str(location) and
   location_from_string are inverse to each other on such locations: C04); from_biopython hands
   [leader, core, tail] (those that exist) to build_location_from_others and the constructor
   (Feature.__init__) checks the result *)
Definition prepeptide_reread_s (l : loc) (ll tl slack : Z) : res loc :=
  do locs <- prepeptide_locs_s l ll tl slack;
  do g <- build_from_others locs;
  do _ <- feature_init g;
  Ok g.
(* the re-read location, and leader/core/tail computed again from it: the re-read prepeptide holds the same three
   strings, so its slack is counted from ITS location (len(core) = llen l / 3 - ll - tl - slack as before) *)
Definition prepeptide_roundtrip_s (l : loc) (ll tl slack : Z) : list Z :=
  match prepeptide_reread_s l ll tl slack with
  | Err k => [1; k]
  | Ok g => 0 :: eLoc g ++ eRes (eList eLoc) (prepeptide_locs_s g ll tl (llen g / 3 - (llen l / 3 - slack)))
  end.
Definition prepeptide_reread (l : loc) (ll tl : Z) : res loc := prepeptide_reread_s l ll tl 0.
Definition prepeptide_roundtrip (l : loc) (ll tl : Z) : list Z := prepeptide_roundtrip_s l ll tl 0.

(* ---------- TTAResults.new_feature_from_other ---------- *)
(* a location of several parts: the offset (an index into the spliced sequence) is mapped through
   the exons by convert_protein_position_to_dna(offset // 3, offset // 3 + 1, location), the marker
   is the three bases from the codon's first base on (strand -1: the three bases up to dna_end);
   a location of one part: start + offset / end - offset - 3 as before.
   Feature() refuses a negative start with ValueError *)
Definition tta_marker (l : loc) (offset : Z) : res loc :=
  do start <- (if is_compound l then
                 do dd <- convert (offset / 3) (offset / 3 + 1) l;
                 Ok (if lstrand l =? -1 then snd dd - 3 else fst dd)
               else Ok (if lstrand l =? 1 then lstart l + offset else lend l - offset - 3));
  if start <? 0 then Err E_Value else Ok [mkPart start (start + 3) (lstrand l)].

(* ---------- decidable guard / classes ---------- *)
(* parts in ascending coordinate order, non-empty, not overlapping (adjacent allowed), from lo on *)
Fixpoint mono_b (lo : Z) (a : list part) : bool :=
  match a with
  | [] => true
  | p :: r => (lo <=? ps p) && (ps p <? pe p) && mono_b (pe p) r
  end.
Definition same_strand_b (st : Z) (l : loc) : bool := forallb (fun p => pst p =? st) l.
(* the parts of l in ascending coordinate order if l is listed in transcription order *)
Definition ascending (l : loc) : list part := if lstrand l =? -1 then rev l else l.
(* guard of C09_subloc: one common strand, transcription order = coordinate order (the gene does
   not span the origin), no empty / overlapping / negative exons *)
Definition guard_gene (l : loc) : bool :=
  match l with
  | [] => false
  | p :: _ => same_strand_b (pst p) l && mono_b 0 (ascending l)
  end.
(* well-formed but origin-spanning: same strand, non-empty non-negative pairwise disjoint parts,
   transcription order = two ascending runs, the second one entirely before the first *)
Fixpoint split_run (prev : part) (l : list part) : list part * list part :=
  match l with
  | [] => ([prev], [])
  | p :: r => if pe prev <=? ps p then let '(a, b) := split_run p r in (prev :: a, b)
              else ([prev], l)
  end.
Definition spanning_gene (l : loc) : bool :=
  match l with
  | [] => false
  | p :: _ =>
    same_strand_b (pst p) l && negb (guard_gene l) &&
    match ascending l with
    | [] => false
    | q :: r =>
      (* for either strand `ascending l` is (high run, low run), each run ascending *)
      let '(first, second) := split_run q r in
      match second with
      | [] => false
      | _ => mono_b 0 (second ++ first)
      end
    end
  end.
(* exons in ascending order of which each may overlap the previous one by 1-2 bases (programmed
   ribosomal frameshift; accepted in input records, which refuse overlaps of 3 or more bases) *)
Fixpoint slip_b (prev : part) (a : list part) : bool :=
  match a with
  | [] => true
  | p :: r => (pe prev - 2 <=? ps p) && (ps prev <? ps p) && (pe prev <? pe p) && (ps p <? pe p) && slip_b p r
  end.
Definition slippage_gene (l : loc) : bool :=
  match l with
  | [] => false
  | p :: _ =>
    same_strand_b (pst p) l && negb (guard_gene l) &&
    match ascending l with
    | [] => false
    | q :: r => (0 <=? ps q) && (ps q <? pe q) && slip_b q r
    end
  end.
(* 0: guard holds; 1: origin-spanning well-formed gene; 3: exons overlapping by 1-2 bases;
   2: anything else (no verdict) *)
Definition gene_class (l : loc) : Z :=
  if guard_gene l then 0 else if spanning_gene l then 1 else if slippage_gene l then 3 else 2.

(* ---------- decidable specification on an output ---------- *)
(* the sub-location for residues [s,e): inside the gene, three bases per residue, and reading
   exactly the coordinates 3s..3e of the gene's reading order (hence the same bases, whatever the
   sequence, and the same residues, whatever the codon table) *)
Definition spec_sub (g : loc) (s e : Z) (out : loc) : bool :=
  contains g out && (llen out =? 3 * (e - s)) && zlist_eqb (idx out) (sublist (3 * s) (3 * e) (idx g)).

Definition spec_sub_res (g : loc) (s e : Z) (out : res loc) : bool :=
  match out with Ok o => spec_sub g s e o | Err _ => false end.

(* leader, core, tail read consecutive stretches that together are the first 3*total coordinates *)
Definition spec_prepeptide (g : loc) (ll tl : Z) (out : res (list loc)) : bool :=
  let total := llen g / 3 in
  match out with
  | Err _ => false
  | Ok locs =>
    zlist_eqb (flat_map idx locs) (sublist 0 (3 * total) (idx g)) &&
    forallb (contains g) locs &&
    match locs, (0 <? ll), (0 <? tl) with
    | [c], false, false => llen c =? 3 * total
    | [a; c], true, false => (llen a =? 3 * ll) && (llen c =? 3 * (total - ll))
    | [c; t], false, true => (llen c =? 3 * (total - tl)) && (llen t =? 3 * tl)
    | [a; c; t], true, true => (llen a =? 3 * ll) && (llen c =? 3 * (total - ll - tl)) && (llen t =? 3 * tl)
    | _, _, _ => false
    end
  end.

(* ----- sections of a prepeptide whose location holds [slack] codons beyond leader + core + tail -----
   [spec_sections g ranges locs]: one location per residue range, each satisfying spec_sub for its range (inside the
   gene, three bases per residue, reading exactly that stretch of the gene's reading order) *)
Fixpoint spec_sections (g : loc) (ranges : list (Z * Z)) (locs : list loc) : bool :=
  match ranges, locs with
  | [], [] => true
  | (s, e) :: rr, l :: lr => spec_sub g s e l && spec_sections g rr lr
  | _, _ => false
  end.
(* leader = residues [0,ll) if any, core = [ll,ce), tail = [ce,te) if any *)
Definition section_ranges (ll tl ce te : Z) : list (Z * Z) :=
  (if 0 <? ll then [(0, ll)] else []) ++ [(ll, ce)] ++ (if 0 <? tl then [(ce, te)] else []).
(* what the property states: EVERY section covers exactly its residues - the core ends at ll + len(core)
   = total - tl - slack, the tail has tl residues *)
Definition strict_ranges (total ll tl slack : Z) : list (Z * Z) :=
  let ce := total - tl - slack in section_ranges ll tl ce (ce + tl).
(* the same, but the LAST section (the tail if there is one, else the core) runs on to the end of the location: it
   also holds the 3*slack trailing bases (the stop codon) *)
Definition extended_ranges (total ll tl slack : Z) : list (Z * Z) :=
  let ce := if 0 <? tl then total - tl - slack else total in section_ranges ll tl ce total.
Definition spec_prepeptide_s (g : loc) (ll tl slack : Z) (out : res (list loc)) : bool :=
  match out with
  | Err _ => false
  | Ok locs => spec_sections g (strict_ranges (llen g / 3) ll tl slack) locs
  end.
(* relaxed: the last section MAY hold the trailing bases (either form is accepted) *)
Definition spec_prepeptide_relaxed_s (g : loc) (ll tl slack : Z) (out : res (list loc)) : bool :=
  spec_prepeptide_s g ll tl slack out ||
  match out with
  | Err _ => false
  | Ok locs => spec_sections g (extended_ranges (llen g / 3) ll tl slack) locs
  end.

(* the prepeptide location g' after to_biopython -> from_biopython, judged against the gene g it was
   made from: [ g' reads exactly the first 3*total coordinates of g's reading order (so every base
   of g' is a base of g; exons that adjoin without an intron may come back merged, hence no
   part-by-part containment test); leader/core/tail computed again satisfy spec_prepeptide w.r.t.
   g' - together with the first clause: they read the coordinates of g that encode them;
   g' is part for part the gene's location (informative only) ] *)
Definition spec_reread (g : loc) (ll tl : Z) (g' : loc) (again : res (list loc)) : list Z :=
  let total := llen g / 3 in
  eBool (zlist_eqb (idx g') (sublist 0 (3 * total) (idx g)) && (llen g' =? 3 * total))
  ++ eBool (spec_prepeptide g' ll tl again)
  ++ eBool (loc_eqb g' g).

(* the same with slack: [ g' reads the first 3*total coordinates of g; sections computed again: strict specification
   w.r.t. g'; relaxed specification w.r.t. g'; g' is part for part the gene's location ] - the slack of the re-read
   prepeptide is counted from g' as in prepeptide_roundtrip_s *)
Definition spec_reread_s (g : loc) (ll tl slack : Z) (g' : loc) (again : res (list loc)) : list Z :=
  let total := llen g / 3 in
  let slack' := llen g' / 3 - (total - slack) in
  eBool (zlist_eqb (idx g') (sublist 0 (3 * total) (idx g)) && (llen g' =? 3 * total))
  ++ eBool (spec_prepeptide_s g' ll tl slack' again)
  ++ eBool (spec_prepeptide_relaxed_s g' ll tl slack' again)
  ++ eBool (loc_eqb g' g).

(* the marker of the codon at offset i of the gene's reading order: three bases, every one of them a
   base of the gene, reading exactly the coordinates i..i+3 of the gene's reading order.  (Base-wise
   containment, not containment in ONE exon: a codon that runs over the border of two exons adjoining
   without an intron is three adjacent bases of the record and a one-part marker covers it.) *)
Definition spec_tta (g : loc) (i : Z) (out : res loc) : bool :=
  match out with
  | Err _ => false
  | Ok m => forallb (fun x => in_loc x g) (idx m) && (llen m =? 3)
            && zlist_eqb (idx m) (sublist i (i + 3) (idx g))
  end.
(* the three bases of the codon at offset i are NOT adjacent in the record: an intron of at least one
   base lies inside the codon (no one-part marker can cover it: finding tta_codon_split_by_intron) *)
Definition codon_split (g : loc) (i : Z) : bool :=
  match sublist i (i + 3) (idx g) with
  | [a; b; c] => negb (((b =? a + 1) && (c =? a + 2)) || ((b =? a - 1) && (c =? a - 2)))
  | _ => false
  end.

(* the loaded CDS: gene location g, stored translation t, the sub-location of residues [s,e), and
   what is written out again, judged against the annotated location l with /codon_start cs:
   [ the gene's location reads the annotated location from base cs-1 on, inside it;
     the stored translation is the translation of the gene's location;
     the sub-location covers the nucleotides that encode residues [s,e) of the stored translation
       (residue 0 is stored as M whatever its codon; stop codons are stored as X);
     the location written out is the annotated one, with the same qualifier;
     range verdict applicable: 0 <= s < e <= number of stored residues ] *)
Definition same_from (skip_first : bool) (a b : list Z) : bool :=
  if skip_first then (zlen a =? zlen b) && zlist_eqb (tl a) (tl b) && (match b with x :: _ => x =? AA_M | [] => true end)
  else zlist_eqb a b.
Definition spec_load (tbl : list Z) (sq : Z -> Z) (n : Z) (l : loc) (cs s e : Z)
    (g : loc) (t : list Z) (sub : res loc) (out : res (loc * Z)) : list Z :=
  let off := if cs <? 0 then 0 else cs - 1 in
  let in_range := (0 <=? s) && (s <? e) && (e <=? zlen t) in
  eBool (zlist_eqb (idx g) (skipn (Z.to_nat off) (idx l)) && contains l g)
  ++ eBool (match aa_translation tbl sq n g with Ok x => zlist_eqb t (mfix x) | Err _ => false end)
  ++ eBool (match sub with
            | Ok o => spec_sub g s e o &&
                      same_from (s =? 0) (map replace_invalid (translate (codon_of tbl) (extract sq o))) (sublist s e t)
            | Err _ => false
            end)
  ++ eBool (match out with
            | Ok (r, q) => loc_eqb r l && (q =? (if cs <? 0 then -1 else cs))
            | Err _ => false
            end)
  ++ eBool in_range.

(* ---------- flat encoding ---------- *)
Definition dResLoc : dec (res loc) := fun l =>
  match l with
  | 0 :: r => match dLoc r with Some (x, r') => Some (Ok x, r') | None => None end
  | 1 :: k :: r => Some (Err k, r)
  | _ => None
  end.
Definition dResLocs : dec (res (list loc)) := fun l =>
  match l with
  | 0 :: r => match dList dLoc r with Some (x, r') => Some (Ok x, r') | None => None end
  | 1 :: k :: r => Some (Err k, r)
  | _ => None
  end.
(* the output of prepeptide_roundtrip *)
Definition dReread : dec (res (loc * res (list loc))) := fun l =>
  match l with
  | 0 :: r => match dPair dLoc dResLocs r with Some (x, r') => Some (Ok x, r') | None => None end
  | 1 :: k :: r => Some (Err k, r)
  | _ => None
  end.
Definition dLocQ : dec (loc * Z) := dPair dLoc dZ.
Definition dResLocQ : dec (res (loc * Z)) := fun l =>
  match l with
  | 0 :: r => match dLocQ r with Some (x, r') => Some (Ok x, r') | None => None end
  | 1 :: k :: r => Some (Err k, r)
  | _ => None
  end.
(* the output of load_path *)
Definition dLoaded : dec (res (loc * list Z * Z * res loc * res (loc * Z))) := fun l =>
  match l with
  | 0 :: r =>
    match dPair (dPair (dPair dLoc (dList dZ)) dZ) (dPair dResLoc dResLocQ) r with
    | Some ((g, t, ocs, (sub, out)), r') => Some (Ok (g, t, ocs, sub, out), r')
    | None => None
    end
  | 1 :: k :: r => Some (Err k, r)
  | _ => None
  end.
(* location, codon_start, record bases, codon table, residue range *)
Definition dLoadIn : dec (loc * Z * (list Z * list Z) * (Z * Z)) :=
  dPair (dPair (dPair dLoc dZ) (dPair (dList dZ) (dList dZ))) (dPair dZ dZ).
Definition nonempty_loc (l : loc) : bool := match l with [] => false | _ => true end.

Definition run_C09 (fn : Z) (l : list Z) : list Z :=
  match fn with
  | 1 => match dPair (dPair dZ dZ) dLoc l with
         | Some ((s, e, a), []) =>
           if nonempty_loc a then eRes (fun d => [fst d; snd d]) (convert s e a) else bad_input
         | _ => bad_input end
  | 2 => match dPair (dPair dLoc (dPair dBool dBool)) (dPair dZ dZ) l with
         | Some ((a, (ea, sb), (s, e)), []) =>
           if nonempty_loc a then eRes eLoc (get_sub a ea sb s e) else bad_input
         | _ => bad_input end
  | 3 => match dPair (dPair dLoc dZ) (dPair dZ dZ) l with
         | Some ((a, cs, (s, e)), []) =>
           if nonempty_loc a then codon_start_path a cs s e else bad_input
         | _ => bad_input end
  | 4 => match dPair dLoc (dPair dZ dZ) l with
         | Some ((a, (ll, tl)), []) =>
           if nonempty_loc a then eRes (eList eLoc) (prepeptide_locs a ll tl) else bad_input
         | _ => bad_input end
  | 5 => match dPair dLoc dZ l with
         | Some ((a, off), []) =>
           if nonempty_loc a then eRes eLoc (tta_marker a off) else bad_input
         | _ => bad_input end
  | 6 => match dPair dLoc (dList dZ) l with
         | Some ((a, bases), []) => eList (fun x => [x]) (extract (seq_of bases) a)
         | _ => bad_input end
  (* 7: CDSFeature.from_biopython; 8: the same through Record.from_biopython / Record.to_biopython *)
  | 7 => match dLoadIn l with
         | Some ((a, cs, (bases, tbl), (s, e)), []) =>
           if nonempty_loc a then load_path tbl (seq_of bases) (zlen bases) a cs s e else bad_input
         | _ => bad_input end
  | 8 => match dLoadIn l with
         | Some ((a, cs, (bases, tbl), (s, e)), []) =>
           if nonempty_loc a then load_path_record tbl (seq_of bases) (zlen bases) a cs s e else bad_input
         | _ => bad_input end
  (* 9: Prepeptide.to_biopython -> from_biopython (build_location_from_others) -> to_biopython *)
  | 9 => match dPair dLoc (dPair dZ dZ) l with
         | Some ((a, (ll, tl)), []) =>
           if nonempty_loc a then prepeptide_roundtrip a ll tl else bad_input
         | _ => bad_input end
  (* 24 / 29: fn 4 / fn 9 for a prepeptide whose location holds [slack] codons beyond its sections *)
  | 24 => match dPair dLoc (dPair (dPair dZ dZ) dZ) l with
          | Some ((a, ((ll, tl), slack)), []) =>
            if nonempty_loc a then eRes (eList eLoc) (prepeptide_locs_s a ll tl slack) else bad_input
          | _ => bad_input end
  | 29 => match dPair dLoc (dPair (dPair dZ dZ) dZ) l with
          | Some ((a, ((ll, tl), slack)), []) =>
            if nonempty_loc a then prepeptide_roundtrip_s a ll tl slack else bad_input
          | _ => bad_input end
  (* 20: build_location_from_others *)
  | 20 => match dList dLoc l with
          | Some (locs, []) =>
            if forallb nonempty_loc locs then eRes eLoc (build_from_others locs) else bad_input
          | _ => bad_input end
  (* specification verdicts on the implementation's output: [spec_ok; gene class] *)
  | 12 => match dPair (dPair dLoc (dPair dBool dBool)) (dPair (dPair dZ dZ) dResLoc) l with
          | Some ((a, _, ((s, e), out)), []) => eBool (spec_sub_res a s e out) ++ [gene_class a]
          | _ => bad_input end
  | 14 => match dPair dLoc (dPair (dPair dZ dZ) dResLocs) l with
          | Some ((a, ((ll, tl), out)), []) => eBool (spec_prepeptide a ll tl out) ++ [gene_class a]
          | _ => bad_input end
  | 15 => match dPair dLoc (dPair dZ dResLoc) l with
          | Some ((a, (off, out)), []) =>
            eBool (spec_tta a off out) ++ [gene_class a] ++ eBool (codon_split a off)
          | _ => bad_input end
  | 19 => match dPair dLoc (dPair (dPair dZ dZ) dReread) l with
          | Some ((a, ((ll, tl), out)), []) =>
            match out with
            | Ok (g', again) => 0 :: spec_reread a ll tl g' again ++ [gene_class a]
            | Err k => [1; k; gene_class a]
            end
          | _ => bad_input end
  (* 34: [strict specification; relaxed specification; gene class] on the sections of fn 24;
     39: the verdict on the round trip of fn 29 *)
  | 34 => match dPair dLoc (dPair (dPair (dPair dZ dZ) dZ) dResLocs) l with
          | Some ((a, (((ll, tl), slack), out)), []) =>
            eBool (spec_prepeptide_s a ll tl slack out) ++ eBool (spec_prepeptide_relaxed_s a ll tl slack out)
            ++ [gene_class a]
          | _ => bad_input end
  | 39 => match dPair dLoc (dPair (dPair (dPair dZ dZ) dZ) dReread) l with
          | Some ((a, (((ll, tl), slack), out)), []) =>
            match out with
            | Ok (g', again) => 0 :: spec_reread_s a ll tl slack g' again ++ [gene_class a]
            | Err k => [1; k; gene_class a]
            end
          | _ => bad_input end
  | 17 | 18 => match dPair dLoadIn dLoaded l with
          | Some ((a, cs, (bases, tbl), (s, e), out), []) =>
            match out with
            | Ok (g, t, _, sub, wr) =>
              0 :: spec_load tbl (seq_of bases) (zlen bases) a cs s e g t sub wr ++ [gene_class a]
            | Err k => [1; k; gene_class a]
            end
          | _ => bad_input end
  | _ => bad_input
  end.
