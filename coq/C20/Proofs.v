(* C20 - lemmas and proofs about the trace machine (write_to_file / dump_records) and the
   output-directory decision (prepare_output_directory). *)
From ASV.C20 Require Import Model.
From Coq Require Import Lia ZifyBool.

(* ====================================================================== specification-side definitions *)

(* the world after some more events, file and log untouched *)
Definition ext (w : world) (evs : list event) : world :=
  mkW (w_file w) (w_log w) (w_trace w ++ evs).

(* a conversion event that saw the target in state s *)
Definition conv_ev (s : Z) (e : event) : Prop := e_code e <= 7 /\ e_state e = s.
Definition io_ev (e : event) : Prop := e_code e = EV_OPEN \/ e_code e = EV_WRITE.

(* every conversion event of a fault-free plan, in order (s = state of the target seen by them) *)
Fixpoint module_events (s i j : Z) (ms : list mspec) : list event :=
  match ms with
  | [] => []
  | m :: rest =>
    if ms_kind m =? 0 then module_events s i (j + 1) rest
    else mkEv 5 i j s :: module_events s i (j + 1) rest
  end.
Fixpoint record_events (s i : Z) (results : list (list mspec)) (records : list rspec) {struct records}
  : list event :=
  match records, results with
  | _ :: records', ms :: results' =>
    [mkEv 1 i 0 s; mkEv 2 i 0 s; mkEv 3 i 0 s; mkEv 4 i 0 s] ++ module_events s i 0 ms
    ++ record_events s (i + 1) results' records'
  | _, _ => []
  end.
Definition late_event (s code i j late : Z) : list event :=
  if late =? 1 then [mkEv code i j s] else [].
Fixpoint late_module_events (s i : Z) (ms : list mjson) : list event :=
  match ms with
  | [] => []
  | m :: rest => late_event s 6 i (mj_key m) (mj_late m) ++ late_module_events s i rest
  end.
Fixpoint late_events (s i : Z) (d : list rjson) : list event :=
  match d with
  | [] => []
  | (_, ms) :: rest => late_module_events s i ms ++ late_events s (i + 1) rest
  end.
Definition all_conversions (s : Z) (records : list rspec) (results : list (list mspec)) (tl : Z) : list event :=
  record_events s 0 results records ++ late_events s 0 (expected_data records results) ++ late_event s 7 0 0 tl.
Definition all_conversions_dump (s : Z) (records : list rspec) (results : list (list mspec)) (hk : Z) : list event :=
  record_events s 0 results records ++ (if hk =? 4 then [] else late_events s 0 (expected_data records results)).

Definition data_late_faulty (d : list rjson) : bool :=
  existsb (fun p : rjson => existsb (fun m => late_faulty (mj_late m)) (snd p)) d.

(* ====================================================================== basic facts *)

Lemma ext_nil : forall w, ext w [] = w.
Proof. intros [f l t]. unfold ext. simpl. rewrite app_nil_r. reflexivity. Qed.

Lemma ext_ext : forall w a b, ext (ext w a) b = ext w (a ++ b).
Proof. intros w a b. unfold ext. simpl. rewrite app_assoc. reflexivity. Qed.

Lemma ext_file : forall w a, w_file (ext w a) = w_file w.
Proof. reflexivity. Qed.

Lemma bindM_ok : forall A B (m : M A) (f : A -> M B) w w1 a,
  m w = (w1, Ok a) -> bindM m f w = f a w1.
Proof. intros A B m f w w1 a H. unfold bindM. rewrite H. reflexivity. Qed.

Lemma bindM_err : forall A B (m : M A) (f : A -> M B) w w1 k,
  m w = (w1, Err k) -> bindM m f w = (w1, Err k).
Proof. intros A B m f w w1 k H. unfold bindM. rewrite H. reflexivity. Qed.

Lemma hook_eq : forall c i j f w,
  hook c i j f w = (ext w [mkEv c i j (cstate (w_file w))], if f =? 0 then Ok tt else Err f).
Proof.
  intros c i j f w. unfold hook, bindM, emit, ext. cbn [w_file w_log w_trace].
  destruct (f =? 0); reflexivity.
Qed.

Lemma dumps_value_eq : forall c i j late w,
  dumps_value c i j late w =
  (ext w (if late =? 0 then [] else if late =? 2 then [] else [mkEv c i j (cstate (w_file w))]),
   if late_faulty late then Err E_Type else Ok tt).
Proof.
  intros c i j late w. unfold dumps_value, late_faulty.
  destruct (late =? 0) eqn:H0.
  - cbn. rewrite ext_nil. reflexivity.
  - destruct (late =? 1) eqn:H1.
    + assert (H2 : late =? 2 = false) by lia. rewrite H2. reflexivity.
    + destruct (late =? 2) eqn:H2.
      * cbn. rewrite ext_nil. reflexivity.
      * reflexivity.
Qed.

(* ====================================================================== (A) conversions never touch the target *)

Definition conv_like {A} (m : M A) : Prop :=
  forall w, exists evs, fst (m w) = ext w evs /\ Forall (conv_ev (cstate (w_file w))) evs.

Lemma conv_like_ret : forall A (a : A), conv_like (ret a).
Proof. intros A a w. exists []. split; [cbn; rewrite ext_nil; reflexivity | constructor]. Qed.

Lemma conv_like_raise : forall A k, conv_like (@raise A k).
Proof. intros A k w. exists []. split; [cbn; rewrite ext_nil; reflexivity | constructor]. Qed.

Lemma conv_like_bind : forall A B (m : M A) (f : A -> M B),
  conv_like m -> (forall a, conv_like (f a)) -> conv_like (bindM m f).
Proof.
  intros A B m f Hm Hf w. destruct (Hm w) as [e1 [H1 F1]].
  unfold bindM. destruct (m w) as [w1 [a|k]] eqn:E; cbn [fst] in H1.
  - subst w1. destruct (Hf a (ext w e1)) as [e2 [H2 F2]].
    exists (e1 ++ e2). rewrite H2, ext_ext. split; [reflexivity|].
    apply Forall_app. split; [exact F1 | exact F2].
  - exists e1. split; [exact H1 | exact F1].
Qed.

Lemma conv_like_hook : forall c i j f, c <= 7 -> conv_like (hook c i j f).
Proof.
  intros c i j f Hc w. rewrite hook_eq. eexists. split; [reflexivity|].
  constructor; [|constructor]. split; [exact Hc | reflexivity].
Qed.

Lemma conv_like_dumps_value : forall c i j late, c <= 7 -> conv_like (dumps_value c i j late).
Proof.
  intros c i j late Hc w. rewrite dumps_value_eq. eexists. split; [reflexivity|].
  destruct (late =? 0); [constructor|]. destruct (late =? 2); [constructor|].
  constructor; [|constructor]. split; [exact Hc | reflexivity].
Qed.

Lemma probe_truth_ok : forall ms w, truth_fails ms = false -> probe_truth ms w = (w, Ok tt).
Proof.
  induction ms as [|m rest IH]; intros w H; [reflexivity|].
  unfold truth_fails in H. cbn [existsb] in H. apply orb_false_iff in H. destruct H as [Hm Hrest].
  cbn [probe_truth]. destruct (ms_tfault m =? 0); [apply IH; exact Hrest | discriminate].
Qed.

Lemma probe_truth_err : forall ms w, truth_fails ms = true -> exists k, probe_truth ms w = (w, Err k).
Proof.
  induction ms as [|m rest IH]; intros w H; [discriminate|].
  unfold truth_fails in H. cbn [existsb] in H. cbn [probe_truth].
  destruct (ms_tfault m =? 0); [apply IH; exact H | eexists; reflexivity].
Qed.

Lemma conv_like_probe : forall ms, conv_like (probe_truth ms).
Proof.
  intros ms w. exists []. rewrite ext_nil. split; [|constructor].
  destruct (truth_fails ms) eqn:T.
  - destruct (probe_truth_err ms w T) as [k Hk]. rewrite Hk. reflexivity.
  - rewrite (probe_truth_ok ms w T). reflexivity.
Qed.

Lemma conv_like_conv_modules : forall ms i j, conv_like (conv_modules i j ms).
Proof.
  induction ms as [|m rest IH]; intros i j; cbn [conv_modules].
  - apply conv_like_ret.
  - destruct (ms_kind m =? 0); [apply IH|].
    destruct (ms_kind m =? 2); [|apply conv_like_raise].
    apply conv_like_bind; [apply conv_like_hook; lia|]. intros _.
    apply conv_like_bind; [apply IH|]. intros tl. apply conv_like_ret.
Qed.

Lemma conv_like_conv_records : forall records results i, conv_like (conv_records i results records).
Proof.
  induction records as [|r rest IH]; intros results i; cbn [conv_records].
  - apply conv_like_ret.
  - destruct results as [|ms results']; [apply conv_like_raise|].
    apply conv_like_bind; [apply conv_like_hook; lia|]. intros _.
    apply conv_like_bind; [apply conv_like_hook; lia|]. intros _.
    apply conv_like_bind; [apply conv_like_hook; lia|]. intros _.
    apply conv_like_bind; [apply conv_like_hook; lia|]. intros _.
    apply conv_like_bind; [apply conv_like_probe|]. intros _.
    apply conv_like_bind; [apply conv_like_conv_modules|]. intros mods.
    apply conv_like_bind; [apply IH|]. intros tl. apply conv_like_ret.
Qed.

Lemma conv_like_dumps_modules : forall ms i, conv_like (dumps_modules i ms).
Proof.
  induction ms as [|m rest IH]; intros i; cbn [dumps_modules].
  - apply conv_like_ret.
  - apply conv_like_bind; [apply conv_like_dumps_value; lia|]. intros _. apply IH.
Qed.

Lemma conv_like_dumps_records : forall d i, conv_like (dumps_records i d).
Proof.
  induction d as [|[o ms] rest IH]; intros i; cbn [dumps_records].
  - apply conv_like_ret.
  - apply conv_like_bind; [apply conv_like_dumps_modules|]. intros _. apply IH.
Qed.

Lemma conv_like_convert_all : forall records results tl, conv_like (convert_all records results tl).
Proof.
  intros records results tl. unfold convert_all.
  apply conv_like_bind; [apply conv_like_conv_records|]. intros d.
  apply conv_like_bind; [apply conv_like_dumps_records|]. intros _.
  apply conv_like_bind; [apply conv_like_dumps_value; lia|]. intros _. apply conv_like_ret.
Qed.

(* ====================================================================== (B) fault-free plans: exact result *)

Lemma module_faulty_false : forall m, module_faulty m = false ->
  (ms_kind m =? 0) = true \/ ((ms_kind m =? 0) = false /\ (ms_kind m =? 2) = true /\ (ms_fault m =? 0) = true).
Proof.
  intros m H. unfold module_faulty in H.
  destruct (ms_kind m =? 0); [left; reflexivity|right].
  destruct (ms_kind m =? 2); destruct (ms_fault m =? 0); cbn in H; try discriminate. auto.
Qed.

Lemma conv_modules_ok : forall ms i j w, existsb module_faulty ms = false ->
  conv_modules i j ms w = (ext w (module_events (cstate (w_file w)) i j ms), Ok (expected_modules j ms)).
Proof.
  induction ms as [|m rest IH]; intros i j w H.
  - cbn. rewrite ext_nil. reflexivity.
  - cbn [existsb] in H. apply orb_false_iff in H. destruct H as [Hm Hrest].
    cbn [conv_modules module_events expected_modules].
    destruct (module_faulty_false m Hm) as [K0 | [K0 [K2 F0]]]; rewrite K0.
    + apply IH. exact Hrest.
    + rewrite K2.
      rewrite (bindM_ok _ _ _ _ w (ext w [mkEv 5 i j (cstate (w_file w))]) tt)
        by (rewrite hook_eq, F0; reflexivity).
      rewrite (bindM_ok _ _ _ _ _ _ _ (IH i (j + 1) _ Hrest)).
      unfold ret. rewrite ext_ext, ext_file. reflexivity.
Qed.

Lemma record_faulty_false : forall r, record_faulty r = false ->
  (r_f1 r =? 0) = true /\ (r_f2 r =? 0) = true /\ (r_f3 r =? 0) = true /\ (r_f4 r =? 0) = true.
Proof.
  intros r H. unfold record_faulty in H.
  destruct (r_f1 r =? 0); destruct (r_f2 r =? 0); destruct (r_f3 r =? 0); destruct (r_f4 r =? 0);
    cbn in H; try discriminate; auto.
Qed.

Lemma stage1_cons : forall r records ms results,
  stage1_fails (r :: records) (ms :: results) =
  (record_faulty r || truth_fails ms || existsb module_faulty ms) || stage1_fails records results.
Proof.
  intros r records ms results. unfold stage1_fails. cbn [length combine existsb fst snd].
  change (S (length results) <? S (length records))%nat with (length results <? length records)%nat.
  destruct (length results <? length records)%nat;
    destruct (record_faulty r || truth_fails ms || existsb module_faulty ms); reflexivity.
Qed.

Lemma conv_records_ok : forall records results i w, stage1_fails records results = false ->
  conv_records i results records w =
  (ext w (record_events (cstate (w_file w)) i results records), Ok (expected_data records results)).
Proof.
  induction records as [|r rest IH]; intros results i w H.
  - cbn. rewrite ext_nil. reflexivity.
  - destruct results as [|ms results'].
    + unfold stage1_fails in H. cbn in H. discriminate.
    + rewrite stage1_cons in H. apply orb_false_iff in H. destruct H as [H1 Hrest].
      apply orb_false_iff in H1. destruct H1 as [Hrt Hm].
      apply orb_false_iff in Hrt. destruct Hrt as [Hr Ht].
      destruct (record_faulty_false r Hr) as [F1 [F2 [F3 F4]]].
      cbn [conv_records record_events].
      rewrite (bindM_ok _ _ _ _ w _ tt) by (rewrite hook_eq, F1; reflexivity).
      rewrite (bindM_ok _ _ _ _ _ _ tt) by (rewrite hook_eq, F2; reflexivity).
      rewrite (bindM_ok _ _ _ _ _ _ tt) by (rewrite hook_eq, F3; reflexivity).
      rewrite (bindM_ok _ _ _ _ _ _ tt) by (rewrite hook_eq, F4; reflexivity).
      rewrite (bindM_ok _ _ _ _ _ _ tt (probe_truth_ok ms _ Ht)).
      rewrite (bindM_ok _ _ _ _ _ _ _ (conv_modules_ok ms i 0 _ Hm)).
      rewrite (bindM_ok _ _ _ _ _ _ _ (IH results' (i + 1) _ Hrest)).
      unfold ret. rewrite !ext_ext, !ext_file. unfold expected_data. cbn [combine map fst snd].
      reflexivity.
Qed.

Lemma dumps_modules_ok : forall ms i w, existsb (fun m => late_faulty (mj_late m)) ms = false ->
  dumps_modules i ms w = (ext w (late_module_events (cstate (w_file w)) i ms), Ok tt).
Proof.
  induction ms as [|m rest IH]; intros i w H.
  - cbn. rewrite ext_nil. reflexivity.
  - cbn [existsb] in H. apply orb_false_iff in H. destruct H as [Hm Hrest].
    cbn [dumps_modules late_module_events].
    assert (E : dumps_value 6 i (mj_key m) (mj_late m) w =
                (ext w (late_event (cstate (w_file w)) 6 i (mj_key m) (mj_late m)), Ok tt)).
    { rewrite dumps_value_eq, Hm. unfold late_event. unfold late_faulty in Hm.
      destruct (mj_late m =? 0) eqn:E0.
      - assert (E1 : mj_late m =? 1 = false) by lia. rewrite E1. reflexivity.
      - destruct (mj_late m =? 1) eqn:E1; [|cbn in Hm; discriminate].
        assert (E2 : mj_late m =? 2 = false) by lia. rewrite E2. reflexivity. }
    rewrite (bindM_ok _ _ _ _ _ _ _ E). rewrite (IH i _ Hrest). rewrite ext_ext, ext_file. reflexivity.
Qed.

Lemma dumps_records_ok : forall d i w, data_late_faulty d = false ->
  dumps_records i d w = (ext w (late_events (cstate (w_file w)) i d), Ok tt).
Proof.
  induction d as [|[o ms] rest IH]; intros i w H.
  - cbn. rewrite ext_nil. reflexivity.
  - unfold data_late_faulty in H. cbn [existsb snd] in H. apply orb_false_iff in H. destruct H as [Hm Hrest].
    cbn [dumps_records late_events].
    rewrite (bindM_ok _ _ _ _ _ _ _ (dumps_modules_ok ms i w Hm)).
    rewrite (IH (i + 1) _ Hrest). rewrite ext_ext, ext_file. reflexivity.
Qed.

(* ====================================================================== (C) a fault makes the conversion fail *)

Lemma conv_modules_err : forall ms i j w, existsb module_faulty ms = true ->
  exists k, snd (conv_modules i j ms w) = Err k.
Proof.
  induction ms as [|m rest IH]; intros i j w H.
  - cbn in H. discriminate.
  - cbn [existsb] in H. cbn [conv_modules].
    destruct (module_faulty m) eqn:Hm.
    + unfold module_faulty in Hm.
      destruct (ms_kind m =? 0); [cbn in Hm; discriminate|].
      destruct (ms_kind m =? 2).
      * destruct (ms_fault m =? 0) eqn:F0; [cbn in Hm; discriminate|].
        rewrite (bindM_err _ _ _ _ w (ext w [mkEv 5 i j (cstate (w_file w))]) (ms_fault m))
          by (rewrite hook_eq, F0; reflexivity).
        eexists. reflexivity.
      * eexists. reflexivity.
    + cbn [orb] in H. destruct (module_faulty_false m Hm) as [K0 | [K0 [K2 F0]]]; rewrite K0.
      * apply IH. exact H.
      * rewrite K2.
        rewrite (bindM_ok _ _ _ _ w (ext w [mkEv 5 i j (cstate (w_file w))]) tt)
          by (rewrite hook_eq, F0; reflexivity).
        destruct (IH i (j + 1) (ext w [mkEv 5 i j (cstate (w_file w))]) H) as [k Hk].
        destruct (conv_modules i (j + 1) rest (ext w [mkEv 5 i j (cstate (w_file w))])) as [w2 [a|k2]] eqn:E;
          cbn [snd] in Hk; [discriminate|].
        rewrite (bindM_err _ _ _ _ _ _ _ E). eexists. reflexivity.
Qed.

Lemma conv_records_err : forall records results i w, stage1_fails records results = true ->
  exists k, snd (conv_records i results records w) = Err k.
Proof.
  induction records as [|r rest IH]; intros results i w H.
  - unfold stage1_fails in H. cbn in H. destruct results; cbn in H; discriminate.
  - destruct results as [|ms results'].
    + cbn. eexists. reflexivity.
    + rewrite stage1_cons in H. cbn [conv_records].
      destruct (r_f1 r =? 0) eqn:F1;
        [rewrite (bindM_ok _ _ _ _ w _ tt) by (rewrite hook_eq, F1; reflexivity)
        |rewrite (bindM_err _ _ _ _ w _ (r_f1 r)) by (rewrite hook_eq, F1; reflexivity); eexists; reflexivity].
      destruct (r_f2 r =? 0) eqn:F2;
        [rewrite (bindM_ok _ _ _ _ _ _ tt) by (rewrite hook_eq, F2; reflexivity)
        |rewrite (bindM_err _ _ _ _ _ _ (r_f2 r)) by (rewrite hook_eq, F2; reflexivity); eexists; reflexivity].
      destruct (r_f3 r =? 0) eqn:F3;
        [rewrite (bindM_ok _ _ _ _ _ _ tt) by (rewrite hook_eq, F3; reflexivity)
        |rewrite (bindM_err _ _ _ _ _ _ (r_f3 r)) by (rewrite hook_eq, F3; reflexivity); eexists; reflexivity].
      destruct (r_f4 r =? 0) eqn:F4;
        [rewrite (bindM_ok _ _ _ _ _ _ tt) by (rewrite hook_eq, F4; reflexivity)
        |rewrite (bindM_err _ _ _ _ _ _ (r_f4 r)) by (rewrite hook_eq, F4; reflexivity); eexists; reflexivity].
      assert (Hr : record_faulty r = false) by (unfold record_faulty; rewrite F1, F2, F3, F4; reflexivity).
      rewrite Hr in H. cbn [orb] in H.
      destruct (truth_fails ms) eqn:Ht.
      { match goal with |- context [bindM (probe_truth ms) ?f ?w0] =>
          destruct (probe_truth_err ms w0 Ht) as [k Hk]; rewrite (bindM_err _ _ _ _ _ _ _ Hk) end.
        eexists. reflexivity. }
      cbn [orb] in H. rewrite (bindM_ok _ _ _ _ _ _ tt (probe_truth_ok ms _ Ht)).
      destruct (existsb module_faulty ms) eqn:Hm.
      * match goal with |- context [bindM (conv_modules i 0 ms) ?f ?w0] =>
          destruct (conv_modules_err ms i 0 w0 Hm) as [k Hk];
          destruct (conv_modules i 0 ms w0) as [w2 [a|k2]] eqn:E; cbn [snd] in Hk; [discriminate|];
          rewrite (bindM_err _ _ _ _ _ _ _ E) end.
        eexists. reflexivity.
      * cbn [orb] in H.
        rewrite (bindM_ok _ _ _ _ _ _ _ (conv_modules_ok ms i 0 _ Hm)).
        match goal with |- context [bindM (conv_records (i + 1) results' rest) ?f ?w0] =>
          destruct (IH results' (i + 1) w0 H) as [k Hk];
          destruct (conv_records (i + 1) results' rest w0) as [w2 [a|k2]] eqn:E; cbn [snd] in Hk; [discriminate|];
          rewrite (bindM_err _ _ _ _ _ _ _ E) end.
        eexists. reflexivity.
Qed.

Lemma dumps_value_result : forall c i j late w,
  snd (dumps_value c i j late w) = if late_faulty late then Err E_Type else Ok tt.
Proof. intros. rewrite dumps_value_eq. reflexivity. Qed.

Lemma dumps_modules_err : forall ms i w, existsb (fun m => late_faulty (mj_late m)) ms = true ->
  snd (dumps_modules i ms w) = Err E_Type.
Proof.
  induction ms as [|m rest IH]; intros i w H.
  - cbn in H. discriminate.
  - cbn [existsb] in H. cbn [dumps_modules].
    destruct (late_faulty (mj_late m)) eqn:Hm.
    + erewrite bindM_err; [reflexivity|]. rewrite dumps_value_eq, Hm. reflexivity.
    + cbn [orb] in H. erewrite bindM_ok; [apply IH; exact H|]. rewrite dumps_value_eq, Hm. reflexivity.
Qed.

Lemma dumps_records_err : forall d i w, data_late_faulty d = true ->
  snd (dumps_records i d w) = Err E_Type.
Proof.
  induction d as [|[o ms] rest IH]; intros i w H.
  - cbn in H. discriminate.
  - unfold data_late_faulty in H. cbn [existsb snd] in H. cbn [dumps_records].
    destruct (existsb (fun m => late_faulty (mj_late m)) ms) eqn:Hm.
    + pose proof (dumps_modules_err ms i w Hm) as E.
      destruct (dumps_modules i ms w) as [w2 [a|k2]] eqn:E2; cbn [snd] in E; [discriminate|].
      rewrite (bindM_err _ _ _ _ _ _ _ E2). cbn [snd]. exact E.
    + cbn [orb] in H. rewrite (bindM_ok _ _ _ _ _ _ _ (dumps_modules_ok ms i w Hm)).
      apply IH. exact H.
Qed.

(* the late faults of the converted data are those of the plan *)
Lemma expected_modules_late : forall ms j, existsb module_faulty ms = false ->
  existsb (fun m => late_faulty (mj_late m)) (expected_modules j ms) = existsb module_late_faulty ms.
Proof.
  induction ms as [|m rest IH]; intros j H.
  - reflexivity.
  - cbn [existsb] in H. apply orb_false_iff in H. destruct H as [Hm Hrest].
    cbn [expected_modules existsb]. unfold module_late_faulty at 1.
    destruct (module_faulty_false m Hm) as [K0 | [K0 [K2 F0]]]; rewrite K0.
    + assert (K2 : ms_kind m =? 2 = false) by lia. rewrite K2. cbn [andb orb]. apply IH. exact Hrest.
    + rewrite K2. cbn [existsb mj_late andb]. rewrite (IH (j + 1) Hrest). reflexivity.
Qed.

Lemma expected_data_late : forall records results, stage1_fails records results = false ->
  data_late_faulty (expected_data records results) = stage2_fails records results.
Proof.
  induction records as [|r rest IH]; intros results H.
  - reflexivity.
  - destruct results as [|ms results'].
    + reflexivity.
    + rewrite stage1_cons in H. apply orb_false_iff in H. destruct H as [H1 Hrest].
      apply orb_false_iff in H1. destruct H1 as [Hr Hm].
      unfold data_late_faulty, stage2_fails, expected_data. cbn [combine map existsb fst snd].
      rewrite (expected_modules_late ms 0 Hm). f_equal. apply IH. exact Hrest.
Qed.

(* ====================================================================== convert_all *)

Lemma convert_all_ok : forall records results tl w, conversion_fails records results tl = false ->
  convert_all records results tl w =
  (ext w (all_conversions (cstate (w_file w)) records results tl), Ok (expected_data records results)).
Proof.
  intros records results tl w H. unfold conversion_fails in H.
  apply orb_false_iff in H. destruct H as [H12 H3].
  apply orb_false_iff in H12. destruct H12 as [H1 H2].
  unfold convert_all, all_conversions.
  rewrite (bindM_ok _ _ _ _ _ _ _ (conv_records_ok records results 0 w H1)).
  rewrite <- (expected_data_late records results H1) in H2.
  rewrite (bindM_ok _ _ _ _ _ _ _ (dumps_records_ok _ 0 _ H2)).
  assert (E : forall w0, dumps_value 7 0 0 tl w0 = (ext w0 (late_event (cstate (w_file w0)) 7 0 0 tl), Ok tt)).
  { intros w0. rewrite dumps_value_eq, H3. unfold late_event. unfold late_faulty in H3.
    destruct (tl =? 0) eqn:E0.
    - assert (E1 : tl =? 1 = false) by lia. rewrite E1. reflexivity.
    - destruct (tl =? 1) eqn:E1; [|cbn in H3; discriminate].
      assert (E2 : tl =? 2 = false) by lia. rewrite E2. reflexivity. }
  rewrite (bindM_ok _ _ _ _ _ _ _ (E _)). unfold ret. rewrite !ext_ext, !ext_file. reflexivity.
Qed.

Lemma convert_all_err : forall records results tl w, conversion_fails records results tl = true ->
  exists k, snd (convert_all records results tl w) = Err k.
Proof.
  intros records results tl w H. unfold conversion_fails in H. unfold convert_all.
  destruct (stage1_fails records results) eqn:H1.
  - destruct (conv_records_err records results 0 w H1) as [k Hk].
    destruct (conv_records 0 results records w) as [w2 [a|k2]] eqn:E; cbn [snd] in Hk; [discriminate|].
    rewrite (bindM_err _ _ _ _ _ _ _ E). eexists. reflexivity.
  - cbn [orb] in H. rewrite (bindM_ok _ _ _ _ _ _ _ (conv_records_ok records results 0 w H1)).
    rewrite <- (expected_data_late records results H1) in H.
    destruct (data_late_faulty (expected_data records results)) eqn:H2.
    + match goal with |- context [bindM (dumps_records 0 ?d) ?f ?w0] =>
        pose proof (dumps_records_err d 0 w0 H2) as Hk;
        destruct (dumps_records 0 d w0) as [w2 [a|k2]] eqn:E; cbn [snd] in Hk; [discriminate|];
        rewrite (bindM_err _ _ _ _ _ _ _ E) end.
      eexists. reflexivity.
    + cbn [orb] in H. rewrite (bindM_ok _ _ _ _ _ _ _ (dumps_records_ok _ 0 _ H2)).
      erewrite bindM_err; [eexists; reflexivity|]. rewrite dumps_value_eq, H. reflexivity.
Qed.

(* ====================================================================== write_to_file *)

Lemma open_and_write_eq : forall hk d w,
  open_and_write hk d w =
  if hk =? 3 then (w, Err E_Other)
  else if hk =? 5 then (mkW CEmpty (w_log w)
                            (w_trace w ++ [mkEv EV_OPEN 0 0 (cstate (w_file w)); mkEv EV_WRITE 0 0 2]), Err E_Other)
  else (mkW (CNew d) (w_log w)
            (w_trace w ++ (if is_path hk then [mkEv EV_OPEN 0 0 (cstate (w_file w)); mkEv EV_WRITE 0 0 2]
                           else [mkEv EV_WRITE 0 0 (cstate (w_file w))])), Ok tt).
Proof.
  intros hk d w. unfold open_and_write, bindM, is_path.
  destruct (hk =? 3) eqn:H3.
  - assert (H0 : hk =? 0 = false) by lia. assert (H1 : hk =? 1 = false) by lia.
    rewrite H0, H1. cbn [orb]. unfold open_w. rewrite H3. reflexivity.
  - rewrite orb_false_r. destruct (hk =? 5) eqn:H5.
    + rewrite orb_true_r. unfold open_w. rewrite H3. unfold write_text. rewrite H5.
      cbn [w_file w_log w_trace cstate]. rewrite <- app_assoc. reflexivity.
    + rewrite orb_false_r. destruct ((hk =? 0) || (hk =? 1)) eqn:H01.
      * unfold open_w. rewrite H3. unfold write_text. rewrite H5. cbn [w_file w_log w_trace cstate].
        rewrite <- app_assoc. reflexivity.
      * unfold ret, write_text. rewrite H5. reflexivity.
Qed.

(* the main statement: any conversion fault, anywhere, leaves the target as it was and is reported;
   without a fault the target holds the converted text *)
Lemma write_atomic : forall records results tl hk w w' r,
  write_to_file records results tl hk w = (w', r) ->
  (conversion_fails records results tl = true ->
     w_file w' = w_file w /\
     exists k, r = Err k /\ (k = E_Type -> w_log w' = w_log w + 1) /\ (k <> E_Type -> w_log w' = w_log w)) /\
  (conversion_fails records results tl = false ->
     (hk <> 3 -> hk <> 5 -> r = Ok tt /\ w_file w' = CNew (expected_data records results)) /\
     (hk = 3 -> r = Err E_Other /\ w_file w' = w_file w) /\
     (hk = 5 -> r = Err E_Other /\ w_file w' = CEmpty)).
Proof.
  intros records results tl hk w w' r H. unfold write_to_file in H. split; intros Hf.
  - destruct (convert_all_err records results tl w Hf) as [k Hk].
    destruct (conv_like_convert_all records results tl w) as [evs [Hw _]].
    destruct (convert_all records results tl w) as [w1 [a|k1]] eqn:E; cbn [snd fst] in Hk, Hw; [discriminate|].
    subst w1. destruct (k1 =? E_Type) eqn:Hk1; inversion H; subst w' r; cbn [log_error w_file w_log ext].
    + split; [reflexivity|]. exists E_Type. split; [reflexivity|]. split; [reflexivity|]. intros C. contradiction.
    + split; [reflexivity|]. exists k1. split; [reflexivity|]. split; [intros C; lia | reflexivity].
  - rewrite (convert_all_ok records results tl w Hf) in H. rewrite open_and_write_eq in H.
    destruct (hk =? 3) eqn:H3; [|destruct (hk =? 5) eqn:H5]; inversion H; subst w' r;
      (split; [intros C1 C2; try lia; split; reflexivity|]);
      (split; [intros C; try lia; split; reflexivity|]); intros C; try lia; split; reflexivity.
Qed.

(* the trace: every conversion event saw the untouched target and precedes open/write; when the target
   is opened or written, every conversion of the plan has already happened *)
Lemma write_trace : forall records results tl hk w w' r,
  write_to_file records results tl hk w = (w', r) ->
  exists convs io,
    w_trace w' = w_trace w ++ convs ++ io /\
    Forall (conv_ev (cstate (w_file w))) convs /\
    Forall io_ev io /\
    (io <> [] -> conversion_fails records results tl = false /\
                 convs = all_conversions (cstate (w_file w)) records results tl /\ (hk <> 5 -> r = Ok tt)).
Proof.
  intros records results tl hk w w' r H. unfold write_to_file in H.
  destruct (conversion_fails records results tl) eqn:Hf.
  - destruct (convert_all_err records results tl w Hf) as [k Hk].
    destruct (conv_like_convert_all records results tl w) as [evs [Hw Fe]].
    destruct (convert_all records results tl w) as [w1 [a|k1]] eqn:E; cbn [snd fst] in Hk, Hw; [discriminate|].
    subst w1. exists evs, []. rewrite app_nil_r.
    destruct (k1 =? E_Type); inversion H; subst w' r; cbn [log_error w_trace ext];
      (split; [reflexivity|]; split; [exact Fe|]; split; [constructor|]; intros C; contradiction).
  - destruct (conv_like_convert_all records results tl w) as [evs [Hw Fe]].
    rewrite (convert_all_ok records results tl w Hf) in H, Hw. cbn [fst] in Hw.
    assert (Hevs : evs = all_conversions (cstate (w_file w)) records results tl).
    { unfold ext in Hw. inversion Hw as [Ht]. apply app_inv_head in Ht. symmetry. exact Ht. }
    subst evs. rewrite open_and_write_eq in H.
    exists (all_conversions (cstate (w_file w)) records results tl).
    destruct (hk =? 3).
    + exists []. inversion H; subst w' r. cbn [ext w_trace]. rewrite app_nil_r.
      split; [reflexivity|]. split; [exact Fe|]. split; [constructor|]. intros C; contradiction.
    + destruct (hk =? 5) eqn:H5.
      * inversion H; subst w' r. cbn [ext w_trace w_file w_log]. rewrite <- app_assoc.
        eexists. split; [reflexivity|]. split; [exact Fe|]. split.
        -- constructor; [left; reflexivity|]. constructor; [right; reflexivity|]. constructor.
        -- intros _. split; [reflexivity|]. split; [reflexivity|]. intros C. lia.
      * inversion H; subst w' r. cbn [ext w_trace w_file w_log]. rewrite <- app_assoc.
        eexists. split; [reflexivity|]. split; [exact Fe|]. split.
        -- destruct (is_path hk).
           ++ constructor; [left; reflexivity|]. constructor; [right; reflexivity|]. constructor.
           ++ constructor; [right; reflexivity|]. constructor.
        -- intros _. auto.
Qed.

(* ====================================================================== dump_records *)

Lemma dump_atomic : forall records results hk w w' r,
  dump_records records results hk w = (w', r) ->
  (conversion_fails_dump records results hk = true -> w_file w' = w_file w /\ exists k, r = Err k) /\
  (conversion_fails_dump records results hk = false ->
     (hk = 4 -> r = Ok (expected_data records results) /\ w_file w' = w_file w) /\
     (hk = 3 -> r = Err E_Other /\ w_file w' = w_file w) /\
     (hk = 5 -> r = Err E_Other /\ w_file w' = CEmpty) /\
     (hk <> 3 -> hk <> 4 -> hk <> 5 ->
        r = Ok (expected_data records results) /\ w_file w' = CNew (expected_data records results))).
Proof.
  intros records results hk w w' r H. unfold dump_records in H. unfold conversion_fails_dump.
  destruct (stage1_fails records results) eqn:H1.
  - cbn [orb]. split; [intros _|intros C; discriminate].
    destruct (conv_records_err records results 0 w H1) as [k Hk].
    destruct (conv_like_conv_records records results 0 w) as [evs [Hw _]].
    destruct (conv_records 0 results records w) as [w1 [a|k1]] eqn:E; cbn [snd fst] in Hk, Hw; [discriminate|].
    inversion H; subst w' r w1. split; [reflexivity|]. eexists; reflexivity.
  - cbn [orb]. rewrite (conv_records_ok records results 0 w H1) in H.
    destruct (hk =? 4) eqn:H4.
    + cbn [negb andb]. inversion H; subst w' r. split; [intros C; discriminate|]. intros _.
      split; [intros _; split; reflexivity|]. split; [intros; lia|]. split; intros; lia.
    + cbn [negb andb]. rewrite <- (expected_data_late records results H1).
      destruct (data_late_faulty (expected_data records results)) eqn:H2.
      * split; [intros _|intros C; discriminate].
        match type of H with context [dumps_records 0 ?d ?w0] =>
          pose proof (dumps_records_err d 0 w0 H2) as Hk;
          destruct (conv_like_dumps_records d 0 w0) as [evs [Hw _]];
          destruct (dumps_records 0 d w0) as [w2 [a|k2]] eqn:E; cbn [snd fst] in Hk, Hw; [discriminate|] end.
        subst w2. destruct (k2 =? E_Type); inversion H; subst w' r;
          (split; [reflexivity|eexists; reflexivity]).
      * split; [intros C; discriminate|]. intros _.
        rewrite (dumps_records_ok _ 0 _ H2) in H.
        unfold bindM in H. rewrite open_and_write_eq in H.
        destruct (hk =? 3) eqn:H3; [|destruct (hk =? 5) eqn:H5].
        -- inversion H; subst w' r.
           split; [intros; lia|]. split; [intros _; split; reflexivity|]. split; intros; lia.
        -- inversion H; subst w' r.
           split; [intros; lia|]. split; [intros; lia|]. split; [intros _; split; reflexivity|]. intros; lia.
        -- unfold ret in H. inversion H; subst w' r.
           split; [intros; lia|]. split; [intros; lia|]. split; [intros; lia|]. intros _ _ _. split; reflexivity.
Qed.

(* ====================================================================== the output directory *)

Lemma apath_eqb_eq : forall a b, apath_eqb a b = true <-> a = b.
Proof.
  intros [d1 b1] [d2 b2]. unfold apath_eqb. cbn [p_dir p_base]. split; intros H.
  - apply andb_true_iff in H. destruct H as [H1 H2]. f_equal; lia.
  - inversion H; subst. apply andb_true_iff. split; lia.
Qed.

(* what the code treats as foreign is what the property calls foreign: the input directory and the very path
   given with --logfile are exempted, nothing else - whatever the current directory is *)
Lemma ignore_is_foreign : forall v e, ignore_patterns v e = foreign v e.
Proof.
  intros v e. unfold ignore_patterns, foreign, is_logfile.
  destruct (en_input e && en_isdir e); destruct (lg_given v && apath_eqb (entry_path e) (lg_path v)); reflexivity.
Qed.

(* the exemption is exact: an entry escapes the emptiness test iff it is the input directory or a log file
   was asked for and its absolute path is the absolute path of config.logfile *)
Lemma ignore_exact : forall v e,
  ignore_patterns v e = false <->
  (en_input e = true /\ en_isdir e = true) \/ (lg_given v = true /\ entry_path e = lg_path v).
Proof.
  intros v e. unfold ignore_patterns. split.
  - destruct (en_input e && en_isdir e) eqn:I.
    + intros _. left. apply andb_true_iff. exact I.
    + destruct (lg_given v && apath_eqb (entry_path e) (lg_path v)) eqn:X; [|discriminate].
      intros _. right. apply andb_true_iff in X. destruct X as [G X]. split; [exact G|].
      apply apath_eqb_eq. exact X.
  - intros [[A B]|[G A]].
    + rewrite A, B. reflexivity.
    + destruct (en_input e && en_isdir e); [reflexivity|].
      apply apath_eqb_eq in A. rewrite G, A. reflexivity.
Qed.

(* without --logfile nothing but the input directory is exempted: wherever the current directory is *)
Lemma nolog_foreign : forall v e,
  lg_given v = false ->
  foreign v e = negb (en_input e && en_isdir e) /\ ignore_patterns v e = negb (en_input e && en_isdir e).
Proof.
  intros v e G. split.
  - unfold foreign, is_logfile. rewrite G. cbn [andb]. rewrite orb_false_r. reflexivity.
  - unfold ignore_patterns. rewrite G. cbn [andb]. destruct (en_input e && en_isdir e); reflexivity.
Qed.

(* a log file that does not lie directly in the output directory exempts nothing: whatever the names *)
Lemma log_elsewhere_foreign : forall v e,
  lg_given v = true -> p_dir (lg_path v) <> 0 ->
  foreign v e = negb (en_input e && en_isdir e) /\ ignore_patterns v e = negb (en_input e && en_isdir e).
Proof.
  intros v e G D.
  assert (X : apath_eqb (entry_path e) (lg_path v) = false).
  { unfold apath_eqb, entry_path. cbn [p_dir p_base]. apply andb_false_iff. left. lia. }
  split.
  - unfold foreign, is_logfile. rewrite G, X. cbn [andb]. rewrite orb_false_r. reflexivity.
  - unfold ignore_patterns. rewrite G, X. destruct (en_input e && en_isdir e); reflexivity.
Qed.

Lemma filter_all : forall A (f : A -> bool) l, forallb f l = true -> filter f l = l.
Proof.
  induction l as [|x xs IH]; intros H; [reflexivity|].
  cbn in H. apply andb_true_iff in H. destruct H as [Hx Hxs]. cbn. rewrite Hx, (IH Hxs). reflexivity.
Qed.

Lemma existsb_filter_nonempty : forall A (f : A -> bool) l, existsb f l = true -> filter f l <> [].
Proof.
  induction l as [|x xs IH]; intros H; [discriminate|].
  cbn in H. cbn. destruct (f x); [discriminate|]. apply IH. exact H.
Qed.

Lemma existsb_filter_empty : forall A (f : A -> bool) l, existsb f l = false -> filter f l = [].
Proof.
  induction l as [|x xs IH]; intros H; [reflexivity|].
  cbn in H. apply orb_false_iff in H. destruct H as [Hx Hxs]. cbn. rewrite Hx. apply IH. exact Hxs.
Qed.

Lemma filter_ext_eq : forall A (f g : A -> bool) l, (forall x, f x = g x) -> filter f l = filter g l.
Proof. intros A f g l H. induction l as [|x xs IH]; [reflexivity|]. cbn. rewrite H, IH. reflexivity. Qed.

(* prepare_output_directory with its refusal test (_refusal_reason) written out *)
Lemma prepare_unfold : forall v kind reuse dmeta entries,
  prepare_output_directory v kind reuse dmeta entries =
  if kind =? 0 then (Ok tt, 1, [])
  else if negb (kind =? 1) then (Err E_Input, kind, entries)
  else if negb reuse && negb (match filter (ignore_patterns v) (list_dir dmeta entries) with [] => true | _ => false end)
  then (Err E_Input, kind, entries)
  else let '(r, es) := remove_all (glob_region dmeta entries) entries in (r, kind, es).
Proof.
  intros. unfold prepare_output_directory, refusal_reason.
  destruct (kind =? 0); [reflexivity|]. destruct (negb (kind =? 1)); reflexivity.
Qed.

(* refusal: fresh input, existing directory with a foreign entry - hidden or not, whatever the directory is
   called, whatever the current directory is *)
Lemma refuse_fresh : forall v dmeta entries,
  existsb (foreign v) entries = true ->
  prepare_output_directory v 1 false dmeta entries = (Err E_Input, 1, entries).
Proof.
  intros v dmeta entries F.
  rewrite prepare_unfold. unfold list_dir. cbn [Z.eqb negb andb].
  rewrite (filter_ext_eq _ _ (foreign v) entries (ignore_is_foreign v)).
  pose proof (existsb_filter_nonempty _ _ _ F) as NE.
  destruct (filter (foreign v) entries); [contradiction|]. reflexivity.
Qed.

(* the clause the log-file exemption must not weaken: the log file lives elsewhere (not directly in the
   output directory) and some entry is not the input directory - refused, whatever the entry is called *)
Lemma refuse_log_elsewhere : forall v dmeta entries,
  lg_given v = true -> p_dir (lg_path v) <> 0 ->
  existsb (fun e => negb (en_input e && en_isdir e)) entries = true ->
  prepare_output_directory v 1 false dmeta entries = (Err E_Input, 1, entries).
Proof.
  intros v dmeta entries G D F. apply refuse_fresh.
  apply existsb_exists in F. destruct F as [e [He Fe]]. apply existsb_exists. exists e. split; [exact He|].
  rewrite (proj1 (log_elsewhere_foreign v e G D)). exact Fe.
Qed.

(* the three repaired classes (formerly C20_refuse_*_refuted), now positive: (a) a foreign entry whose name
   starts with a dot ... *)
Lemma refuse_hidden : forall v dmeta entries e,
  In e entries -> en_visible e = false -> foreign v e = true ->
  prepare_output_directory v 1 false dmeta entries = (Err E_Input, 1, entries).
Proof.
  intros v dmeta entries e He _ Fe. apply refuse_fresh. apply existsb_exists. exists e. split; assumption.
Qed.

(* ... (b) a directory whose name contains glob metacharacters: refused like any other on a fresh run, and in
   every mode the outcome is that of the same directory under a plain name (in reuse mode the stale region
   files are removed) ... *)
Lemma globname_irrelevant : forall v kind reuse dmeta entries,
  prepare_output_directory v kind reuse dmeta entries = prepare_output_directory v kind reuse false entries.
Proof. intros. reflexivity. Qed.

Lemma refuse_globname : forall v entries,
  existsb (foreign v) entries = true ->
  prepare_output_directory v 1 false true entries = (Err E_Input, 1, entries).
Proof. intros v entries F. apply refuse_fresh. exact F. Qed.

(* ... (c) no --logfile: every entry other than the input directory makes the run refuse, also the entry
   that is the current directory *)
Lemma refuse_nolog : forall v dmeta entries,
  lg_given v = false ->
  existsb (fun e => negb (en_input e && en_isdir e)) entries = true ->
  prepare_output_directory v 1 false dmeta entries = (Err E_Input, 1, entries).
Proof.
  intros v dmeta entries G F. apply refuse_fresh.
  apply existsb_exists in F. destruct F as [e [He Fe]]. apply existsb_exists. exists e. split; [exact He|].
  rewrite (proj1 (nolog_foreign v e G)). exact Fe.
Qed.

(* the current directory plays no part at all *)
Lemma cwd_irrelevant : forall g lp c1 c2 kind reuse dmeta entries,
  prepare_output_directory (mkEnv g lp c1) kind reuse dmeta entries =
  prepare_output_directory (mkEnv g lp c2) kind reuse dmeta entries.
Proof. intros. reflexivity. Qed.

Lemma remove_all_subset : forall targets entries r es,
  remove_all targets entries = (r, es) -> forall e, In e es -> In e entries.
Proof.
  induction targets as [|t rest IH]; intros entries r es H e He.
  - cbn in H. inversion H; subst. exact He.
  - cbn [remove_all] in H. destruct (en_isdir t).
    + inversion H; subst. exact He.
    + apply (IH _ _ _ H) in He. apply filter_In in He. tauto.
Qed.

Lemma remove_all_keeps : forall targets entries r es,
  remove_all targets entries = (r, es) ->
  forall e, In e entries -> (forall t, In t targets -> en_id t <> en_id e) -> In e es.
Proof.
  induction targets as [|t rest IH]; intros entries r es H e He Hn.
  - cbn in H. inversion H; subst. exact He.
  - cbn [remove_all] in H. destruct (en_isdir t).
    + inversion H; subst. exact He.
    + apply (IH _ _ _ H).
      * apply filter_In. split; [exact He|].
        assert (en_id t <> en_id e) by (apply Hn; left; reflexivity). lia.
      * intros t' Ht'. apply Hn. right. exact Ht'.
Qed.

Lemma filter_step : forall t rest es,
  filter (fun e => negb (existsb (fun t0 => en_id t0 =? en_id e) rest))
         (filter (fun e => negb (en_id e =? en_id t)) es) =
  filter (fun e => negb ((en_id t =? en_id e) || existsb (fun t0 => en_id t0 =? en_id e) rest)) es.
Proof.
  intros t rest es. induction es as [|e es IHe]; [reflexivity|].
  cbn [filter]. destruct (en_id e =? en_id t) eqn:E'.
  - assert (E : en_id t =? en_id e = true) by lia. rewrite E. cbn [negb orb]. exact IHe.
  - assert (E : en_id t =? en_id e = false) by lia. rewrite E. cbn [negb orb filter].
    destruct (negb (existsb (fun t0 => en_id t0 =? en_id e) rest)); [rewrite IHe; reflexivity | exact IHe].
Qed.

Lemma remove_all_files : forall targets entries,
  forallb (fun t => negb (en_isdir t)) targets = true ->
  remove_all targets entries =
  (Ok tt, filter (fun e => negb (existsb (fun t => en_id t =? en_id e) targets)) entries).
Proof.
  induction targets as [|t rest IH]; intros entries H.
  - cbn. rewrite filter_all; [reflexivity|]. apply forallb_forall. reflexivity.
  - cbn [forallb] in H. apply andb_true_iff in H. destruct H as [Ht Hrest].
    cbn [remove_all]. destruct (en_isdir t); [discriminate|].
    rewrite (IH _ Hrest). f_equal. cbn [existsb]. apply filter_step.
Qed.

Lemma NoDup_ids_eq : forall entries a b,
  NoDup (ids entries) -> In a entries -> In b entries -> en_id a = en_id b -> a = b.
Proof.
  induction entries as [|x xs IH]; intros a b N Ha Hb E; [contradiction|].
  cbn in N. inversion N as [|? ? Nx Nxs]; subst.
  destruct Ha as [Ha|Ha]; destruct Hb as [Hb|Hb]; subst.
  - reflexivity.
  - exfalso. apply Nx. rewrite E. apply in_map. exact Hb.
  - exfalso. apply Nx. rewrite <- E. apply in_map. exact Ha.
  - apply IH; assumption.
Qed.

(* whatever the mode and the outcome: nothing is added, and only entries that glob "*.region???.gbk"
   matches can disappear *)
Lemma prepare_only_removes_region : forall v reuse dmeta entries r k' es,
  NoDup (ids entries) ->
  prepare_output_directory v 1 reuse dmeta entries = (r, k', es) ->
  k' = 1 /\ (forall e, In e es -> In e entries) /\
  (forall e, In e entries -> (en_visible e && en_region e) = false -> In e es).
Proof.
  intros v reuse dmeta entries r k' es N H. rewrite prepare_unfold in H.
  change (1 =? 0) with false in H. change (1 =? 1) with true in H. cbn [negb] in H. cbv iota in H.
  destruct (remove_all (glob_region dmeta entries) entries) as [r0 es0] eqn:R.
  revert H. match goal with |- (if ?c then _ else _) = _ -> _ => destruct c end; intros H.
  - inversion H; subst. split; [reflexivity|]. split; auto.
  - inversion H; subst. split; [reflexivity|]. split.
    + apply (remove_all_subset _ _ _ _ R).
    + intros e He Hnr. apply (remove_all_keeps _ _ _ _ R e He).
      intros t Ht Eid. unfold glob_region in Ht.
      apply filter_In in Ht. destruct Ht as [Ht1 Ht2].
      assert (t = e) by (apply (NoDup_ids_eq entries); assumption). subst t.
      rewrite Ht2 in Hnr. discriminate.
Qed.

(* accepted directory (reuse mode, or nothing foreign) without a directory named like a region file:
   exactly the visible *.region???.gbk entries are removed *)
Lemma prepare_accept : forall v reuse dmeta entries,
  NoDup (ids entries) ->
  forallb en_visible entries = true ->
  (reuse = true \/ existsb (foreign v) entries = false) ->
  forallb (fun e => negb (en_region e && en_isdir e)) entries = true ->
  prepare_output_directory v 1 reuse dmeta entries =
  (Ok tt, 1, filter (fun e => negb (en_region e)) entries).
Proof.
  intros v reuse dmeta entries N V A D. rewrite prepare_unfold. unfold list_dir, glob_region.
  change (1 =? 0) with false. change (1 =? 1) with true. cbn [negb]. cbv iota.
  assert (C : negb reuse && negb (match filter (ignore_patterns v) entries with [] => true | _ => false end) = false).
  { destruct A as [A|A]; [subst reuse; reflexivity|].
    assert (E : filter (ignore_patterns v) entries = []).
    { apply existsb_filter_empty. destruct (existsb (ignore_patterns v) entries) eqn:X; [|reflexivity].
      apply existsb_exists in X. destruct X as [e [He Ie]].
      assert (Fe : foreign v e = true) by (rewrite <- (ignore_is_foreign v e); exact Ie).
      assert (T : existsb (foreign v) entries = true) by (apply existsb_exists; exists e; split; assumption).
      rewrite T in A. discriminate. }
    rewrite E. destruct reuse; reflexivity. }
  rewrite C.
  assert (T : forallb (fun t => negb (en_isdir t)) (filter (fun e => en_visible e && en_region e) entries) = true).
  { apply forallb_forall. intros t Ht. apply filter_In in Ht. destruct Ht as [Ht1 Ht2].
    rewrite forallb_forall in D. specialize (D t Ht1).
    apply andb_true_iff in Ht2. destruct Ht2 as [_ Ht2]. rewrite Ht2 in D. cbn [andb] in D. exact D. }
  rewrite (remove_all_files _ entries T). cbv iota beta.
  f_equal. apply filter_ext_in. intros e He.
  destruct (en_region e) eqn:Re.
  - cbn [negb]. apply negb_false_iff. apply existsb_exists. exists e. split; [|lia].
    apply filter_In. split; [exact He|]. rewrite forallb_forall in V. rewrite (V e He), Re. reflexivity.
  - cbn [negb]. apply negb_true_iff.
    destruct (existsb (fun t => en_id t =? en_id e) (filter (fun e0 => en_visible e0 && en_region e0) entries)) eqn:X;
      [|reflexivity].
    apply existsb_exists in X. destruct X as [t [Ht Eid]]. apply filter_In in Ht. destruct Ht as [Ht1 Ht2].
    assert (t = e) by (apply (NoDup_ids_eq entries); [assumption|assumption|assumption|lia]). subst t.
    rewrite Re in Ht2. rewrite andb_false_r in Ht2. discriminate.
Qed.

(* env_nolog: no --logfile, current directory somewhere else (used by the examples) *)
Definition env_nolog : env := mkEnv false (mkP 9 0) (mkP 9 99).

(* the other kinds of path *)
Lemma prepare_not_directory : forall v kind reuse dmeta entries,
  (kind = 0 -> prepare_output_directory v kind reuse dmeta entries = (Ok tt, 1, [])) /\ (kind <> 0 -> kind <> 1 -> prepare_output_directory v kind reuse dmeta entries = (Err E_Input, kind, entries)).
Proof.
  intros v kind reuse dmeta entries. rewrite !prepare_unfold. split.
  - intros K. subst kind. reflexivity.
  - intros K0 K1. assert (E0 : kind =? 0 = false) by lia. assert (E1 : kind =? 1 = false) by lia.
    rewrite E0, E1. reflexivity.
Qed.

(* ====================================================================== the pipeline (_run_antismash) *)

(* an event of a stage with code in [lo, hi] that saw the JSON target in state s *)
Definition stage_ev (lo hi s : Z) (e : event) : Prop := lo <= e_code e <= hi /\ e_state e = s.

Definition stage_like {A} (lo hi : Z) (m : M A) : Prop :=
  forall w, exists evs, fst (m w) = ext w evs /\ Forall (stage_ev lo hi (cstate (w_file w))) evs.

Lemma stage_like_ret : forall A lo hi (a : A), stage_like lo hi (ret a).
Proof. intros A lo hi a w. exists []. split; [cbn; rewrite ext_nil; reflexivity | constructor]. Qed.

Lemma stage_like_bind : forall A B lo hi (m : M A) (f : A -> M B),
  stage_like lo hi m -> (forall a, stage_like lo hi (f a)) -> stage_like lo hi (bindM m f).
Proof.
  intros A B lo hi m f Hm Hf w. destruct (Hm w) as [e1 [H1 F1]].
  unfold bindM. destruct (m w) as [w1 [a|k]] eqn:E; cbn [fst] in H1.
  - subst w1. destruct (Hf a (ext w e1)) as [e2 [H2 F2]].
    exists (e1 ++ e2). rewrite H2, ext_ext. split; [reflexivity|].
    apply Forall_app. split; [exact F1 | exact F2].
  - exists e1. split; [exact H1 | exact F1].
Qed.

Lemma stage_like_hook : forall lo hi c i j f, lo <= c <= hi -> stage_like lo hi (hook c i j f).
Proof.
  intros lo hi c i j f Hc w. rewrite hook_eq. eexists. split; [reflexivity|].
  constructor; [|constructor]. split; [exact Hc | reflexivity].
Qed.

Lemma stage_like_emit : forall lo hi c i j, lo <= c <= hi -> stage_like lo hi (emit c i j).
Proof.
  intros lo hi c i j Hc w. exists [mkEv c i j (cstate (w_file w))]. split; [reflexivity|].
  constructor; [|constructor]. split; [exact Hc | reflexivity].
Qed.

Lemma stage_like_run_records : forall rs results i, stage_like 24 26 (run_records i rs results).
Proof.
  induction rs as [|r rs IH]; intros results i; cbn [run_records]; [apply stage_like_ret|].
  destruct results as [|ms results]; [apply stage_like_ret|].
  destruct (rp_skip r); [apply IH|].
  apply stage_like_bind; [apply stage_like_hook; lia|]. intros _.
  destruct (negb (rp_regions r)); [apply IH|].
  apply stage_like_bind; [apply stage_like_hook; lia|]. intros _. apply IH.
Qed.

Lemma stage_like_analysis : forall pl results, stage_like 24 26 (analysis_phase pl results).
Proof.
  intros pl results. unfold analysis_phase.
  apply stage_like_bind; [apply stage_like_hook; lia|]. intros _. apply stage_like_run_records.
Qed.

Lemma stage_like_before : forall pl, stage_like 20 22 (before_prepare pl).
Proof.
  intros pl. unfold before_prepare.
  apply stage_like_bind; [apply stage_like_hook; lia|]. intros _.
  apply stage_like_bind; [apply stage_like_emit; lia|]. intros _.
  destruct (negb (pp_verify pl)); [apply stage_like_ret|].
  apply stage_like_bind; [apply stage_like_hook; lia|]. intros _. apply stage_like_ret.
Qed.

Lemma stage_like_output : forall pl, stage_like 28 30 (output_phase pl).
Proof.
  intros pl. unfold output_phase, ST_ANNOTATE.
  apply stage_like_bind; [apply stage_like_hook; lia|]. intros _.
  apply stage_like_bind; [apply stage_like_hook; lia|]. intros _.
  apply stage_like_bind; [destruct (pp_profile pl); [apply stage_like_emit; lia | apply stage_like_ret]|].
  intros _. apply stage_like_ret.
Qed.

(* the output phase ends in return code 0 or in an exception *)
Lemma output_phase_result : forall pl w w' rc, output_phase pl w = (w', Ok rc) -> rc = 0.
Proof.
  intros pl w w' rc H. unfold output_phase, bindM in H. rewrite hook_eq in H.
  destruct (pp_annotate pl =? 0); [|discriminate]. rewrite hook_eq in H.
  destruct (pp_outputs pl =? 0); [|discriminate].
  destruct (pp_profile pl); cbn in H; inversion H; reflexivity.
Qed.

Lemma Forall_weaken_stage : forall lo hi lo' hi' s evs,
  lo' <= lo -> hi <= hi' -> Forall (stage_ev lo hi s) evs -> Forall (stage_ev lo' hi' s) evs.
Proof.
  intros lo hi lo' hi' s evs Hl Hh F. eapply Forall_impl; [|exact F].
  intros e [Hc Hs]. split; [lia | exact Hs].
Qed.

(* everything after prepare_output_directory: analysis events, then the conversions (all of which see the
   JSON target as it was), then open/write, then annotate_records / write_outputs / profiling - and the last
   group only after the new JSON is in place *)
Lemma after_prepare_trace : forall pl records results hk w w' r,
  after_prepare pl records results hk w = (w', r) ->
  exists mid convs io post,
    w_trace w' = w_trace w ++ mid ++ convs ++ io ++ post /\
    Forall (stage_ev 24 26 (cstate (w_file w))) mid /\
    Forall (conv_ev (cstate (w_file w))) convs /\
    Forall io_ev io /\
    Forall (stage_ev 28 30 3) post /\
    (io <> [] -> conversion_fails records results 0 = false /\
                 convs = all_conversions (cstate (w_file w)) records results 0) /\
    (post <> [] -> conversion_fails records results 0 = false /\ hk <> 3 /\ hk <> 5 /\
                   w_file w' = CNew (expected_data records results)) /\
    (conversion_fails records results 0 = true ->
       w_file w' = w_file w /\ io = [] /\ post = [] /\ exists k, r = Err k) /\
    (forall rc, r = Ok rc -> rc = 0 /\ conversion_fails records results 0 = false /\
                             w_file w' = CNew (expected_data records results)).
Proof.
  intros pl records results hk w w' r H. unfold after_prepare, bindM in H.
  destruct (stage_like_analysis pl results w) as [mid [Hm Fm]].
  destruct (analysis_phase pl results w) as [w1 [[]|k1]] eqn:E1; cbn [fst] in Hm; subst w1.
  2:{ inversion H; subst w' r. exists mid, [], [], []. cbn [ext w_trace w_file]. rewrite !app_nil_r.
      split; [reflexivity|]. split; [exact Fm|]. split; [constructor|]. split; [constructor|].
      split; [constructor|]. split; [intros C; contradiction|]. split; [intros C; contradiction|].
      split; [intros _; split; [reflexivity|]; split; [reflexivity|]; split; [reflexivity|]; eexists; reflexivity|].
      intros rc C. discriminate. }
  destruct (write_to_file records results 0 hk (ext w mid)) as [w2 r2] eqn:E2.
  destruct (write_trace _ _ _ _ _ _ _ E2) as [convs [io [Ht [Fc [Fi Hio]]]]].
  destruct (write_atomic _ _ _ _ _ _ _ E2) as [Hfail Hok].
  cbn [ext w_file w_trace] in Ht, Fc, Hio, Hfail, Hok.
  destruct r2 as [[]|k2].
  - (* the JSON is written *)
    assert (Hcf : conversion_fails records results 0 = false).
    { destruct (conversion_fails records results 0); [|reflexivity].
      destruct (Hfail eq_refl) as [_ [k [C _]]]. discriminate. }
    destruct (Hok Hcf) as [Hn [H3 H5]].
    assert (N3 : hk <> 3) by (intros C; destruct (H3 C) as [C' _]; discriminate).
    assert (N5 : hk <> 5) by (intros C; destruct (H5 C) as [C' _]; discriminate).
    destruct (Hn N3 N5) as [_ Hfile].
    destruct (stage_like_output pl w2) as [post [Hp Fp]]. rewrite Hfile in Fp. cbn [cstate] in Fp.
    destruct (output_phase pl w2) as [w3 r3] eqn:E3. cbn [fst] in Hp. inversion H; subst w' r.
    exists mid, convs, io, post. rewrite Hp. cbn [ext w_trace w_file]. rewrite Ht, Hfile.
    split; [rewrite <- !app_assoc; reflexivity|]. split; [exact Fm|]. split; [exact Fc|]. split; [exact Fi|].
    split; [exact Fp|]. split; [intros C; destruct (Hio C) as [A [B _]]; split; assumption|].
    split; [intros _; repeat split; assumption|].
    split; [intros C; rewrite C in Hcf; discriminate|].
    intros rc C. subst r3. split; [apply (output_phase_result pl w2 w3 rc E3)|]. split; [exact Hcf | reflexivity].
  - (* write_to_file raised *)
    inversion H; subst w' r. exists mid, convs, io, []. rewrite Ht, !app_nil_r.
    split; [rewrite <- !app_assoc; reflexivity|]. split; [exact Fm|]. split; [exact Fc|]. split; [exact Fi|].
    split; [constructor|]. split; [intros C; destruct (Hio C) as [A [B _]]; split; assumption|].
    split; [intros C; contradiction|].
    split.
    + intros C. destruct (Hfail C) as [Hf _]. split; [exact Hf|].
      split; [|split; [reflexivity|eexists; reflexivity]].
      destruct io as [|e io']; [reflexivity|]. exfalso.
      assert (N : e :: io' <> []) by discriminate. destruct (Hio N) as [A _]. rewrite A in C. discriminate.
    + intros rc C. discriminate.
Qed.

(* the whole pipeline.  pre = the stages up to and including prepare_output_directory *)
Lemma run_antismash_trace : forall pl v kind reuse dmeta entries records results hk w w' r kd es,
  run_antismash pl v kind reuse dmeta entries records results hk w = (w', r, kd, es) ->
  exists pre mid convs io post,
    w_trace w' = w_trace w ++ pre ++ mid ++ convs ++ io ++ post /\
    Forall (stage_ev 20 23 (cstate (w_file w))) pre /\
    Forall (stage_ev 24 26 (cstate (w_file w))) mid /\
    Forall (conv_ev (cstate (w_file w))) convs /\
    Forall io_ev io /\
    Forall (stage_ev 28 30 3) post /\
    (mid ++ convs ++ io ++ post <> [] ->
       prepare_output_directory v kind reuse dmeta entries = (Ok tt, kd, es) /\
       exists pre', pre = pre' ++ [mkEv ST_PREPARE 0 0 (cstate (w_file w))]) /\
    (io <> [] -> conversion_fails records results 0 = false /\
                 convs = all_conversions (cstate (w_file w)) records results 0) /\
    (post <> [] -> conversion_fails records results 0 = false /\ hk <> 3 /\ hk <> 5 /\
                   w_file w' = CNew (expected_data records results)) /\
    (conversion_fails records results 0 = true ->
       w_file w' = w_file w /\ io = [] /\ post = [] /\ r <> Ok 0) /\
    (r = Ok 0 -> prepare_output_directory v kind reuse dmeta entries = (Ok tt, kd, es) /\
                 conversion_fails records results 0 = false /\
                 w_file w' = CNew (expected_data records results)).
Proof.
  intros pl v kind reuse dmeta entries records results hk w w' r kd es H. unfold run_antismash in H.
  destruct (stage_like_before pl w) as [pre [Hp Fp]].
  assert (Fp' : Forall (stage_ev 20 23 (cstate (w_file w))) pre)
    by (apply (Forall_weaken_stage 20 22); [lia|lia|exact Fp]).
  assert (Stop : forall r0, (r0 <> Ok 0) -> (w', r, kd, es) = (ext w pre, r0, kind, entries) ->
    exists pre0 mid convs io post,
    w_trace w' = w_trace w ++ pre0 ++ mid ++ convs ++ io ++ post /\
    Forall (stage_ev 20 23 (cstate (w_file w))) pre0 /\ Forall (stage_ev 24 26 (cstate (w_file w))) mid /\
    Forall (conv_ev (cstate (w_file w))) convs /\ Forall io_ev io /\ Forall (stage_ev 28 30 3) post /\
    (mid ++ convs ++ io ++ post <> [] ->
       prepare_output_directory v kind reuse dmeta entries = (Ok tt, kd, es) /\
       exists pre', pre0 = pre' ++ [mkEv ST_PREPARE 0 0 (cstate (w_file w))]) /\
    (io <> [] -> conversion_fails records results 0 = false /\
                 convs = all_conversions (cstate (w_file w)) records results 0) /\
    (post <> [] -> conversion_fails records results 0 = false /\ hk <> 3 /\ hk <> 5 /\
                   w_file w' = CNew (expected_data records results)) /\
    (conversion_fails records results 0 = true -> w_file w' = w_file w /\ io = [] /\ post = [] /\ r <> Ok 0) /\
    (r = Ok 0 -> prepare_output_directory v kind reuse dmeta entries = (Ok tt, kd, es) /\
                 conversion_fails records results 0 = false /\
                 w_file w' = CNew (expected_data records results))).
  { intros r0 N E. inversion E; subst w' r kd es. exists pre, [], [], [], [].
    cbn [ext w_trace w_file app]. rewrite !app_nil_r.
    split; [reflexivity|]. split; [exact Fp'|]. split; [constructor|]. split; [constructor|].
    split; [constructor|]. split; [constructor|]. split; [intros C; contradiction|].
    split; [intros C; contradiction|]. split; [intros C; contradiction|].
    split; [intros _; repeat split; assumption|]. intros C. contradiction. }
  destruct (before_prepare pl w) as [w1 [[|]|k1]] eqn:E1; cbn [fst] in Hp; subst w1.
  - (* prepare_output_directory is reached *)
    cbn [emit fst ext w_file w_log w_trace] in H. rewrite <- app_assoc in H.
    set (pre1 := pre ++ [mkEv ST_PREPARE 0 0 (cstate (w_file w))]) in *.
    assert (F1 : Forall (stage_ev 20 23 (cstate (w_file w))) pre1).
    { apply Forall_app. split; [exact Fp'|]. constructor; [|constructor].
      split; [unfold ST_PREPARE; cbn; lia | reflexivity]. }
    destruct (prepare_output_directory v kind reuse dmeta entries) as [[rp kp] esp] eqn:EP.
    destruct rp as [[]|kerr].
    + destruct (after_prepare pl records results hk (mkW (w_file w) (w_log w) (w_trace w ++ pre1))) as [w3 r3] eqn:EA.
      inversion H; subst w' r kd es.
      destruct (after_prepare_trace _ _ _ _ _ _ _ EA) as [mid [convs [io [post [Ht [Fm [Fc [Fi [Fo [Hio [Hpost [Hfail Hok]]]]]]]]]]]].
      cbn [w_trace w_file] in Ht, Fm, Fc, Hio, Hfail.
      exists pre1, mid, convs, io, post. rewrite Ht.
      split; [rewrite <- !app_assoc; reflexivity|]. split; [exact F1|]. split; [exact Fm|].
      split; [exact Fc|]. split; [exact Fi|]. split; [exact Fo|].
      split; [intros _; split; [reflexivity|exists pre; reflexivity]|].
      split; [exact Hio|]. split; [exact Hpost|].
      split.
      * intros C. destruct (Hfail C) as [A [B [D [k K]]]]. repeat split; try assumption.
        rewrite K. discriminate.
      * intros C. destruct (Hok 0 C) as [_ [A B]]. repeat split; assumption.
    + (* refused *)
      inversion H; subst w' r kd es. exists pre1, [], [], [], [].
      cbn [w_trace w_file app]. rewrite !app_nil_r.
      split; [reflexivity|]. split; [exact F1|]. split; [constructor|]. split; [constructor|].
      split; [constructor|]. split; [constructor|]. split; [intros C; contradiction|].
      split; [intros C; contradiction|]. split; [intros C; contradiction|].
      split; [intros _; repeat split; try reflexivity; discriminate|]. intros C. discriminate.
  - (* verify_options failed: return 1 *)
    apply (Stop (Ok 1)); [discriminate | symmetry; exact H].
  - apply (Stop (Err k1)); [discriminate | symmetry; exact H].
Qed.

(* a refusal by prepare_output_directory ends the run: its exception is the outcome, nothing but the stages
   before it has happened, JSON target and log are as they were, the directory is what
   prepare_output_directory left (= untouched by C20_refuse / C20_not_a_directory) *)
Lemma run_antismash_refused : forall pl v kind reuse dmeta entries records results hk w w' r kd es k kp esp,
  prepare_output_directory v kind reuse dmeta entries = (Err k, kp, esp) ->
  run_antismash pl v kind reuse dmeta entries records results hk w = (w', r, kd, es) ->
  w_file w' = w_file w /\ w_log w' = w_log w /\ r <> Ok 0 /\
  (kd = kp /\ es = esp \/ kd = kind /\ es = entries) /\
  exists pre, w_trace w' = w_trace w ++ pre /\ Forall (stage_ev 20 23 (cstate (w_file w))) pre.
Proof.
  intros pl v kind reuse dmeta entries records results hk w w' r kd es k kp esp EP H.
  unfold run_antismash in H. rewrite EP in H.
  destruct (stage_like_before pl w) as [pre [Hp Fp]].
  assert (Fp' : Forall (stage_ev 20 23 (cstate (w_file w))) pre)
    by (apply (Forall_weaken_stage 20 22); [lia|lia|exact Fp]).
  destruct (before_prepare pl w) as [w1 [[|]|k1]] eqn:E1; cbn [fst] in Hp; subst w1;
    inversion H; subst w' r kd es; cbn [emit fst ext w_file w_log w_trace].
  - split; [reflexivity|]. split; [reflexivity|]. split; [discriminate|]. split; [left; split; reflexivity|].
    exists (pre ++ [mkEv ST_PREPARE 0 0 (cstate (w_file w))]). rewrite app_assoc. split; [reflexivity|].
    apply Forall_app. split; [exact Fp'|]. constructor; [|constructor].
    split; [unfold ST_PREPARE; cbn; lia | reflexivity].
  - split; [reflexivity|]. split; [reflexivity|]. split; [discriminate|]. split; [right; split; reflexivity|].
    exists pre. split; [reflexivity | exact Fp'].
  - split; [reflexivity|]. split; [reflexivity|]. split; [discriminate|]. split; [right; split; reflexivity|].
    exists pre. split; [reflexivity | exact Fp'].
Qed.

(* fresh run, existing directory with foreign content: whatever the plan, the run fails,
   the directory listing, the JSON target and the log are untouched and no stage after
   prepare_output_directory happens *)
Lemma run_antismash_foreign : forall pl v dmeta entries records results hk w w' r kd es,
  existsb (foreign v) entries = true ->
  run_antismash pl v 1 false dmeta entries records results hk w = (w', r, kd, es) ->
  r <> Ok 0 /\ kd = 1 /\ es = entries /\ w_file w' = w_file w /\ w_log w' = w_log w /\
  exists pre, w_trace w' = w_trace w ++ pre /\ Forall (stage_ev 20 23 (cstate (w_file w))) pre.
Proof.
  intros pl v dmeta entries records results hk w w' r kd es F H.
  pose proof (refuse_fresh v dmeta entries F) as EP.
  destruct (run_antismash_refused _ _ _ _ _ _ _ _ _ _ _ _ _ _ _ _ _ EP H) as [A [B [C [D E]]]].
  split; [exact C|]. split; [destruct D as [[D _]|[D _]]; exact D|].
  split; [destruct D as [[_ D]|[_ D]]; exact D|]. split; [exact A|]. split; [exact B | exact E].
Qed.

(* the OS-level failure after truncation (handle kind 5): all conversions succeeded, open truncated the
   file, write raised - the previous results are gone.  The guarantee of the property ends where the
   conversions end. *)
Lemma io_failure_loses_file : forall records results tl w w' r,
  conversion_fails records results tl = false ->
  write_to_file records results tl 5 w = (w', r) ->
  r = Err E_Other /\ w_file w' = CEmpty /\ w_log w' = w_log w.
Proof.
  intros records results tl w w' r Hf H. unfold write_to_file in H.
  rewrite (convert_all_ok records results tl w Hf) in H. rewrite open_and_write_eq in H.
  change (5 =? 3) with false in H. change (5 =? 5) with true in H. cbv iota in H.
  inversion H; subst w' r. repeat split; reflexivity.
Qed.

(* ====================================================================== which results are skipped / written *)

(* the same value with another truthiness *)
Definition set_truth (f : mspec -> Z) (m : mspec) : mspec :=
  mkM (ms_kind m) (ms_fault m) (ms_val m) (ms_late m) (f m) (ms_ret m) (ms_tfault m).
Definition retruth (f : mspec -> Z) (results : list (list mspec)) : list (list mspec) :=
  map (map (set_truth f)) results.

Lemma bindM_ext2 : forall A B (m m' : M A) (f g : A -> M B) w,
  m w = m' w -> (forall a w1, f a w1 = g a w1) -> bindM m f w = bindM m' g w.
Proof.
  intros A B m m' f g w Hm Hf. unfold bindM. rewrite Hm. destruct (m' w) as [w1 [a|k]]; [apply Hf | reflexivity].
Qed.

Lemma probe_truth_set_truth : forall f ms w, probe_truth (map (set_truth f) ms) w = probe_truth ms w.
Proof.
  intros f ms. induction ms as [|m rest IH]; intros w; [reflexivity|].
  cbn [map probe_truth set_truth ms_tfault]. destruct (ms_tfault m =? 0); [apply IH | reflexivity].
Qed.

Lemma conv_modules_set_truth : forall f ms i j w,
  conv_modules i j (map (set_truth f) ms) w = conv_modules i j ms w.
Proof.
  intros f ms. induction ms as [|m rest IH]; intros i j w; [reflexivity|].
  cbn [map conv_modules set_truth ms_kind ms_fault ms_val ms_late ms_ret].
  destruct (ms_kind m =? 0); [apply IH|]. destruct (ms_kind m =? 2); [|reflexivity].
  apply bindM_ext2; [reflexivity|]. intros _ w1.
  apply bindM_ext2; [apply IH|]. intros tl w2. reflexivity.
Qed.

Lemma conv_records_set_truth : forall f records results i w,
  conv_records i (retruth f results) records w = conv_records i results records w.
Proof.
  intros f records. induction records as [|r rest IH]; intros results i w; [reflexivity|].
  destruct results as [|ms results']; [reflexivity|].
  unfold retruth. cbn [map conv_records]. fold (retruth f results').
  apply bindM_ext2; [reflexivity|]. intros _ w1.
  apply bindM_ext2; [reflexivity|]. intros _ w2.
  apply bindM_ext2; [reflexivity|]. intros _ w3.
  apply bindM_ext2; [reflexivity|]. intros _ w4.
  apply bindM_ext2; [apply probe_truth_set_truth|]. intros _ w5.
  apply bindM_ext2; [apply conv_modules_set_truth|]. intros mods w6.
  apply bindM_ext2; [apply IH|]. intros tl w7. reflexivity.
Qed.

(* the truthiness of the values plays no part: neither in what write_to_file does ... *)
Lemma write_truth_irrelevant : forall f records results tl hk w,
  write_to_file records (retruth f results) tl hk w = write_to_file records results tl hk w.
Proof.
  intros f records results tl hk w. unfold write_to_file.
  assert (E : convert_all records (retruth f results) tl w = convert_all records results tl w).
  { unfold convert_all. apply bindM_ext2; [apply conv_records_set_truth|]. intros d w1. reflexivity. }
  rewrite E. reflexivity.
Qed.

(* ... nor in what dump_records does *)
Lemma dump_truth_irrelevant : forall f records results hk w,
  dump_records records (retruth f results) hk w = dump_records records results hk w.
Proof.
  intros f records results hk w. unfold dump_records. rewrite conv_records_set_truth. reflexivity.
Qed.

Lemma run_records_set_truth : forall f rs results i w,
  run_records i rs (retruth f results) w = run_records i rs results w.
Proof.
  intros f rs. induction rs as [|r rs IH]; intros results i w; [destruct results; reflexivity|].
  destruct results as [|ms results']; [reflexivity|].
  unfold retruth. cbn [map run_records]. fold (retruth f results').
  destruct (rp_skip r); [apply IH|].
  apply bindM_ext2; [reflexivity|]. intros _ w1.
  destruct (negb (rp_regions r)); [apply IH|].
  apply bindM_ext2; [reflexivity|]. intros _ w2. apply IH.
Qed.

(* ... nor anywhere in the run *)
Lemma run_truth_irrelevant : forall f pl v kind reuse dmeta entries records results hk w,
  run_antismash pl v kind reuse dmeta entries records (retruth f results) hk w =
  run_antismash pl v kind reuse dmeta entries records results hk w.
Proof.
  intros f pl v kind reuse dmeta entries records results hk w. unfold run_antismash.
  destruct (before_prepare pl w) as [w1 [[|]|k]]; try reflexivity.
  destruct (prepare_output_directory v kind reuse dmeta entries) as [[[u|k] kind'] es]; [|reflexivity].
  assert (E : forall w0, after_prepare pl records (retruth f results) hk w0 = after_prepare pl records results hk w0).
  { intros w0. unfold after_prepare.
    apply bindM_ext2.
    - unfold analysis_phase. apply bindM_ext2; [reflexivity|]. intros _ w2. apply run_records_set_truth.
    - intros _ w2. apply bindM_ext2; [apply write_truth_irrelevant|]. intros _ w3. reflexivity. }
  rewrite E. reflexivity.
Qed.

(* the converted modules of one record: exactly one entry for every value that is not None, keyed by its
   position, carrying what its to_json returned *)
Lemma expected_modules_In : forall ms j0 e,
  In e (expected_modules j0 ms) <->
  exists j m, nth_error ms j = Some m /\ ms_kind m <> 0 /\
              e = mkMJ (j0 + Z.of_nat j) (ms_val m) (ms_late m) (ms_ret m).
Proof.
  induction ms as [|m rest IH]; intros j0 e.
  - cbn. split; [contradiction|]. intros [j [m [H _]]]. destruct j; discriminate.
  - cbn [expected_modules]. destruct (ms_kind m =? 0) eqn:K.
    + rewrite IH. split.
      * intros [j [m' [Hn [Hk He]]]]. exists (S j), m'. split; [exact Hn|]. split; [exact Hk|].
        rewrite He. f_equal. lia.
      * intros [j [m' [Hn [Hk He]]]]. destruct j as [|j].
        -- cbn in Hn. inversion Hn; subst m'. lia.
        -- exists j, m'. split; [exact Hn|]. split; [exact Hk|]. rewrite He. f_equal. lia.
    + cbn [In]. rewrite IH. split.
      * intros [He | [j [m' [Hn [Hk He]]]]].
        -- exists 0%nat, m. split; [reflexivity|]. split; [lia|]. rewrite <- He. f_equal. lia.
        -- exists (S j), m'. split; [exact Hn|]. split; [exact Hk|]. rewrite He. f_equal. lia.
      * intros [j [m' [Hn [Hk He]]]]. destruct j as [|j].
        -- left. cbn in Hn. inversion Hn; subst m'. rewrite He. f_equal. lia.
        -- right. exists j, m'. split; [exact Hn|]. split; [exact Hk|]. rewrite He. f_equal. lia.
Qed.

Lemma expected_data_nth : forall records results i r ms,
  nth_error records i = Some r -> nth_error results i = Some ms ->
  nth_error (expected_data records results) i = Some (r_orig r, expected_modules 0 ms).
Proof.
  induction records as [|r0 rest IH]; intros results i r ms Hr Hm; [destruct i; discriminate|].
  destruct results as [|ms0 results']; [destruct i; discriminate|].
  destruct i as [|i].
  - cbn in Hr, Hm. inversion Hr; inversion Hm; subst. reflexivity.
  - cbn in Hr, Hm. unfold expected_data. cbn [combine map nth_error]. apply IH; assumption.
Qed.

Lemma expected_data_length : forall records results,
  stage1_fails records results = false -> length (expected_data records results) = length records.
Proof.
  intros records results H. unfold stage1_fails in H. apply orb_false_iff in H. destruct H as [H _].
  unfold expected_data. rewrite map_length, combine_length. apply Nat.ltb_ge in H. lia.
Qed.

Lemma write_ok_contents : forall records results tl hk w w',
  write_to_file records results tl hk w = (w', Ok tt) ->
  conversion_fails records results tl = false /\ w_file w' = CNew (expected_data records results).
Proof.
  intros records results tl hk w w' H. destruct (write_atomic _ _ _ _ _ _ _ H) as [Hf Hok].
  destruct (conversion_fails records results tl) eqn:C.
  - destruct (Hf eq_refl) as [_ [k [E _]]]. discriminate.
  - split; [reflexivity|]. destruct (Hok eq_refl) as [Hn [H3 H5]].
    destruct (Z.eq_dec hk 3) as [E3|N3]; [destruct (H3 E3) as [E _]; discriminate|].
    destruct (Z.eq_dec hk 5) as [E5|N5]; [destruct (H5 E5) as [E _]; discriminate|].
    apply (Hn N3 N5).
Qed.

(* a successful write_to_file: the new text has one record entry per record and, in it, an entry for every
   value of that record's results dictionary that is not None - whatever its truthiness - and for no other *)
Lemma written_exactly_non_none : forall records results tl hk w w',
  write_to_file records results tl hk w = (w', Ok tt) ->
  exists d, w_file w' = CNew d /\ length d = length records /\
    forall i r ms, nth_error records i = Some r -> nth_error results i = Some ms ->
      exists mods, nth_error d i = Some (r_orig r, mods) /\
        forall e, In e mods <->
                  exists j m, nth_error ms j = Some m /\ ms_kind m <> 0 /\
                              e = mkMJ (Z.of_nat j) (ms_val m) (ms_late m) (ms_ret m).
Proof.
  intros records results tl hk w w' H. destruct (write_ok_contents _ _ _ _ _ _ H) as [C F].
  exists (expected_data records results). split; [exact F|]. split.
  - apply expected_data_length. unfold conversion_fails in C.
    destruct (stage1_fails records results); [discriminate | reflexivity].
  - intros i r ms Hr Hm. exists (expected_modules 0 ms). split; [apply expected_data_nth; assumption|].
    intros e. rewrite expected_modules_In. cbn [Z.add]. reflexivity.
Qed.

Lemma combine_nth_In : forall A B (la : list A) (lb : list B) i a b,
  nth_error la i = Some a -> nth_error lb i = Some b -> In (a, b) (combine la lb).
Proof.
  induction la as [|a0 la IH]; intros lb i a b Ha Hb; [destruct i; discriminate|].
  destruct lb as [|b0 lb]; [destruct i; discriminate|].
  destruct i as [|i]; cbn in Ha, Hb.
  - inversion Ha; inversion Hb; subst. left. reflexivity.
  - right. apply (IH lb i); assumption.
Qed.

(* a value that cannot be converted, at any position of any record, makes the plan a failing one - whether the
   value is truthy or falsy is not asked *)
Lemma failing_result_fails : forall records results tl i r ms m,
  nth_error records i = Some r -> nth_error results i = Some ms -> In m ms ->
  ms_kind m <> 0 ->
  (ms_kind m <> 2 \/ ms_fault m <> 0 \/ late_faulty (ms_late m) = true) ->
  conversion_fails records results tl = true.
Proof.
  intros records results tl i r ms m Hr Hm Hin K0 Hbad.
  pose proof (combine_nth_In _ _ _ _ _ _ _ Hr Hm) as Hc.
  unfold conversion_fails.
  assert (E0 : ms_kind m =? 0 = false) by lia.
  destruct (ms_kind m =? 2) eqn:K2.
  - destruct (ms_fault m =? 0) eqn:F0.
    + assert (L : late_faulty (ms_late m) = true) by (destruct Hbad as [B|[B|B]]; [lia | lia | exact B]).
      assert (S2 : stage2_fails records results = true).
      { unfold stage2_fails. apply existsb_exists. exists (r, ms). split; [exact Hc|]. cbn [snd].
        apply existsb_exists. exists m. split; [exact Hin|]. unfold module_late_faulty. rewrite K2, L. reflexivity. }
      rewrite S2. rewrite orb_true_r. reflexivity.
    + assert (S1 : stage1_fails records results = true).
      { unfold stage1_fails. apply orb_true_iff. right. apply existsb_exists. exists (r, ms). split; [exact Hc|].
        cbn [fst snd]. apply orb_true_iff. right. apply existsb_exists. exists m. split; [exact Hin|].
        unfold module_faulty. rewrite E0, K2, F0. reflexivity. }
      rewrite S1. reflexivity.
  - assert (S1 : stage1_fails records results = true).
    { unfold stage1_fails. apply orb_true_iff. right. apply existsb_exists. exists (r, ms). split; [exact Hc|].
      cbn [fst snd]. apply orb_true_iff. right. apply existsb_exists. exists m. split; [exact Hin|].
      unfold module_faulty. rewrite E0, K2. reflexivity. }
    rewrite S1. reflexivity.
Qed.

Lemma failing_result_protects_file : forall records results tl hk w w' res i r ms m,
  write_to_file records results tl hk w = (w', res) ->
  nth_error records i = Some r -> nth_error results i = Some ms -> In m ms ->
  ms_kind m <> 0 ->
  (ms_kind m <> 2 \/ ms_fault m <> 0 \/ late_faulty (ms_late m) = true) ->
  w_file w' = w_file w /\ exists k, res = Err k.
Proof.
  intros records results tl hk w w' res i r ms m H Hr Hm Hin K0 Hbad.
  pose proof (failing_result_fails records results tl i r ms m Hr Hm Hin K0 Hbad) as C.
  destruct (write_atomic _ _ _ _ _ _ _ H) as [Hf _]. destruct (Hf C) as [F [k [E _]]].
  split; [exact F | exists k; exact E].
Qed.

(* the failures the run-time specification insists on are failures of the model (the converse fails exactly
   for plans whose only fault is a raising bool(value)) *)
Lemma core_fails_conversion_fails : forall records results tl,
  core_fails records results tl = true -> conversion_fails records results tl = true.
Proof.
  intros records results tl H. unfold core_fails in H. unfold conversion_fails.
  destruct (stage1_core_fails records results) eqn:S.
  - assert (S1 : stage1_fails records results = true).
    { unfold stage1_core_fails in S. unfold stage1_fails. apply orb_true_iff in S. apply orb_true_iff.
      destruct S as [S|S]; [left; exact S|right].
      apply existsb_exists in S. destruct S as [p [Hp Hx]]. apply existsb_exists. exists p. split; [exact Hp|].
      apply orb_true_iff in Hx. destruct Hx as [Hx|Hx]; rewrite Hx; [reflexivity|].
      rewrite orb_true_r. reflexivity. }
    rewrite S1. reflexivity.
  - cbn [orb] in H. destruct (stage1_fails records results); [reflexivity|]. exact H.
Qed.

(* a stated limit: in reuse mode prepare_output_directory deletes the stale region GenBank files before the
   analysis; when a conversion fails afterwards (here: an empty results object whose to_json raises) the previous
   JSON survives and the failure is reported, but those files are gone.  The property speaks of the results file *)
Lemma failed_reuse_run_loses_region_files :
  exists pl v entries records results w' r es,
    run_antismash pl v 1 true false entries records results 0 (initial_world 0) = (w', r, 1, es) /\
    conversion_fails records results 0 = true /\ w_file w' = COld /\ r = Err E_Value /\
    exists e, In e entries /\ en_region e = true /\ ~ In e es.
Proof.
  exists (mkPP 0 true 0 0 [mkRP false 0 true 0] 0 0 false), env_nolog,
         [mkE 0 0 true false false false; mkE 1 1 true false false true],
         [mkR 0 0 0 0 false], [[mkM 2 1 11 0 2 0 0]].
  eexists. eexists. eexists. split; [vm_compute; reflexivity|].
  split; [reflexivity|]. split; [reflexivity|]. split; [reflexivity|].
  exists (mkE 1 1 true false false true). split; [right; left; reflexivity|]. split; [reflexivity|].
  intros [H|[]]. discriminate.
Qed.

(* ====================================================================== the wrapper (run_antismash) *)

Lemma refusal_reason_foreign : forall v dmeta entries,
  existsb (foreign v) entries = true -> refusal_reason v 1 false dmeta entries = true.
Proof.
  intros v dmeta entries F. unfold refusal_reason, list_dir. cbn [Z.eqb negb andb].
  rewrite (filter_ext_eq _ _ (foreign v) entries (ignore_is_foreign v)).
  pose proof (existsb_filter_nonempty _ _ _ F) as NE.
  destruct (filter (foreign v) entries); [contradiction|]. reflexivity.
Qed.

Lemma prepare_refusal : forall v kind reuse dmeta entries,
  kind <> 0 -> refusal_reason v kind reuse dmeta entries = true ->
  prepare_output_directory v kind reuse dmeta entries = (Err E_Input, kind, entries).
Proof.
  intros v kind reuse dmeta entries K R. unfold prepare_output_directory.
  assert (E0 : kind =? 0 = false) by lia. rewrite E0, R. reflexivity.
Qed.

Lemma remove_all_error : forall targets entries k es, remove_all targets entries = (Err k, es) -> k = E_Other.
Proof.
  induction targets as [|t rest IH]; intros entries k es H.
  - cbn in H. discriminate.
  - cbn [remove_all] in H. destruct (en_isdir t).
    + inversion H. reflexivity.
    + exact (IH _ _ _ H).
Qed.

(* AntismashInputError comes out of prepare_output_directory only through the refusal test *)
Lemma prepare_input_error_is_refusal : forall v kind reuse dmeta entries kp esp,
  prepare_output_directory v kind reuse dmeta entries = (Err E_Input, kp, esp) ->
  kind <> 0 /\ refusal_reason v kind reuse dmeta entries = true /\ kp = kind /\ esp = entries.
Proof.
  intros v kind reuse dmeta entries kp esp H. unfold prepare_output_directory in H.
  destruct (kind =? 0) eqn:E0; [discriminate|]. split; [lia|].
  destruct (refusal_reason v kind reuse dmeta entries).
  - inversion H. repeat split; reflexivity.
  - destruct (remove_all (glob_region dmeta entries) entries) as [r0 es0] eqn:R.
    inversion H; subst. apply remove_all_error in R. discriminate.
Qed.

(* the refusal test comes before any write: with a log file, a path that exists and that the refusal test
   turns down ends the run at once - an AntismashInputError, logged once, no stage of the run has happened,
   the directory is as it was and the logging set-up (whatever it would have done) has not taken place *)
Lemma outer_refused_before_any_write : forall setup pl v kind reuse dmeta entries records results hk w,
  lg_given v = true -> kind <> 0 -> refusal_reason v kind reuse dmeta entries = true ->
  outer_run_antismash setup pl v kind reuse dmeta entries records results hk w =
  (log_error w, Err E_Input, kind, entries).
Proof.
  intros setup pl v kind reuse dmeta entries records results hk w G K R.
  unfold outer_run_antismash, early_refusal. assert (E0 : kind =? 0 = false) by lia.
  rewrite G, E0, R. reflexivity.
Qed.

(* the same from the side of prepare_output_directory: whenever it would raise AntismashInputError on the
   directory as it is, the wrapper of a run with a log file ends before the set-up *)
Lemma outer_refuses_what_prepare_refuses : forall setup pl v kind reuse dmeta entries records results hk w kp esp,
  lg_given v = true ->
  prepare_output_directory v kind reuse dmeta entries = (Err E_Input, kp, esp) ->
  outer_run_antismash setup pl v kind reuse dmeta entries records results hk w =
  (log_error w, Err E_Input, kind, entries).
Proof.
  intros setup pl v kind reuse dmeta entries records results hk w kp esp G EP.
  destruct (prepare_input_error_is_refusal _ _ _ _ _ _ _ EP) as [K [R _]].
  apply outer_refused_before_any_write; assumption.
Qed.

(* the early test refuses nothing that could have succeeded: prepare_output_directory refuses the same
   directory, and _run_antismash on it never returns 0 and leaves it as it was *)
Lemma early_refusal_sound : forall v kind reuse dmeta entries,
  early_refusal v kind reuse dmeta entries = true ->
  prepare_output_directory v kind reuse dmeta entries = (Err E_Input, kind, entries) /\
  forall pl records results hk w w' r kd es,
    run_antismash pl v kind reuse dmeta entries records results hk w = (w', r, kd, es) ->
    r <> Ok 0 /\ kd = kind /\ es = entries /\ w_file w' = w_file w.
Proof.
  intros v kind reuse dmeta entries H. unfold early_refusal in H.
  apply andb_true_iff in H. destruct H as [H R]. apply andb_true_iff in H. destruct H as [_ K].
  assert (K' : kind <> 0) by (apply negb_true_iff in K; lia).
  pose proof (prepare_refusal v kind reuse dmeta entries K' R) as EP. split; [exact EP|].
  intros pl records results hk w w' r kd es H.
  destruct (run_antismash_refused _ _ _ _ _ _ _ _ _ _ _ _ _ _ _ _ _ EP H) as [A [_ [C [D _]]]].
  split; [exact C|]. split; [destruct D as [[D _]|[D _]]; exact D|].
  split; [destruct D as [[_ D]|[_ D]]; exact D | exact A].
Qed.

(* without a log file the wrapper is _run_antismash plus the logging of an AntismashInputError; the set-up
   writes nothing and is not consulted *)
Lemma outer_without_logfile : forall setup pl v kind reuse dmeta entries records results hk w,
  lg_given v = false ->
  outer_run_antismash setup pl v kind reuse dmeta entries records results hk w =
  log_input_error (run_antismash pl v kind reuse dmeta entries records results hk w).
Proof.
  intros setup pl v kind reuse dmeta entries records results hk w G.
  unfold outer_run_antismash, early_refusal. rewrite G. reflexivity.
Qed.

(* the second clause of the property for the complete run_antismash: fresh input, existing directory with
   foreign content, ANY plan, ANY effect of the logging set-up: the run does not succeed; listing and JSON target
   are untouched; at most the one error is logged; nothing after prepare_output_directory happens - with a log
   file nothing happens at all; and the outcome does not depend on the set-up (it never runs or writes nothing) *)
Lemma outer_foreign_untouched : forall setup pl v dmeta entries records results hk w w' r kd es,
  existsb (foreign v) entries = true ->
  outer_run_antismash setup pl v 1 false dmeta entries records results hk w = (w', r, kd, es) ->
  r <> Ok 0 /\ kd = 1 /\ es = entries /\ w_file w' = w_file w /\ w_log w <= w_log w' <= w_log w + 1 /\
  (exists pre, w_trace w' = w_trace w ++ pre /\ Forall (stage_ev 20 23 (cstate (w_file w))) pre) /\
  (lg_given v = true -> w_trace w' = w_trace w /\ r = Err E_Input) /\
  (forall setup', outer_run_antismash setup' pl v 1 false dmeta entries records results hk w = (w', r, kd, es)).
Proof.
  intros setup pl v dmeta entries records results hk w w' r kd es F H.
  destruct (lg_given v) eqn:G.
  - pose proof (refusal_reason_foreign v dmeta entries F) as R.
    rewrite (outer_refused_before_any_write setup pl v 1 false dmeta entries records results hk w G) in H;
      [|discriminate|exact R].
    inversion H; subst w' r kd es. cbn [log_error w_file w_log w_trace].
    split; [discriminate|]. split; [reflexivity|]. split; [reflexivity|]. split; [reflexivity|].
    split; [lia|]. split; [exists []; rewrite app_nil_r; split; [reflexivity|constructor]|].
    split; [intros _; split; reflexivity|].
    intros setup'. apply outer_refused_before_any_write; [exact G|discriminate|exact R].
  - rewrite (outer_without_logfile setup _ _ _ _ _ _ _ _ _ _ G) in H.
    assert (I : forall setup', outer_run_antismash setup' pl v 1 false dmeta entries records results hk w
                               = (w', r, kd, es))
      by (intros setup'; rewrite (outer_without_logfile setup' _ _ _ _ _ _ _ _ _ _ G); exact H).
    destruct (run_antismash pl v 1 false dmeta entries records results hk w) as [[[w0 r0] kd0] es0] eqn:R.
    destruct (run_antismash_foreign _ _ _ _ _ _ _ _ _ _ _ _ F R) as [A [B [C [D [E T]]]]].
    unfold log_input_error in H.
    assert (X : r = r0 /\ kd = kd0 /\ es = es0 /\ w_file w' = w_file w0 /\ w_trace w' = w_trace w0 /\
                w_log w0 <= w_log w' <= w_log w0 + 1).
    { destruct r0 as [c|k]; [inversion H; subst; repeat split; lia|].
      destruct (k =? E_Input); inversion H; subst; cbn [log_error w_file w_log w_trace]; repeat split; lia. }
    destruct X as [X1 [X2 [X3 [X4 [X5 X6]]]]]. subst r kd es.
    split; [exact A|]. split; [exact B|]. split; [exact C|]. split; [rewrite X4; exact D|].
    split; [lia|]. split; [rewrite X5; exact T|]. split; [discriminate | exact I].
Qed.

(* the order the code had before the repair of FC20d (logging set up first, no early test), kept to show what
   the early test is for: with the real set-up a refused directory gains the new log file *)
Definition outer_logging_first (setup : log_effect) (pl : pplan) (v : env) (kind : Z) (reuse dmeta : bool)
  (entries : list entry) (records : list rspec) (results : list (list mspec)) (hk : Z) (w : world)
  : world * res Z * Z * list entry :=
  match (if lg_given v then setup kind entries else (Ok tt, kind, entries)) with
  | (Err k, kind1, entries1) => (w, Err k, kind1, entries1)
  | (Ok _, kind1, entries1) =>
    log_input_error (run_antismash pl v kind1 reuse dmeta entries1 records results hk w)
  end.

Lemma logging_first_writes_into_refused_directory :
  exists pl v entries records results w' es,
    existsb (foreign v) entries = true /\
    outer_logging_first (log_setup v) pl v 1 false false entries records results 0 (initial_world 0)
      = (w', Err E_Input, 1, es) /\
    es = log_entry v :: entries /\ es <> entries /\
    outer_run_antismash (log_setup v) pl v 1 false false entries records results 0 (initial_world 0)
      = (log_error (initial_world 0), Err E_Input, 1, entries).
Proof.
  exists (mkPP 0 true 0 0 [mkRP false 0 true 0] 0 0 false), (mkEnv true (mkP 0 5) (mkP 9 99)),
         [mkE 0 0 true false false false], [mkR 0 0 0 0 false], [[mkM 2 0 11 0 0 0 0]].
  eexists. eexists. split; [reflexivity|]. split; [vm_compute; reflexivity|].
  split; [reflexivity|]. split; [discriminate | vm_compute; reflexivity].
Qed.
