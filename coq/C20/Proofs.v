(* C20 - lemmas and proofs about the trace machine (write_to_file / dump_records) and the
   output-directory decision (prepare_output_directory). *)
From ASV.C20 Require Import Model.
From Coq Require Import Lia ZifyBool.

(* ====================================================================== specification-side definitions *)

(* the world after some more events, file and log untouched *)
Definition ext (w : world) (evs : list event) : world :=
  mkW (w_file w) (w_log w) (w_trace w ++ evs).

(* a conversion event that saw the target in state s *)
Definition conv_ev (s : Z) (e : event) : Prop := e_code e <= 7 /\ e_state e = s.
Definition io_ev (e : event) : Prop := e_code e = EV_OPEN \/ e_code e = EV_WRITE.

(* every conversion event of a fault-free plan, in order (s = state of the target seen by them) *)
Fixpoint module_events (s i j : Z) (ms : list mspec) : list event :=
  match ms with
  | [] => []
  | m :: rest =>
    if ms_kind m =? 0 then module_events s i (j + 1) rest
    else mkEv 5 i j s :: module_events s i (j + 1) rest
  end.
Fixpoint record_events (s i : Z) (results : list (list mspec)) (records : list rspec) {struct records}
  : list event :=
  match records, results with
  | _ :: records', ms :: results' =>
    [mkEv 1 i 0 s; mkEv 2 i 0 s; mkEv 3 i 0 s; mkEv 4 i 0 s] ++ module_events s i 0 ms
    ++ record_events s (i + 1) results' records'
  | _, _ => []
  end.
Definition late_event (s code i j late : Z) : list event :=
  if late =? 1 then [mkEv code i j s] else [].
Fixpoint late_module_events (s i : Z) (ms : list mjson) : list event :=
  match ms with
  | [] => []
  | m :: rest => late_event s 6 i (mj_key m) (mj_late m) ++ late_module_events s i rest
  end.
Fixpoint late_events (s i : Z) (d : list rjson) : list event :=
  match d with
  | [] => []
  | (_, ms) :: rest => late_module_events s i ms ++ late_events s (i + 1) rest
  end.
Definition all_conversions (s : Z) (records : list rspec) (results : list (list mspec)) (tl : Z) : list event :=
  record_events s 0 results records ++ late_events s 0 (expected_data records results) ++ late_event s 7 0 0 tl.
Definition all_conversions_dump (s : Z) (records : list rspec) (results : list (list mspec)) (hk : Z) : list event :=
  record_events s 0 results records ++ (if hk =? 4 then [] else late_events s 0 (expected_data records results)).

Definition data_late_faulty (d : list rjson) : bool :=
  existsb (fun p : rjson => existsb (fun m => late_faulty (mj_late m)) (snd p)) d.

(* ====================================================================== basic facts *)

Lemma ext_nil : forall w, ext w [] = w.
Proof. intros [f l t]. unfold ext. simpl. rewrite app_nil_r. reflexivity. Qed.

Lemma ext_ext : forall w a b, ext (ext w a) b = ext w (a ++ b).
Proof. intros w a b. unfold ext. simpl. rewrite app_assoc. reflexivity. Qed.

Lemma ext_file : forall w a, w_file (ext w a) = w_file w.
Proof. reflexivity. Qed.

Lemma bindM_ok : forall A B (m : M A) (f : A -> M B) w w1 a,
  m w = (w1, Ok a) -> bindM m f w = f a w1.
Proof. intros A B m f w w1 a H. unfold bindM. rewrite H. reflexivity. Qed.

Lemma bindM_err : forall A B (m : M A) (f : A -> M B) w w1 k,
  m w = (w1, Err k) -> bindM m f w = (w1, Err k).
Proof. intros A B m f w w1 k H. unfold bindM. rewrite H. reflexivity. Qed.

Lemma hook_eq : forall c i j f w,
  hook c i j f w = (ext w [mkEv c i j (cstate (w_file w))], if f =? 0 then Ok tt else Err f).
Proof.
  intros c i j f w. unfold hook, bindM, emit, ext. cbn [w_file w_log w_trace].
  destruct (f =? 0); reflexivity.
Qed.

Lemma dumps_value_eq : forall c i j late w,
  dumps_value c i j late w =
  (ext w (if late =? 0 then [] else if late =? 2 then [] else [mkEv c i j (cstate (w_file w))]),
   if late_faulty late then Err E_Type else Ok tt).
Proof.
  intros c i j late w. unfold dumps_value, late_faulty.
  destruct (late =? 0) eqn:H0.
  - cbn. rewrite ext_nil. reflexivity.
  - destruct (late =? 1) eqn:H1.
    + assert (H2 : late =? 2 = false) by lia. rewrite H2. reflexivity.
    + destruct (late =? 2) eqn:H2.
      * cbn. rewrite ext_nil. reflexivity.
      * reflexivity.
Qed.

(* ====================================================================== (A) conversions never touch the target *)

Definition conv_like {A} (m : M A) : Prop :=
  forall w, exists evs, fst (m w) = ext w evs /\ Forall (conv_ev (cstate (w_file w))) evs.

Lemma conv_like_ret : forall A (a : A), conv_like (ret a).
Proof. intros A a w. exists []. split; [cbn; rewrite ext_nil; reflexivity | constructor]. Qed.

Lemma conv_like_raise : forall A k, conv_like (@raise A k).
Proof. intros A k w. exists []. split; [cbn; rewrite ext_nil; reflexivity | constructor]. Qed.

Lemma conv_like_bind : forall A B (m : M A) (f : A -> M B),
  conv_like m -> (forall a, conv_like (f a)) -> conv_like (bindM m f).
Proof.
  intros A B m f Hm Hf w. destruct (Hm w) as [e1 [H1 F1]].
  unfold bindM. destruct (m w) as [w1 [a|k]] eqn:E; cbn [fst] in H1.
  - subst w1. destruct (Hf a (ext w e1)) as [e2 [H2 F2]].
    exists (e1 ++ e2). rewrite H2, ext_ext. split; [reflexivity|].
    apply Forall_app. split; [exact F1 | exact F2].
  - exists e1. split; [exact H1 | exact F1].
Qed.

Lemma conv_like_hook : forall c i j f, c <= 7 -> conv_like (hook c i j f).
Proof.
  intros c i j f Hc w. rewrite hook_eq. eexists. split; [reflexivity|].
  constructor; [|constructor]. split; [exact Hc | reflexivity].
Qed.

Lemma conv_like_dumps_value : forall c i j late, c <= 7 -> conv_like (dumps_value c i j late).
Proof.
  intros c i j late Hc w. rewrite dumps_value_eq. eexists. split; [reflexivity|].
  destruct (late =? 0); [constructor|]. destruct (late =? 2); [constructor|].
  constructor; [|constructor]. split; [exact Hc | reflexivity].
Qed.

Lemma conv_like_conv_modules : forall ms i j, conv_like (conv_modules i j ms).
Proof.
  induction ms as [|m rest IH]; intros i j; cbn [conv_modules].
  - apply conv_like_ret.
  - destruct (ms_kind m =? 0); [apply IH|].
    destruct (ms_kind m =? 2); [|apply conv_like_raise].
    apply conv_like_bind; [apply conv_like_hook; lia|]. intros _.
    apply conv_like_bind; [apply IH|]. intros tl. apply conv_like_ret.
Qed.

Lemma conv_like_conv_records : forall records results i, conv_like (conv_records i results records).
Proof.
  induction records as [|r rest IH]; intros results i; cbn [conv_records].
  - apply conv_like_ret.
  - destruct results as [|ms results']; [apply conv_like_raise|].
    apply conv_like_bind; [apply conv_like_hook; lia|]. intros _.
    apply conv_like_bind; [apply conv_like_hook; lia|]. intros _.
    apply conv_like_bind; [apply conv_like_hook; lia|]. intros _.
    apply conv_like_bind; [apply conv_like_hook; lia|]. intros _.
    apply conv_like_bind; [apply conv_like_conv_modules|]. intros mods.
    apply conv_like_bind; [apply IH|]. intros tl. apply conv_like_ret.
Qed.

Lemma conv_like_dumps_modules : forall ms i, conv_like (dumps_modules i ms).
Proof.
  induction ms as [|m rest IH]; intros i; cbn [dumps_modules].
  - apply conv_like_ret.
  - apply conv_like_bind; [apply conv_like_dumps_value; lia|]. intros _. apply IH.
Qed.

Lemma conv_like_dumps_records : forall d i, conv_like (dumps_records i d).
Proof.
  induction d as [|[o ms] rest IH]; intros i; cbn [dumps_records].
  - apply conv_like_ret.
  - apply conv_like_bind; [apply conv_like_dumps_modules|]. intros _. apply IH.
Qed.

Lemma conv_like_convert_all : forall records results tl, conv_like (convert_all records results tl).
Proof.
  intros records results tl. unfold convert_all.
  apply conv_like_bind; [apply conv_like_conv_records|]. intros d.
  apply conv_like_bind; [apply conv_like_dumps_records|]. intros _.
  apply conv_like_bind; [apply conv_like_dumps_value; lia|]. intros _. apply conv_like_ret.
Qed.

(* ====================================================================== (B) fault-free plans: exact result *)

Lemma module_faulty_false : forall m, module_faulty m = false ->
  (ms_kind m =? 0) = true \/ ((ms_kind m =? 0) = false /\ (ms_kind m =? 2) = true /\ (ms_fault m =? 0) = true).
Proof.
  intros m H. unfold module_faulty in H.
  destruct (ms_kind m =? 0); [left; reflexivity|right].
  destruct (ms_kind m =? 2); destruct (ms_fault m =? 0); cbn in H; try discriminate. auto.
Qed.

Lemma conv_modules_ok : forall ms i j w, existsb module_faulty ms = false ->
  conv_modules i j ms w = (ext w (module_events (cstate (w_file w)) i j ms), Ok (expected_modules j ms)).
Proof.
  induction ms as [|m rest IH]; intros i j w H.
  - cbn. rewrite ext_nil. reflexivity.
  - cbn [existsb] in H. apply orb_false_iff in H. destruct H as [Hm Hrest].
    cbn [conv_modules module_events expected_modules].
    destruct (module_faulty_false m Hm) as [K0 | [K0 [K2 F0]]]; rewrite K0.
    + apply IH. exact Hrest.
    + rewrite K2.
      rewrite (bindM_ok _ _ _ _ w (ext w [mkEv 5 i j (cstate (w_file w))]) tt)
        by (rewrite hook_eq, F0; reflexivity).
      rewrite (bindM_ok _ _ _ _ _ _ _ (IH i (j + 1) _ Hrest)).
      unfold ret. rewrite ext_ext, ext_file. reflexivity.
Qed.

Lemma record_faulty_false : forall r, record_faulty r = false ->
  (r_f1 r =? 0) = true /\ (r_f2 r =? 0) = true /\ (r_f3 r =? 0) = true /\ (r_f4 r =? 0) = true.
Proof.
  intros r H. unfold record_faulty in H.
  destruct (r_f1 r =? 0); destruct (r_f2 r =? 0); destruct (r_f3 r =? 0); destruct (r_f4 r =? 0);
    cbn in H; try discriminate; auto.
Qed.

Lemma stage1_cons : forall r records ms results,
  stage1_fails (r :: records) (ms :: results) =
  (record_faulty r || existsb module_faulty ms) || stage1_fails records results.
Proof.
  intros r records ms results. unfold stage1_fails. cbn [length combine existsb fst snd].
  change (S (length results) <? S (length records))%nat with (length results <? length records)%nat.
  destruct (length results <? length records)%nat;
    destruct (record_faulty r || existsb module_faulty ms); reflexivity.
Qed.

Lemma conv_records_ok : forall records results i w, stage1_fails records results = false ->
  conv_records i results records w =
  (ext w (record_events (cstate (w_file w)) i results records), Ok (expected_data records results)).
Proof.
  induction records as [|r rest IH]; intros results i w H.
  - cbn. rewrite ext_nil. reflexivity.
  - destruct results as [|ms results'].
    + unfold stage1_fails in H. cbn in H. discriminate.
    + rewrite stage1_cons in H. apply orb_false_iff in H. destruct H as [H1 Hrest].
      apply orb_false_iff in H1. destruct H1 as [Hr Hm].
      destruct (record_faulty_false r Hr) as [F1 [F2 [F3 F4]]].
      cbn [conv_records record_events].
      rewrite (bindM_ok _ _ _ _ w _ tt) by (rewrite hook_eq, F1; reflexivity).
      rewrite (bindM_ok _ _ _ _ _ _ tt) by (rewrite hook_eq, F2; reflexivity).
      rewrite (bindM_ok _ _ _ _ _ _ tt) by (rewrite hook_eq, F3; reflexivity).
      rewrite (bindM_ok _ _ _ _ _ _ tt) by (rewrite hook_eq, F4; reflexivity).
      rewrite (bindM_ok _ _ _ _ _ _ _ (conv_modules_ok ms i 0 _ Hm)).
      rewrite (bindM_ok _ _ _ _ _ _ _ (IH results' (i + 1) _ Hrest)).
      unfold ret. rewrite !ext_ext, !ext_file. unfold expected_data. cbn [combine map fst snd].
      reflexivity.
Qed.

Lemma dumps_modules_ok : forall ms i w, existsb (fun m => late_faulty (mj_late m)) ms = false ->
  dumps_modules i ms w = (ext w (late_module_events (cstate (w_file w)) i ms), Ok tt).
Proof.
  induction ms as [|m rest IH]; intros i w H.
  - cbn. rewrite ext_nil. reflexivity.
  - cbn [existsb] in H. apply orb_false_iff in H. destruct H as [Hm Hrest].
    cbn [dumps_modules late_module_events].
    assert (E : dumps_value 6 i (mj_key m) (mj_late m) w =
                (ext w (late_event (cstate (w_file w)) 6 i (mj_key m) (mj_late m)), Ok tt)).
    { rewrite dumps_value_eq, Hm. unfold late_event. unfold late_faulty in Hm.
      destruct (mj_late m =? 0) eqn:E0.
      - assert (E1 : mj_late m =? 1 = false) by lia. rewrite E1. reflexivity.
      - destruct (mj_late m =? 1) eqn:E1; [|cbn in Hm; discriminate].
        assert (E2 : mj_late m =? 2 = false) by lia. rewrite E2. reflexivity. }
    rewrite (bindM_ok _ _ _ _ _ _ _ E). rewrite (IH i _ Hrest). rewrite ext_ext, ext_file. reflexivity.
Qed.

Lemma dumps_records_ok : forall d i w, data_late_faulty d = false ->
  dumps_records i d w = (ext w (late_events (cstate (w_file w)) i d), Ok tt).
Proof.
  induction d as [|[o ms] rest IH]; intros i w H.
  - cbn. rewrite ext_nil. reflexivity.
  - unfold data_late_faulty in H. cbn [existsb snd] in H. apply orb_false_iff in H. destruct H as [Hm Hrest].
    cbn [dumps_records late_events].
    rewrite (bindM_ok _ _ _ _ _ _ _ (dumps_modules_ok ms i w Hm)).
    rewrite (IH (i + 1) _ Hrest). rewrite ext_ext, ext_file. reflexivity.
Qed.

(* ====================================================================== (C) a fault makes the conversion fail *)

Lemma conv_modules_err : forall ms i j w, existsb module_faulty ms = true ->
  exists k, snd (conv_modules i j ms w) = Err k.
Proof.
  induction ms as [|m rest IH]; intros i j w H.
  - cbn in H. discriminate.
  - cbn [existsb] in H. cbn [conv_modules].
    destruct (module_faulty m) eqn:Hm.
    + unfold module_faulty in Hm.
      destruct (ms_kind m =? 0); [cbn in Hm; discriminate|].
      destruct (ms_kind m =? 2).
      * destruct (ms_fault m =? 0) eqn:F0; [cbn in Hm; discriminate|].
        rewrite (bindM_err _ _ _ _ w (ext w [mkEv 5 i j (cstate (w_file w))]) (ms_fault m))
          by (rewrite hook_eq, F0; reflexivity).
        eexists. reflexivity.
      * eexists. reflexivity.
    + cbn [orb] in H. destruct (module_faulty_false m Hm) as [K0 | [K0 [K2 F0]]]; rewrite K0.
      * apply IH. exact H.
      * rewrite K2.
        rewrite (bindM_ok _ _ _ _ w (ext w [mkEv 5 i j (cstate (w_file w))]) tt)
          by (rewrite hook_eq, F0; reflexivity).
        destruct (IH i (j + 1) (ext w [mkEv 5 i j (cstate (w_file w))]) H) as [k Hk].
        destruct (conv_modules i (j + 1) rest (ext w [mkEv 5 i j (cstate (w_file w))])) as [w2 [a|k2]] eqn:E;
          cbn [snd] in Hk; [discriminate|].
        rewrite (bindM_err _ _ _ _ _ _ _ E). eexists. reflexivity.
Qed.

Lemma conv_records_err : forall records results i w, stage1_fails records results = true ->
  exists k, snd (conv_records i results records w) = Err k.
Proof.
  induction records as [|r rest IH]; intros results i w H.
  - unfold stage1_fails in H. cbn in H. destruct results; cbn in H; discriminate.
  - destruct results as [|ms results'].
    + cbn. eexists. reflexivity.
    + rewrite stage1_cons in H. cbn [conv_records].
      destruct (r_f1 r =? 0) eqn:F1;
        [rewrite (bindM_ok _ _ _ _ w _ tt) by (rewrite hook_eq, F1; reflexivity)
        |rewrite (bindM_err _ _ _ _ w _ (r_f1 r)) by (rewrite hook_eq, F1; reflexivity); eexists; reflexivity].
      destruct (r_f2 r =? 0) eqn:F2;
        [rewrite (bindM_ok _ _ _ _ _ _ tt) by (rewrite hook_eq, F2; reflexivity)
        |rewrite (bindM_err _ _ _ _ _ _ (r_f2 r)) by (rewrite hook_eq, F2; reflexivity); eexists; reflexivity].
      destruct (r_f3 r =? 0) eqn:F3;
        [rewrite (bindM_ok _ _ _ _ _ _ tt) by (rewrite hook_eq, F3; reflexivity)
        |rewrite (bindM_err _ _ _ _ _ _ (r_f3 r)) by (rewrite hook_eq, F3; reflexivity); eexists; reflexivity].
      destruct (r_f4 r =? 0) eqn:F4;
        [rewrite (bindM_ok _ _ _ _ _ _ tt) by (rewrite hook_eq, F4; reflexivity)
        |rewrite (bindM_err _ _ _ _ _ _ (r_f4 r)) by (rewrite hook_eq, F4; reflexivity); eexists; reflexivity].
      assert (Hr : record_faulty r = false) by (unfold record_faulty; rewrite F1, F2, F3, F4; reflexivity).
      rewrite Hr in H. cbn [orb] in H.
      destruct (existsb module_faulty ms) eqn:Hm.
      * match goal with |- context [bindM (conv_modules i 0 ms) ?f ?w0] =>
          destruct (conv_modules_err ms i 0 w0 Hm) as [k Hk];
          destruct (conv_modules i 0 ms w0) as [w2 [a|k2]] eqn:E; cbn [snd] in Hk; [discriminate|];
          rewrite (bindM_err _ _ _ _ _ _ _ E) end.
        eexists. reflexivity.
      * cbn [orb] in H.
        rewrite (bindM_ok _ _ _ _ _ _ _ (conv_modules_ok ms i 0 _ Hm)).
        match goal with |- context [bindM (conv_records (i + 1) results' rest) ?f ?w0] =>
          destruct (IH results' (i + 1) w0 H) as [k Hk];
          destruct (conv_records (i + 1) results' rest w0) as [w2 [a|k2]] eqn:E; cbn [snd] in Hk; [discriminate|];
          rewrite (bindM_err _ _ _ _ _ _ _ E) end.
        eexists. reflexivity.
Qed.

Lemma dumps_value_result : forall c i j late w,
  snd (dumps_value c i j late w) = if late_faulty late then Err E_Type else Ok tt.
Proof. intros. rewrite dumps_value_eq. reflexivity. Qed.

Lemma dumps_modules_err : forall ms i w, existsb (fun m => late_faulty (mj_late m)) ms = true ->
  snd (dumps_modules i ms w) = Err E_Type.
Proof.
  induction ms as [|m rest IH]; intros i w H.
  - cbn in H. discriminate.
  - cbn [existsb] in H. cbn [dumps_modules].
    destruct (late_faulty (mj_late m)) eqn:Hm.
    + erewrite bindM_err; [reflexivity|]. rewrite dumps_value_eq, Hm. reflexivity.
    + cbn [orb] in H. erewrite bindM_ok; [apply IH; exact H|]. rewrite dumps_value_eq, Hm. reflexivity.
Qed.

Lemma dumps_records_err : forall d i w, data_late_faulty d = true ->
  snd (dumps_records i d w) = Err E_Type.
Proof.
  induction d as [|[o ms] rest IH]; intros i w H.
  - cbn in H. discriminate.
  - unfold data_late_faulty in H. cbn [existsb snd] in H. cbn [dumps_records].
    destruct (existsb (fun m => late_faulty (mj_late m)) ms) eqn:Hm.
    + pose proof (dumps_modules_err ms i w Hm) as E.
      destruct (dumps_modules i ms w) as [w2 [a|k2]] eqn:E2; cbn [snd] in E; [discriminate|].
      rewrite (bindM_err _ _ _ _ _ _ _ E2). cbn [snd]. exact E.
    + cbn [orb] in H. rewrite (bindM_ok _ _ _ _ _ _ _ (dumps_modules_ok ms i w Hm)).
      apply IH. exact H.
Qed.

(* the late faults of the converted data are those of the plan *)
Lemma expected_modules_late : forall ms j, existsb module_faulty ms = false ->
  existsb (fun m => late_faulty (mj_late m)) (expected_modules j ms) = existsb module_late_faulty ms.
Proof.
  induction ms as [|m rest IH]; intros j H.
  - reflexivity.
  - cbn [existsb] in H. apply orb_false_iff in H. destruct H as [Hm Hrest].
    cbn [expected_modules existsb]. unfold module_late_faulty at 1.
    destruct (module_faulty_false m Hm) as [K0 | [K0 [K2 F0]]]; rewrite K0.
    + assert (K2 : ms_kind m =? 2 = false) by lia. rewrite K2. cbn [andb orb]. apply IH. exact Hrest.
    + rewrite K2. cbn [existsb mj_late andb]. rewrite (IH (j + 1) Hrest). reflexivity.
Qed.

Lemma expected_data_late : forall records results, stage1_fails records results = false ->
  data_late_faulty (expected_data records results) = stage2_fails records results.
Proof.
  induction records as [|r rest IH]; intros results H.
  - reflexivity.
  - destruct results as [|ms results'].
    + reflexivity.
    + rewrite stage1_cons in H. apply orb_false_iff in H. destruct H as [H1 Hrest].
      apply orb_false_iff in H1. destruct H1 as [Hr Hm].
      unfold data_late_faulty, stage2_fails, expected_data. cbn [combine map existsb fst snd].
      rewrite (expected_modules_late ms 0 Hm). f_equal. apply IH. exact Hrest.
Qed.

(* ====================================================================== convert_all *)

Lemma convert_all_ok : forall records results tl w, conversion_fails records results tl = false ->
  convert_all records results tl w =
  (ext w (all_conversions (cstate (w_file w)) records results tl), Ok (expected_data records results)).
Proof.
  intros records results tl w H. unfold conversion_fails in H.
  apply orb_false_iff in H. destruct H as [H12 H3].
  apply orb_false_iff in H12. destruct H12 as [H1 H2].
  unfold convert_all, all_conversions.
  rewrite (bindM_ok _ _ _ _ _ _ _ (conv_records_ok records results 0 w H1)).
  rewrite <- (expected_data_late records results H1) in H2.
  rewrite (bindM_ok _ _ _ _ _ _ _ (dumps_records_ok _ 0 _ H2)).
  assert (E : forall w0, dumps_value 7 0 0 tl w0 = (ext w0 (late_event (cstate (w_file w0)) 7 0 0 tl), Ok tt)).
  { intros w0. rewrite dumps_value_eq, H3. unfold late_event. unfold late_faulty in H3.
    destruct (tl =? 0) eqn:E0.
    - assert (E1 : tl =? 1 = false) by lia. rewrite E1. reflexivity.
    - destruct (tl =? 1) eqn:E1; [|cbn in H3; discriminate].
      assert (E2 : tl =? 2 = false) by lia. rewrite E2. reflexivity. }
  rewrite (bindM_ok _ _ _ _ _ _ _ (E _)). unfold ret. rewrite !ext_ext, !ext_file. reflexivity.
Qed.

Lemma convert_all_err : forall records results tl w, conversion_fails records results tl = true ->
  exists k, snd (convert_all records results tl w) = Err k.
Proof.
  intros records results tl w H. unfold conversion_fails in H. unfold convert_all.
  destruct (stage1_fails records results) eqn:H1.
  - destruct (conv_records_err records results 0 w H1) as [k Hk].
    destruct (conv_records 0 results records w) as [w2 [a|k2]] eqn:E; cbn [snd] in Hk; [discriminate|].
    rewrite (bindM_err _ _ _ _ _ _ _ E). eexists. reflexivity.
  - cbn [orb] in H. rewrite (bindM_ok _ _ _ _ _ _ _ (conv_records_ok records results 0 w H1)).
    rewrite <- (expected_data_late records results H1) in H.
    destruct (data_late_faulty (expected_data records results)) eqn:H2.
    + match goal with |- context [bindM (dumps_records 0 ?d) ?f ?w0] =>
        pose proof (dumps_records_err d 0 w0 H2) as Hk;
        destruct (dumps_records 0 d w0) as [w2 [a|k2]] eqn:E; cbn [snd] in Hk; [discriminate|];
        rewrite (bindM_err _ _ _ _ _ _ _ E) end.
      eexists. reflexivity.
    + cbn [orb] in H. rewrite (bindM_ok _ _ _ _ _ _ _ (dumps_records_ok _ 0 _ H2)).
      erewrite bindM_err; [eexists; reflexivity|]. rewrite dumps_value_eq, H. reflexivity.
Qed.

(* ====================================================================== write_to_file *)

Lemma open_and_write_eq : forall hk d w,
  open_and_write hk d w =
  if hk =? 3 then (w, Err E_Other)
  else (mkW (CNew d) (w_log w)
            (w_trace w ++ (if is_path hk then [mkEv EV_OPEN 0 0 (cstate (w_file w)); mkEv EV_WRITE 0 0 2]
                           else [mkEv EV_WRITE 0 0 (cstate (w_file w))])), Ok tt).
Proof.
  intros hk d w. unfold open_and_write, bindM, is_path.
  destruct (hk =? 3) eqn:H3.
  - assert (H0 : hk =? 0 = false) by lia. assert (H1 : hk =? 1 = false) by lia.
    rewrite H0, H1. cbn [orb]. unfold open_w. rewrite H3. reflexivity.
  - rewrite orb_false_r. destruct ((hk =? 0) || (hk =? 1)) eqn:H01.
    + unfold open_w. rewrite H3. unfold write_text. cbn [w_file w_log w_trace cstate].
      rewrite <- app_assoc. reflexivity.
    + reflexivity.
Qed.

(* the main statement: any conversion fault, anywhere, leaves the target as it was and is reported;
   without a fault the target holds the converted text *)
Lemma write_atomic : forall records results tl hk w w' r,
  write_to_file records results tl hk w = (w', r) ->
  (conversion_fails records results tl = true ->
     w_file w' = w_file w /\
     exists k, r = Err k /\ (k = E_Type -> w_log w' = w_log w + 1) /\ (k <> E_Type -> w_log w' = w_log w)) /\
  (conversion_fails records results tl = false ->
     (hk <> 3 -> r = Ok tt /\ w_file w' = CNew (expected_data records results)) /\
     (hk = 3 -> r = Err E_Other /\ w_file w' = w_file w)).
Proof.
  intros records results tl hk w w' r H. unfold write_to_file in H. split; intros Hf.
  - destruct (convert_all_err records results tl w Hf) as [k Hk].
    destruct (conv_like_convert_all records results tl w) as [evs [Hw _]].
    destruct (convert_all records results tl w) as [w1 [a|k1]] eqn:E; cbn [snd fst] in Hk, Hw; [discriminate|].
    subst w1. destruct (k1 =? E_Type) eqn:Hk1; inversion H; subst w' r; cbn [log_error w_file w_log ext].
    + split; [reflexivity|]. exists E_Type. split; [reflexivity|]. split; [reflexivity|]. intros C. contradiction.
    + split; [reflexivity|]. exists k1. split; [reflexivity|]. split; [intros C; lia | reflexivity].
  - rewrite (convert_all_ok records results tl w Hf) in H. rewrite open_and_write_eq in H.
    destruct (hk =? 3) eqn:H3; inversion H; subst w' r; split; intros C; try lia.
    + split; reflexivity.
    + split; reflexivity.
Qed.

(* the trace: every conversion event saw the untouched target and precedes open/write; when the target
   is opened or written, every conversion of the plan has already happened *)
Lemma write_trace : forall records results tl hk w w' r,
  write_to_file records results tl hk w = (w', r) ->
  exists convs io,
    w_trace w' = w_trace w ++ convs ++ io /\
    Forall (conv_ev (cstate (w_file w))) convs /\
    Forall io_ev io /\
    (io <> [] -> conversion_fails records results tl = false /\
                 convs = all_conversions (cstate (w_file w)) records results tl /\ r = Ok tt).
Proof.
  intros records results tl hk w w' r H. unfold write_to_file in H.
  destruct (conversion_fails records results tl) eqn:Hf.
  - destruct (convert_all_err records results tl w Hf) as [k Hk].
    destruct (conv_like_convert_all records results tl w) as [evs [Hw Fe]].
    destruct (convert_all records results tl w) as [w1 [a|k1]] eqn:E; cbn [snd fst] in Hk, Hw; [discriminate|].
    subst w1. exists evs, []. rewrite app_nil_r.
    destruct (k1 =? E_Type); inversion H; subst w' r; cbn [log_error w_trace ext];
      (split; [reflexivity|]; split; [exact Fe|]; split; [constructor|]; intros C; contradiction).
  - destruct (conv_like_convert_all records results tl w) as [evs [Hw Fe]].
    rewrite (convert_all_ok records results tl w Hf) in H, Hw. cbn [fst] in Hw.
    assert (Hevs : evs = all_conversions (cstate (w_file w)) records results tl).
    { unfold ext in Hw. inversion Hw as [Ht]. apply app_inv_head in Ht. symmetry. exact Ht. }
    subst evs. rewrite open_and_write_eq in H.
    exists (all_conversions (cstate (w_file w)) records results tl).
    destruct (hk =? 3).
    + exists []. inversion H; subst w' r. cbn [ext w_trace]. rewrite app_nil_r.
      split; [reflexivity|]. split; [exact Fe|]. split; [constructor|]. intros C; contradiction.
    + inversion H; subst w' r. cbn [ext w_trace w_file w_log]. rewrite <- app_assoc.
      eexists. split; [reflexivity|]. split; [exact Fe|]. split.
      * destruct (is_path hk).
        -- constructor; [left; reflexivity|]. constructor; [right; reflexivity|]. constructor.
        -- constructor; [right; reflexivity|]. constructor.
      * intros _. auto.
Qed.

(* ====================================================================== dump_records *)

Lemma dump_atomic : forall records results hk w w' r,
  dump_records records results hk w = (w', r) ->
  (conversion_fails_dump records results hk = true -> w_file w' = w_file w /\ exists k, r = Err k) /\
  (conversion_fails_dump records results hk = false ->
     (hk = 4 -> r = Ok (expected_data records results) /\ w_file w' = w_file w) /\
     (hk = 3 -> r = Err E_Other /\ w_file w' = w_file w) /\
     (hk <> 3 -> hk <> 4 -> r = Ok (expected_data records results) /\ w_file w' = CNew (expected_data records results))).
Proof.
  intros records results hk w w' r H. unfold dump_records in H. unfold conversion_fails_dump.
  destruct (stage1_fails records results) eqn:H1.
  - cbn [orb]. split; [intros _|intros C; discriminate].
    destruct (conv_records_err records results 0 w H1) as [k Hk].
    destruct (conv_like_conv_records records results 0 w) as [evs [Hw _]].
    destruct (conv_records 0 results records w) as [w1 [a|k1]] eqn:E; cbn [snd fst] in Hk, Hw; [discriminate|].
    inversion H; subst w' r w1. split; [reflexivity|]. eexists; reflexivity.
  - cbn [orb]. rewrite (conv_records_ok records results 0 w H1) in H.
    destruct (hk =? 4) eqn:H4.
    + cbn [negb andb]. inversion H; subst w' r. split; [intros C; discriminate|]. intros _.
      split; [intros _; split; reflexivity|]. split; intros; lia.
    + cbn [negb andb]. rewrite <- (expected_data_late records results H1).
      destruct (data_late_faulty (expected_data records results)) eqn:H2.
      * split; [intros _|intros C; discriminate].
        match type of H with context [dumps_records 0 ?d ?w0] =>
          pose proof (dumps_records_err d 0 w0 H2) as Hk;
          destruct (conv_like_dumps_records d 0 w0) as [evs [Hw _]];
          destruct (dumps_records 0 d w0) as [w2 [a|k2]] eqn:E; cbn [snd fst] in Hk, Hw; [discriminate|] end.
        subst w2. destruct (k2 =? E_Type); inversion H; subst w' r;
          (split; [reflexivity|eexists; reflexivity]).
      * split; [intros C; discriminate|]. intros _.
        rewrite (dumps_records_ok _ 0 _ H2) in H.
        unfold bindM in H. rewrite open_and_write_eq in H.
        destruct (hk =? 3) eqn:H3.
        -- inversion H; subst w' r.
           split; [intros; lia|]. split; [intros _; split; reflexivity|]. intros; lia.
        -- unfold ret in H. inversion H; subst w' r.
           split; [intros; lia|]. split; [intros; lia|]. intros _ _. split; reflexivity.
Qed.

(* ====================================================================== the output directory *)

Lemma ignore_is_foreign : forall e, ignore_patterns e = foreign e.
Proof.
  intros e. unfold ignore_patterns, foreign.
  destruct (en_input e && en_isdir e); destruct (en_islog e); reflexivity.
Qed.

Lemma filter_all : forall A (f : A -> bool) l, forallb f l = true -> filter f l = l.
Proof.
  induction l as [|x xs IH]; intros H; [reflexivity|].
  cbn in H. apply andb_true_iff in H. destruct H as [Hx Hxs]. cbn. rewrite Hx, (IH Hxs). reflexivity.
Qed.

Lemma existsb_filter_nonempty : forall A (f : A -> bool) l, existsb f l = true -> filter f l <> [].
Proof.
  induction l as [|x xs IH]; intros H; [discriminate|].
  cbn in H. cbn. destruct (f x); [discriminate|]. apply IH. exact H.
Qed.

Lemma existsb_filter_empty : forall A (f : A -> bool) l, existsb f l = false -> filter f l = [].
Proof.
  induction l as [|x xs IH]; intros H; [reflexivity|].
  cbn in H. apply orb_false_iff in H. destruct H as [Hx Hxs]. cbn. rewrite Hx. apply IH. exact Hxs.
Qed.

Lemma filter_ext_eq : forall A (f g : A -> bool) l, (forall x, f x = g x) -> filter f l = filter g l.
Proof. intros A f g l H. induction l as [|x xs IH]; [reflexivity|]. cbn. rewrite H, IH. reflexivity. Qed.

(* refusal: fresh input, existing directory with a foreign entry that glob can see *)
Lemma refuse_fresh : forall dmeta entries,
  dir_guard dmeta entries = true -> existsb foreign entries = true ->
  prepare_output_directory 1 false dmeta entries = (Err E_Input, 1, entries).
Proof.
  intros dmeta entries G F. unfold dir_guard in G. apply andb_true_iff in G. destruct G as [Gm Gv].
  destruct dmeta; [discriminate|].
  unfold prepare_output_directory, glob_all. cbn [Z.eqb negb andb].
  rewrite (filter_all _ _ _ Gv).
  rewrite (filter_ext_eq _ _ _ entries ignore_is_foreign).
  pose proof (existsb_filter_nonempty _ _ _ F) as NE.
  destruct (filter foreign entries); [contradiction|]. reflexivity.
Qed.

Lemma remove_all_subset : forall targets entries r es,
  remove_all targets entries = (r, es) -> forall e, In e es -> In e entries.
Proof.
  induction targets as [|t rest IH]; intros entries r es H e He.
  - cbn in H. inversion H; subst. exact He.
  - cbn [remove_all] in H. destruct (en_isdir t).
    + inversion H; subst. exact He.
    + apply (IH _ _ _ H) in He. apply filter_In in He. tauto.
Qed.

Lemma remove_all_keeps : forall targets entries r es,
  remove_all targets entries = (r, es) ->
  forall e, In e entries -> (forall t, In t targets -> en_id t <> en_id e) -> In e es.
Proof.
  induction targets as [|t rest IH]; intros entries r es H e He Hn.
  - cbn in H. inversion H; subst. exact He.
  - cbn [remove_all] in H. destruct (en_isdir t).
    + inversion H; subst. exact He.
    + apply (IH _ _ _ H).
      * apply filter_In. split; [exact He|].
        assert (en_id t <> en_id e) by (apply Hn; left; reflexivity). lia.
      * intros t' Ht'. apply Hn. right. exact Ht'.
Qed.

Lemma filter_step : forall t rest es,
  filter (fun e => negb (existsb (fun t0 => en_id t0 =? en_id e) rest))
         (filter (fun e => negb (en_id e =? en_id t)) es) =
  filter (fun e => negb ((en_id t =? en_id e) || existsb (fun t0 => en_id t0 =? en_id e) rest)) es.
Proof.
  intros t rest es. induction es as [|e es IHe]; [reflexivity|].
  cbn [filter]. destruct (en_id e =? en_id t) eqn:E'.
  - assert (E : en_id t =? en_id e = true) by lia. rewrite E. cbn [negb orb]. exact IHe.
  - assert (E : en_id t =? en_id e = false) by lia. rewrite E. cbn [negb orb filter].
    destruct (negb (existsb (fun t0 => en_id t0 =? en_id e) rest)); [rewrite IHe; reflexivity | exact IHe].
Qed.

Lemma remove_all_files : forall targets entries,
  forallb (fun t => negb (en_isdir t)) targets = true ->
  remove_all targets entries =
  (Ok tt, filter (fun e => negb (existsb (fun t => en_id t =? en_id e) targets)) entries).
Proof.
  induction targets as [|t rest IH]; intros entries H.
  - cbn. rewrite filter_all; [reflexivity|]. apply forallb_forall. reflexivity.
  - cbn [forallb] in H. apply andb_true_iff in H. destruct H as [Ht Hrest].
    cbn [remove_all]. destruct (en_isdir t); [discriminate|].
    rewrite (IH _ Hrest). f_equal. cbn [existsb]. apply filter_step.
Qed.

Lemma NoDup_ids_eq : forall entries a b,
  NoDup (ids entries) -> In a entries -> In b entries -> en_id a = en_id b -> a = b.
Proof.
  induction entries as [|x xs IH]; intros a b N Ha Hb E; [contradiction|].
  cbn in N. inversion N as [|? ? Nx Nxs]; subst.
  destruct Ha as [Ha|Ha]; destruct Hb as [Hb|Hb]; subst.
  - reflexivity.
  - exfalso. apply Nx. rewrite E. apply in_map. exact Hb.
  - exfalso. apply Nx. rewrite <- E. apply in_map. exact Ha.
  - apply IH; assumption.
Qed.

(* whatever the mode and the outcome: nothing is added, and only entries that glob "*.region???.gbk"
   matches can disappear *)
Lemma prepare_only_removes_region : forall reuse dmeta entries r k' es,
  NoDup (ids entries) ->
  prepare_output_directory 1 reuse dmeta entries = (r, k', es) ->
  k' = 1 /\ (forall e, In e es -> In e entries) /\
  (forall e, In e entries -> (en_visible e && en_region e) = false -> In e es).
Proof.
  intros reuse dmeta entries r k' es N H. unfold prepare_output_directory in H.
  change (1 =? 0) with false in H. change (1 =? 1) with true in H. cbn [negb] in H. cbv iota in H.
  destruct (remove_all (glob_region dmeta entries) entries) as [r0 es0] eqn:R.
  revert H. match goal with |- (if ?c then _ else _) = _ -> _ => destruct c end; intros H.
  - inversion H; subst. split; [reflexivity|]. split; auto.
  - inversion H; subst. split; [reflexivity|]. split.
    + apply (remove_all_subset _ _ _ _ R).
    + intros e He Hnr. apply (remove_all_keeps _ _ _ _ R e He).
      intros t Ht Eid. unfold glob_region in Ht. destruct dmeta; [contradiction|].
      apply filter_In in Ht. destruct Ht as [Ht1 Ht2].
      assert (t = e) by (apply (NoDup_ids_eq entries); assumption). subst t.
      rewrite Ht2 in Hnr. discriminate.
Qed.

(* accepted directory (reuse mode, or nothing foreign) without a directory named like a region file:
   exactly the visible *.region???.gbk entries are removed *)
Lemma prepare_accept : forall reuse entries,
  NoDup (ids entries) ->
  forallb en_visible entries = true ->
  (reuse = true \/ existsb foreign entries = false) ->
  forallb (fun e => negb (en_region e && en_isdir e)) entries = true ->
  prepare_output_directory 1 reuse false entries =
  (Ok tt, 1, filter (fun e => negb (en_region e)) entries).
Proof.
  intros reuse entries N V A D. unfold prepare_output_directory, glob_all, glob_region.
  change (1 =? 0) with false. change (1 =? 1) with true. cbn [negb]. cbv iota.
  rewrite (filter_all _ _ _ V). rewrite (filter_ext_eq _ _ _ entries ignore_is_foreign).
  assert (C : negb reuse && negb (match filter foreign entries with [] => true | _ => false end) = false).
  { destruct A as [A|A]; [subst reuse; reflexivity|].
    rewrite (existsb_filter_empty _ _ _ A). destruct reuse; reflexivity. }
  rewrite C.
  assert (T : forallb (fun t => negb (en_isdir t)) (filter (fun e => en_visible e && en_region e) entries) = true).
  { apply forallb_forall. intros t Ht. apply filter_In in Ht. destruct Ht as [Ht1 Ht2].
    rewrite forallb_forall in D. specialize (D t Ht1).
    apply andb_true_iff in Ht2. destruct Ht2 as [_ Ht2]. rewrite Ht2 in D. cbn [andb] in D. exact D. }
  rewrite (remove_all_files _ entries T). cbv iota beta.
  f_equal. apply filter_ext_in. intros e He.
  destruct (en_region e) eqn:Re.
  - cbn [negb]. apply negb_false_iff. apply existsb_exists. exists e. split; [|lia].
    apply filter_In. split; [exact He|]. rewrite forallb_forall in V. rewrite (V e He), Re. reflexivity.
  - cbn [negb]. apply negb_true_iff.
    destruct (existsb (fun t => en_id t =? en_id e) (filter (fun e0 => en_visible e0 && en_region e0) entries)) eqn:X;
      [|reflexivity].
    apply existsb_exists in X. destruct X as [t [Ht Eid]]. apply filter_In in Ht. destruct Ht as [Ht1 Ht2].
    assert (t = e) by (apply (NoDup_ids_eq entries); [assumption|assumption|assumption|lia]). subst t.
    rewrite Re in Ht2. rewrite andb_false_r in Ht2. discriminate.
Qed.

(* the two classes outside the guard: the code accepts a directory with foreign content *)
Lemma refuse_hidden_refuted :
  exists entries, existsb foreign entries = true /\ prepare_output_directory 1 false false entries = (Ok tt, 1, entries).
Proof. exists [mkE 0 false false false false false]. split; reflexivity. Qed.

Lemma refuse_globname_refuted :
  exists entries, existsb foreign entries = true /\ forallb en_visible entries = true /\ prepare_output_directory 1 false true entries = (Ok tt, 1, entries).
Proof. exists [mkE 0 true false false false false]. split; [|split]; reflexivity. Qed.

(* the other kinds of path *)
Lemma prepare_not_directory : forall kind reuse dmeta entries,
  (kind = 0 -> prepare_output_directory kind reuse dmeta entries = (Ok tt, 1, [])) /\ (kind <> 0 -> kind <> 1 -> prepare_output_directory kind reuse dmeta entries = (Err E_Input, kind, entries)).
Proof.
  intros kind reuse dmeta entries. unfold prepare_output_directory. split.
  - intros K. subst kind. reflexivity.
  - intros K0 K1. assert (E0 : kind =? 0 = false) by lia. assert (E1 : kind =? 1 = false) by lia.
    rewrite E0, E1. reflexivity.
Qed.
