(* C20: faithful model of
     antismash/common/serialiser.py : AntismashResults.write_to_file, AntismashResults.to_json, dump_records
     antismash/common/json.py       : dumps / _base_convertor (custom-type conversion inside orjson)
     antismash/main.py              : prepare_output_directory, _refusal_reason, _ignore_patterns,
                                      _run_antismash, run_antismash (the wrapper that sets up logging)
   Part 1 is a trace machine: a world (target file contents, number of logged errors, event trace) is
   threaded through every step in the order the Python code performs them.  Part 2 is a decision function
   over an abstract directory listing.  Part 3 is the stage order of _run_antismash, part 4 the wrapper
   run_antismash: refusal test, then the logging set-up, then _run_antismash.  No proofs in this file. *)
From ASV Require Export Base.

Definition E_Input := 12.   (* AntismashInputError (harness-local code, not in common.ERR) *)
Definition E_Other := 99.   (* any exception class outside the enum, e.g. FileNotFoundError, IsADirectoryError *)

(* ====================================================================== part 1: conversions, then write *)

(* one value of a record's results dictionary, in dictionary order:
   ms_kind  0 = None (skipped: `if m_results is None: continue`), 2 = an instance of (a subclass of)
            ModuleResults, anything else = a value of an invalid type (1 dict, 3 list, 4 str, 5 int, 6 bool,
            7 an object that has a to_json method but is no ModuleResults, 8 a plain object)
   ms_fault 0 = to_json returns, k <> 0 = to_json raises the exception with code k
   ms_val   the payload returned by to_json
   ms_late  what json.dumps meets inside the returned payload:
            0 = only standard types, 1 = an object whose to_json succeeds,
            2 = a value orjson cannot encode and _base_convertor has no conversion for (TypeError),
            anything else = an object whose to_json raises (orjson turns that into JSONEncodeError <: TypeError)
   ms_truth how bool(value) comes out - NEVER READ by the code (the skip test is `is None`, not truthiness):
            0 = an object without __len__ / __bool__ (truthy), 1 = __len__ > 0, 2 = __len__ == 0 (falsy, like an
            antismash.modules.tta.TTAResults without features), 3 = __bool__ returns False, 4 = __bool__ returns
            True although __len__ == 0, 5 = an empty / zero builtin value (falsy), 6 = a non-empty builtin value,
            7 = a subclass of the real TTAResults without features (falsy), 8 = the same with a feature
   ms_ret   shape of the value returned by to_json: 0 = {"v": val [, "c": object]}, 1 = None, 2 = [val [, object]],
            3 = the bare number val, 4 = a string, 5 = val and the object three containers deep, 6 = the object
            inside a tuple, 7 = {} (shapes 1, 3, 4, 7 have no place for an object: ms_late = 0 there; 1 and 7
            show nothing of val)
   ms_tfault 0 = evaluating bool(value) returns, k <> 0 = it raises the exception with code k (a __bool__ or
            __len__ that raises): the debug line `... for mod, resultv in result.items() if resultv` evaluates
            the truthiness of every value of the record's dictionary before the first module is converted *)
Record mspec := mkM { ms_kind : Z; ms_fault : Z; ms_val : Z; ms_late : Z; ms_truth : Z; ms_ret : Z; ms_tfault : Z }.

(* one record: fault codes (0 = none) of the four per-record conversions, in the order of dump_records:
   secmet.to_biopython(), record_to_json(record), gather_record_areas(secmet), secmet.get_gc_content();
   r_orig = the record has an original_id *)
Record rspec := mkR { r_f1 : Z; r_f2 : Z; r_f3 : Z; r_f4 : Z; r_orig : bool }.

(* what the conversion loop produces per module / per record *)
Record mjson := mkMJ { mj_key : Z; mj_val : Z; mj_late : Z; mj_shape : Z }.
Definition rjson := (bool * list mjson)%type.

(* contents of the target: absent, the previous run's bytes, truncated, or the text of converted data *)
Inductive content := CAbsent | COld | CEmpty | CNew (d : list rjson).
Definition cstate (c : content) : Z :=
  match c with CAbsent => 0 | COld => 1 | CEmpty => 2 | CNew _ => 3 end.

(* event codes: 1 to_biopython, 2 record_to_json, 3 gather_record_areas, 4 get_gc_content,
   5 module to_json, 6 conversion of a custom object of a module during json.dumps,
   7 conversion of a custom object in the timings during json.dumps, 8 open(path, "w"), 9 handle.write;
   e_state = state of the target when the event happens *)
Record event := mkEv { e_code : Z; e_i : Z; e_j : Z; e_state : Z }.
Definition EV_OPEN := 8.
Definition EV_WRITE := 9.

Record world := mkW { w_file : content; w_log : Z; w_trace : list event }.

Definition M (A : Type) : Type := world -> world * res A.
Definition ret {A} (a : A) : M A := fun w => (w, Ok a).
Definition raise {A} (k : Z) : M A := fun w => (w, Err k).
Definition bindM {A B} (m : M A) (f : A -> M B) : M B := fun w =>
  match m w with
  | (w', Ok a) => f a w'
  | (w', Err k) => (w', Err k)
  end.
Notation "'doM' x <- e ; f" := (bindM e (fun x => f)) (at level 200, x pattern, e at level 100, f at level 200).

Definition emit (code i j : Z) : M unit := fun w =>
  (mkW (w_file w) (w_log w) (w_trace w ++ [mkEv code i j (cstate (w_file w))]), Ok tt).
(* a conversion step: it happens (event), then raises if the fault plan says so *)
Definition hook (code i j fault : Z) : M unit :=
  doM _ <- emit code i j;
  if fault =? 0 then ret tt else raise fault.
Definition log_error (w : world) : world := mkW (w_file w) (w_log w + 1) (w_trace w).

(* if result: logging.debug("...", ", ".join([... for mod, resultv in result.items() if resultv])):
   the argument is built whatever the log level; bool(resultv) of every value, in dictionary order; nothing
   else is observable of it (no event: how often truthiness is looked at is not part of the model) *)
Fixpoint probe_truth (ms : list mspec) : M unit :=
  match ms with
  | [] => ret tt
  | m :: rest => if ms_tfault m =? 0 then probe_truth rest else raise (ms_tfault m)
  end.

(* for module, m_results in result.items(): ... *)
Fixpoint conv_modules (i j : Z) (ms : list mspec) : M (list mjson) :=
  match ms with
  | [] => ret []
  | m :: rest =>
    if ms_kind m =? 0 then conv_modules i (j + 1) rest                       (* None: continue *)
    else if ms_kind m =? 2 then                                             (* isinstance ModuleResults *)
      doM _ <- hook 5 i j (ms_fault m);
      doM tl <- conv_modules i (j + 1) rest;
      ret (mkMJ j (ms_val m) (ms_late m) (ms_ret m) :: tl)
    else raise E_Type                                                       (* invalid type *)
  end.

(* for i, secmet in enumerate(secmet_records): result = results[i]; ... *)
Fixpoint conv_records (i : Z) (results : list (list mspec)) (records : list rspec) {struct records}
  : M (list rjson) :=
  match records with
  | [] => ret []
  | r :: records' =>
    match results with
    | [] => raise E_Index
    | ms :: results' =>
      doM _ <- hook 1 i 0 (r_f1 r);
      doM _ <- hook 2 i 0 (r_f2 r);
      doM _ <- hook 3 i 0 (r_f3 r);
      doM _ <- hook 4 i 0 (r_f4 r);
      doM _ <- probe_truth ms;
      doM mods <- conv_modules i 0 ms;
      doM tl <- conv_records (i + 1) results' records';
      ret ((r_orig r, mods) :: tl)
    end
  end.

(* json.dumps walking the converted structure in order; default=_base_convertor *)
Definition dumps_value (code i j late : Z) : M unit :=
  if late =? 0 then ret tt
  else if late =? 1 then emit code i j
  else if late =? 2 then raise E_Type
  else doM _ <- emit code i j; raise E_Type.

Fixpoint dumps_modules (i : Z) (ms : list mjson) : M unit :=
  match ms with
  | [] => ret tt
  | m :: rest => doM _ <- dumps_value 6 i (mj_key m) (mj_late m); dumps_modules i rest
  end.

Fixpoint dumps_records (i : Z) (d : list rjson) : M unit :=
  match d with
  | [] => ret tt
  | (_, ms) :: rest => doM _ <- dumps_modules i ms; dumps_records (i + 1) rest
  end.

(* handle kinds: 0 = path of an existing file, 1 = path of a new file in an existing directory,
   2 = an already open file-like object, 3 = path inside a missing directory, 4 = None (dump_records only),
   5 = path of an existing file on a device where open succeeds (and truncates) but handle.write raises
       OSError (no space left): the OS-level failure AFTER truncation, which the property does not speak about *)
Definition is_path (hk : Z) : bool := (hk =? 0) || (hk =? 1) || (hk =? 3) || (hk =? 5).

Definition open_w (hk : Z) : M unit := fun w =>
  if hk =? 3 then (w, Err E_Other)
  else (mkW CEmpty (w_log w) (w_trace w ++ [mkEv EV_OPEN 0 0 (cstate (w_file w))]), Ok tt).
Definition write_text (hk : Z) (d : list rjson) : M unit := fun w =>
  if hk =? 5 then (mkW (w_file w) (w_log w) (w_trace w ++ [mkEv EV_WRITE 0 0 (cstate (w_file w))]), Err E_Other)
  else (mkW (CNew d) (w_log w) (w_trace w ++ [mkEv EV_WRITE 0 0 (cstate (w_file w))]), Ok tt).
Definition open_and_write (hk : Z) (d : list rjson) : M unit :=
  doM _ <- (if is_path hk then open_w hk else ret tt);
  write_text hk d.

(* AntismashResults.write_to_file: converted = json.dumps(self.to_json()) inside try/except TypeError,
   then open, then write.  tl = what json.dumps meets in self.timings_by_record (coded like ms_late) *)
Definition convert_all (records : list rspec) (results : list (list mspec)) (tl : Z) : M (list rjson) :=
  doM d <- conv_records 0 results records;          (* to_json -> dump_records(results, records) *)
  doM _ <- dumps_records 0 d;                       (* json.dumps: "records" ... *)
  doM _ <- dumps_value 7 0 0 tl;                    (* ... then "timings" *)
  ret d.

Definition write_to_file (records : list rspec) (results : list (list mspec)) (tl hk : Z) : M unit := fun w =>
  match convert_all records results tl w with
  | (w1, Err k) =>
    if k =? E_Type then (log_error w1, Err E_Type)  (* logged, re-raised as TypeError(message) *)
    else (w1, Err k)
  | (w1, Ok d) => open_and_write hk d w1
  end.

(* dump_records(results, records, handle) *)
Definition dump_records (records : list rspec) (results : list (list mspec)) (hk : Z) : M (list rjson) := fun w =>
  match conv_records 0 results records w with
  | (w1, Err k) => (w1, Err k)                       (* outside the try: propagates as it is *)
  | (w1, Ok d) =>
    if hk =? 4 then (w1, Ok d)
    else
      match dumps_records 0 d w1 with
      | (w2, Err k) => if k =? E_Type then (log_error w2, Err k) else (w2, Err k)
      | (w2, Ok _) => (doM _ <- open_and_write hk d; ret d) w2
      end
  end.

Definition initial_content (hk : Z) : content :=
  if (hk =? 1) || (hk =? 3) then CAbsent else COld.
Definition initial_world (hk : Z) : world := mkW (initial_content hk) 0 [].

(* ---------- the property on an observed outcome (decidable, evaluated on implementation outputs) ---------- *)
Definition record_faulty (r : rspec) : bool :=
  negb (r_f1 r =? 0) || negb (r_f2 r =? 0) || negb (r_f3 r =? 0) || negb (r_f4 r =? 0).
Definition module_faulty (m : mspec) : bool :=
  negb (ms_kind m =? 0) && (negb (ms_kind m =? 2) || negb (ms_fault m =? 0)).
Definition late_faulty (late : Z) : bool := negb (late =? 0) && negb (late =? 1).
Definition module_late_faulty (m : mspec) : bool := (ms_kind m =? 2) && late_faulty (ms_late m).

Definition truth_fails (ms : list mspec) : bool := existsb (fun m => negb (ms_tfault m =? 0)) ms.

Definition stage1_fails (records : list rspec) (results : list (list mspec)) : bool :=
  (length results <? length records)%nat
  || existsb (fun p => record_faulty (fst p) || truth_fails (snd p) || existsb module_faulty (snd p))
             (combine records results).
Definition stage2_fails (records : list rspec) (results : list (list mspec)) : bool :=
  existsb (fun p => existsb module_late_faulty (snd p)) (combine records results).
(* some conversion fails: write_to_file looks at everything; dump_records does not serialise timings,
   and with handle=None does not serialise at all *)
Definition conversion_fails (records : list rspec) (results : list (list mspec)) (tl : Z) : bool :=
  stage1_fails records results || stage2_fails records results || late_faulty tl.
Definition conversion_fails_dump (records : list rspec) (results : list (list mspec)) (hk : Z) : bool :=
  stage1_fails records results || (negb (hk =? 4) && stage2_fails records results).

(* the failures that do not depend on whether (or how often) the code looks at the truthiness of a value: used
   by the run-time specifications below.  A plan whose only fault is a raising bool(value) MAY fail (the code as
   it is evaluates it in a debug line and does fail: conversion_fails, the theorems); the property is met either
   way as long as a reported failure leaves the target untouched *)
Definition stage1_core_fails (records : list rspec) (results : list (list mspec)) : bool :=
  (length results <? length records)%nat
  || existsb (fun p => record_faulty (fst p) || existsb module_faulty (snd p)) (combine records results).
Definition core_fails (records : list rspec) (results : list (list mspec)) (tl : Z) : bool :=
  stage1_core_fails records results || stage2_fails records results || late_faulty tl.
Definition core_fails_dump (records : list rspec) (results : list (list mspec)) (hk : Z) : bool :=
  stage1_core_fails records results || (negb (hk =? 4) && stage2_fails records results).

(* the data a fault-free conversion yields *)
Fixpoint expected_modules (j : Z) (ms : list mspec) : list mjson :=
  match ms with
  | [] => []
  | m :: rest =>
    if ms_kind m =? 0 then expected_modules (j + 1) rest
    else mkMJ j (ms_val m) (ms_late m) (ms_ret m) :: expected_modules (j + 1) rest
  end.
Definition expected_data (records : list rspec) (results : list (list mspec)) : list rjson :=
  map (fun p => (r_orig (fst p), expected_modules 0 (snd p))) (combine records results).

(* ====================================================================== part 2: the output directory *)

(* a normalised absolute path (what os.path.abspath returns), as far as the comparison in _ignore_patterns
   can tell paths apart: p_dir = the directory the path lies in (0 = the output directory itself,
   1 = the parent of the output directory, 2 = a sub-directory of the output directory, anything else = some
   other directory), p_base = its base name (an identifier: equal numbers = equal names) *)
Record apath := mkP { p_dir : Z; p_base : Z }.
Definition apath_eqb (a b : apath) : bool := (p_dir a =? p_dir b) && (p_base a =? p_base b).

(* what the code reads besides the directory: config.logfile ("" by default: lg_given = false; otherwise
   lg_path = its absolute normalised form) and the current working directory (part of the input; since the
   repair of FC20c it is only consulted through os.path.abspath of a given log file, i.e. through lg_path) *)
Record env := mkEnv { lg_given : bool; lg_path : apath; cwd : apath }.

(* one directory entry, as the code can tell them apart:
   en_name      base name of the entry (identifier, see apath)
   en_visible   the name does not start with a dot (only such names are matched by a glob "*...")
   en_input     the path ends with "/input"
   en_isdir     os.path.isdir
   en_region    matched by glob "*.region???.gbk" *)
Record entry := mkE { en_id : Z; en_name : Z; en_visible : bool; en_input : bool; en_isdir : bool;
                      en_region : bool }.
(* os.path.abspath(entry) for entry = os.path.join(name, base) *)
Definition entry_path (e : entry) : apath := mkP 0 (en_name e).

(* _ignore_patterns: True = the entry counts as foreign content.
   `if config.logfile and os.path.abspath(entry) == os.path.abspath(config.logfile)`: without a log file
   nothing is compared (os.path.abspath("") would be the current directory) *)
Definition ignore_patterns (v : env) (e : entry) : bool :=
  if en_input e && en_isdir e then false
  else if lg_given v && apath_eqb (entry_path e) (lg_path v) then false
  else true.

(* dmeta = the directory name itself contains glob metacharacters.
   (os.path.join(name, entry) for entry in os.listdir(name)): every entry, hidden or not, whatever the
   directory is called *)
Definition list_dir (dmeta : bool) (entries : list entry) : list entry := entries.
(* glob.glob(os.path.join(glob.escape(name), "*.region???.gbk")): the directory name is escaped, so it is
   matched literally whether or not it contains metacharacters; the pattern never matches a leading dot *)
Definition glob_region (dmeta : bool) (entries : list entry) : list entry :=
  filter (fun e => en_visible e && en_region e) entries.

(* for genbank in glob(...): os.remove(genbank) - on a directory os.remove raises IsADirectoryError *)
Fixpoint remove_all (targets : list entry) (entries : list entry) : res unit * list entry :=
  match targets with
  | [] => (Ok tt, entries)
  | t :: rest =>
    if en_isdir t then (Err E_Other, entries)
    else remove_all rest (filter (fun e => negb (en_id e =? en_id t)) entries)
  end.

(* kind: 0 = the path does not exist, 1 = a directory, anything else = exists but is not a directory.
   reuse = input_file.endswith(".json").

   _refusal_reason(name, input_file), called for a path that exists: true = a reason is returned (the path is
   not a directory, or the run is fresh and the directory holds something _ignore_patterns does not exempt).
   It reads the directory and writes nothing.  Since the repair of FC20d it is the one refusal test, used by
   prepare_output_directory and, before logging is set up, by run_antismash (part 4) *)
Definition refusal_reason (v : env) (kind : Z) (reuse dmeta : bool) (entries : list entry) : bool :=
  if negb (kind =? 1) then true
  else negb reuse
       && negb (match filter (ignore_patterns v) (list_dir dmeta entries) with [] => true | _ => false end).

(* Result: outcome, kind afterwards, listing afterwards *)
Definition prepare_output_directory (v : env) (kind : Z) (reuse dmeta : bool) (entries : list entry)
  : res unit * Z * list entry :=
  if kind =? 0 then (Ok tt, 1, [])                                      (* os.mkdir(name) *)
  else if refusal_reason v kind reuse dmeta entries then (Err E_Input, kind, entries)
  else let '(r, es) := remove_all (glob_region dmeta entries) entries in (r, kind, es).

(* the property: an entry is foreign unless it is the input directory or the log file, i.e. the very path
   given with --logfile (no log file was asked for when lg_given is false) *)
Definition is_logfile (v : env) (e : entry) : bool := lg_given v && apath_eqb (entry_path e) (lg_path v).
Definition foreign (v : env) (e : entry) : bool := negb ((en_input e && en_isdir e) || is_logfile v e).
(* no guard and no finding class any more: the three classes on which the code used to accept foreign
   content (FC20a a dot file hidden from glob "*", FC20b a directory name that is itself a glob pattern,
   FC20c the current directory taken for the log file when none was asked for) are repaired; the spec
   functions 13 / 14 report guard = 1, class = 0 on every input *)

Definition ids (l : list entry) : list Z := map en_id l.
Definition zlist_eqb (a b : list Z) : bool := list_eqb Z.eqb a b.
Definition is_err {A} (r : res A) : bool := match r with Err _ => true | Ok _ => false end.

(* spec on an observed outcome (result is-error flag, kind after, ids after) *)
Definition dir_spec_ok (v : env) (kind : Z) (reuse : bool) (entries : list entry) (err : bool) (kind' : Z)
  (after : list Z) : bool :=
  if negb (kind =? 1) then true
  else if negb reuse && existsb (foreign v) entries then err && (kind' =? 1) && zlist_eqb after (ids entries)
  else
    (* accepted (reuse mode, or nothing foreign): only region GenBank entries may disappear, nothing may be
       added or changed *)
    (kind' =? 1) && forallb (fun e => (en_region e && en_visible e) || existsb (Z.eqb (en_id e)) after) entries
    && forallb (fun x => existsb (fun e => en_id e =? x) entries) after.

(* ====================================================================== part 3: _run_antismash *)

(* the order of main._run_antismash (after the option handling): check_prerequisites, verify_options,
   read_data, prepare_output_directory, pre_process_sequences, per record run_detection / get_regions /
   analyse_record, results.write_to_file(json), annotate_records, write_outputs, write_profiling_results.
   Every stage other than prepare_output_directory and write_to_file is a black box that happens (event) and
   may raise (fault code); events carry the state of the JSON target like those of part 1.
   Stage event codes: 20 check_prerequisites, 21 verify_options, 22 read_data, 23 prepare_output_directory,
   24 pre_process_sequences, 25 run_detection (record i), 26 analyse_record (record i), 28 annotate_records,
   29 write_outputs, 30 write_profiling_results *)
Definition ST_PREPARE := 23.
Definition ST_ANNOTATE := 28.

(* one record of the run: record.skip, fault of run_detection, record.get_regions() non-empty, fault of
   analyse_record *)
Record rplan := mkRP { rp_skip : bool; rp_fdet : Z; rp_regions : bool; rp_fana : Z }.
(* pp_verify = verify_options returns True; pp_profile = options.profile *)
Record pplan := mkPP { pp_prereq : Z; pp_verify : bool; pp_read : Z; pp_pre : Z; pp_recs : list rplan;
                       pp_annotate : Z; pp_outputs : Z; pp_profile : bool }.

(* for record, module_results in zip(results.records, results.results): ... *)
Fixpoint run_records (i : Z) (rs : list rplan) (results : list (list mspec)) {struct rs} : M unit :=
  match rs, results with
  | r :: rs', _ :: results' =>
    if rp_skip r then run_records (i + 1) rs' results'                      (* if record.skip: continue *)
    else
      doM _ <- hook 25 i 0 (rp_fdet r);
      if negb (rp_regions r) then run_records (i + 1) rs' results'         (* nothing found: continue *)
      else doM _ <- hook 26 i 0 (rp_fana r); run_records (i + 1) rs' results'
  | _, _ => ret tt
  end.

(* up to read_data; false = verify_options failed (return 1) *)
Definition before_prepare (pl : pplan) : M bool :=
  doM _ <- hook 20 0 0 (pp_prereq pl);
  doM _ <- emit 21 0 0;
  if negb (pp_verify pl) then ret false
  else doM _ <- hook 22 0 0 (pp_read pl); ret true.

(* pre_process_sequences and the detection / analysis loop *)
Definition analysis_phase (pl : pplan) (results : list (list mspec)) : M unit :=
  doM _ <- hook 24 0 0 (pp_pre pl);
  run_records 0 (pp_recs pl) results.
(* what follows the JSON: annotate_records, write_outputs, profiling results, return 0 *)
Definition output_phase (pl : pplan) : M Z :=
  doM _ <- hook ST_ANNOTATE 0 0 (pp_annotate pl);
  doM _ <- hook 29 0 0 (pp_outputs pl);
  doM _ <- (if pp_profile pl then emit 30 0 0 else ret tt);
  ret 0.
(* everything after prepare_output_directory; the timings were cleared after read_data and hold plain
   numbers only (tl = 0) *)
Definition after_prepare (pl : pplan) (records : list rspec) (results : list (list mspec)) (hk : Z) : M Z :=
  doM _ <- analysis_phase pl results;
  doM _ <- write_to_file records results 0 hk;
  output_phase pl.

(* result: world (JSON target, log, trace), return code or exception, kind and listing of the output
   directory afterwards (the JSON target itself is tracked by the world, not by the listing) *)
Definition run_antismash (pl : pplan) (v : env) (kind : Z) (reuse dmeta : bool) (entries : list entry)
  (records : list rspec) (results : list (list mspec)) (hk : Z) (w : world)
  : world * res Z * Z * list entry :=
  match before_prepare pl w with
  | (w1, Err k) => (w1, Err k, kind, entries)
  | (w1, Ok false) => (w1, Ok 1, kind, entries)
  | (w1, Ok true) =>
    let w2 := fst (emit ST_PREPARE 0 0 w1) in
    match prepare_output_directory v kind reuse dmeta entries with
    | (Err k, kind', es) => (w2, Err k, kind', es)
    | (Ok _, kind', es) =>
      let '(w3, r) := after_prepare pl records results hk w2 in (w3, r, kind', es)
    end
  end.

(* the property on an observed outcome of the pipeline: ok0 = returned 0, kind' / after = the directory
   afterwards, state' = state of the JSON target afterwards, evs = (code, state of the JSON target) of the
   observed events.
   - fresh run on an existing directory with foreign content: nothing but the stages up to
     prepare_output_directory happens, the run does not succeed, directory and JSON target are untouched
   - every conversion sees the JSON target untouched; a failing conversion leaves it untouched, is reported,
     and neither annotate_records nor write_outputs run
   - annotate_records / write_outputs / profiling only ever happen after the new JSON is in place *)
Definition pipeline_spec_ok (v : env) (kind : Z) (reuse : bool) (entries : list entry)
  (records : list rspec) (results : list (list mspec)) (hk : Z)
  (ok0 : bool) (kind' : Z) (after : list Z) (state' : Z) (evs : list (Z * Z)) : bool :=
  let s0 := cstate (initial_content hk) in
  forallb (fun e => negb (fst e <=? 7) || (snd e =? s0)) evs
  && forallb (fun e => negb (ST_ANNOTATE <=? fst e) || (snd e =? 3)) evs
  && (if core_fails records results 0
      then negb ok0 && (state' =? s0) && forallb (fun e => fst e <? ST_ANNOTATE) evs else true)
  && (if (kind =? 1) && negb reuse && existsb (foreign v) entries
      then negb ok0 && (kind' =? 1) && zlist_eqb after (ids entries) && (state' =? s0)
           && forallb (fun e => (20 <=? fst e) && (fst e <=? ST_PREPARE)) evs
      else true).

(* ====================================================================== part 4: run_antismash (wrapper) *)

(* main.run_antismash(sequence_file, options), for a real run (an input is given, list_plugins and
   check_prereqs_only are off):
     input_file = sequence_file or options.reuse_results
     if options.logfile and input_file and not (...):
         output_dir = options.output_dir or _default_output_directory(input_file)
         reason = _refusal_reason(output_dir, input_file) if os.path.exists(output_dir) else None
         if reason: logging.error(reason); raise AntismashInputError(reason)
     with logs.changed_logging(logfile=options.logfile, ...):
         try: result = _run_antismash(sequence_file, options)
         except AntismashInputError as err: logging.error(str(err)); raise

   logs.changed_logging with a log file WRITES before _run_antismash starts: os.makedirs(dirname(logfile)) when
   that directory is missing, then logging.FileHandler(logfile), which creates the file or opens it for
   appending.  What that does to the output directory is a parameter of the model (outcome of the set-up, kind
   and listing of the output directory afterwards): the theorems hold for EVERY such effect.  Without a log
   file the set-up touches no file *)
Definition log_effect := Z -> list entry -> res unit * Z * list entry.

(* the refusal test of the wrapper: only with a log file, only for a path that exists *)
Definition early_refusal (v : env) (kind : Z) (reuse dmeta : bool) (entries : list entry) : bool :=
  lg_given v && negb (kind =? 0) && refusal_reason v kind reuse dmeta entries.

(* except errors.AntismashInputError as err: logging.error(str(err)); raise *)
Definition log_input_error (out : world * res Z * Z * list entry) : world * res Z * Z * list entry :=
  let '(w, r, kd, es) := out in
  match r with
  | Err k => if k =? E_Input then (log_error w, r, kd, es) else out
  | Ok _ => out
  end.

(* run_antismash of part 3 is main._run_antismash; this is main.run_antismash *)
Definition outer_run_antismash (setup : log_effect) (pl : pplan) (v : env) (kind : Z) (reuse dmeta : bool)
  (entries : list entry) (records : list rspec) (results : list (list mspec)) (hk : Z) (w : world)
  : world * res Z * Z * list entry :=
  if early_refusal v kind reuse dmeta entries
  then (log_error w, Err E_Input, kind, entries)          (* refused before anything is set up or written *)
  else
    match (if lg_given v then setup kind entries else (Ok tt, kind, entries)) with
    | (Err k, kind1, entries1) => (w, Err k, kind1, entries1)      (* the set-up itself raises *)
    | (Ok _, kind1, entries1) =>
      log_input_error (run_antismash pl v kind1 reuse dmeta entries1 records results hk w)
    end.

(* the effect of the real set-up on the output directory, as far as the listing can express it (used by the
   correspondence run, function id 5; the theorems do not depend on it): a log file that does not lie
   directly in the output directory leaves the listing alone (the harness generates no log file below a
   sub-directory for function 5); directly inside: a missing output directory is created by os.makedirs and
   gets the new file; a path that is not a directory makes FileHandler raise NotADirectoryError; an entry that
   carries the log file's name is appended to (a directory of that name: IsADirectoryError); otherwise the
   new file appears, id -1 (narrowing: a new log file has a visible name that is not region-like) *)
Definition log_entry (v : env) : entry := mkE (-1) (p_base (lg_path v)) true false false false.
Definition log_setup (v : env) : log_effect := fun kind entries =>
  if negb (p_dir (lg_path v) =? 0) then (Ok tt, kind, entries)
  else if kind =? 0 then (Ok tt, 1, [log_entry v])
  else if negb (kind =? 1) then (Err E_Other, kind, entries)
  else match find (fun e => en_name e =? p_base (lg_path v)) entries with
       | Some e => if en_isdir e then (Err E_Other, kind, entries) else (Ok tt, kind, entries)
       | None => (Ok tt, kind, log_entry v :: entries)
       end.

(* ====================================================================== encoding *)
Definition dM : dec mspec := fun l =>
  match l with a :: b :: c :: d :: e :: f :: g :: r => Some (mkM a b c d e f g, r) | _ => None end.
Definition dR : dec rspec := fun l =>
  match l with a :: b :: c :: d :: e :: r => Some (mkR a b c d (negb (e =? 0)), r) | _ => None end.
Definition dE (id : Z) : dec entry := fun l =>
  match l with a :: b :: c :: d :: e :: r =>
    Some (mkE id a (negb (b =? 0)) (negb (c =? 0)) (negb (d =? 0)) (negb (e =? 0)), r)
  | _ => None end.
Definition dEnv : dec env := fun l =>
  match l with g :: a :: b :: c :: d :: r => Some (mkEnv (negb (g =? 0)) (mkP a b) (mkP c d), r) | _ => None end.
Fixpoint number_entries (i : Z) (l : list entry) : list entry :=
  match l with
  | [] => []
  | e :: r => mkE i (en_name e) (en_visible e) (en_input e) (en_isdir e) (en_region e) :: number_entries (i + 1) r
  end.

(* what of the payload shows in the returned value / in the text: None and {} show nothing of val *)
Definition shown_val (m : mjson) : Z := if (mj_shape m =? 1) || (mj_shape m =? 7) then 0 else mj_val m.
Definition eMJret (m : mjson) : list Z := [mj_key m; mj_shape m; shown_val m; mj_late m].
Definition eMJtext (m : mjson) : list Z :=
  [mj_key m; mj_shape m; shown_val m; if mj_late m =? 1 then mj_val m else -1].
Definition eData (em : mjson -> list Z) (d : list rjson) : list Z :=
  eList (fun p : rjson => eBool (fst p) ++ eList em (snd p)) d.
Definition eContent (c : content) : list Z :=
  match c with CAbsent => [0] | COld => [1] | CEmpty => [2] | CNew d => 3 :: eData eMJtext d end.
Definition eEvent (e : event) : list Z := [e_code e; e_i e; e_j e; e_state e].
Definition conv_events (t : list event) : list event := filter (fun e => e_code e <=? 7) t.

Definition eOutcome {A} (e : A -> list Z) (wrapped : bool) (out : world * res A) : list Z :=
  let '(w, r) := out in
  eRes e r ++ eBool wrapped ++ eContent (w_file w) ++ [w_log w] ++ eList eEvent (conv_events (w_trace w)).

Definition dRP : dec rplan := fun l =>
  match l with a :: b :: c :: d :: r => Some (mkRP (negb (a =? 0)) b (negb (c =? 0)) d, r) | _ => None end.
Definition dPP : dec pplan := fun l =>
  match l with a :: b :: c :: d :: e :: f :: g :: r =>
    match dList dRP r with
    | Some (rs, r') => Some (mkPP a (negb (b =? 0)) c d rs e f (negb (g =? 0)), r')
    | None => None end
  | _ => None end.
Definition pipeline_events (t : list event) : list event :=
  filter (fun e => (e_code e <=? 7) || (20 <=? e_code e)) t.
(* pipeline input: plan, environment, kind, reuse, dmeta, entries, handle kind, records, results *)
Definition dPipeInput :=
  dPair (dPair (dPair (dPair (dPair (dPair (dPair (dPair dPP dEnv) dZ) dBool) dBool) (dList (dE 0))) dZ)
               (dList dR)) (dList (dList dM)).
Definition dEvPair : dec (Z * Z) := dPair dZ dZ.

Definition dWriteInput : dec (Z * Z * list rspec * list (list mspec)) :=
  dPair (dPair (dPair dZ dZ) (dList dR)) (dList (dList dM)).

(* the observed outcome of write_to_file / dump_records as sent by the harness:
   error flag, state of the target afterwards, states seen by the conversion events *)
Definition write_spec_ok (fails may_fail : bool) (hk : Z) (err : bool) (state' : Z) (ev_states : list Z) : bool :=
  let s0 := cstate (initial_content hk) in
  let unfailing :=                                      (* what is asked when no conversion fails *)
    if hk =? 3 then err && (state' =? s0)
    else if hk =? 5 then err                            (* an I/O failure: reported; the property asks no more *)
    else negb err && ((state' =? 3) || (hk =? 4)) in
  forallb (Z.eqb s0) ev_states &&
  (if fails then err && (state' =? s0)
   else if may_fail then (err && (state' =? s0)) || unfailing   (* bool(value) raised, or was never evaluated *)
   else unfailing).

Definition run_C20 (fn : Z) (l : list Z) : list Z :=
  match fn with
  | 1 => match dWriteInput l with
         | Some (hk, tl, records, results, []) =>
           let out := write_to_file records results tl hk (initial_world hk) in
           eOutcome (fun _ : unit => []) (match snd out with Err k => k =? E_Type | Ok _ => false end) out
         | _ => bad_input end
  | 2 => match dWriteInput l with
         | Some (hk, _, records, results, []) =>
           eOutcome (eData eMJret) false (dump_records records results hk (initial_world hk))
         | _ => bad_input end
  | 3 => match dPair (dPair (dPair (dPair dEnv dZ) dBool) dBool) (dList (dE 0)) l with
         | Some (v, kind, reuse, dmeta, es, []) =>
           let entries := number_entries 0 es in
           let '(r, kind', after) := prepare_output_directory v kind reuse dmeta entries in
           eRes (fun _ : unit => []) r ++ [kind'] ++ eList (fun x => [x]) (ids after)
         | _ => bad_input end
  | 4 => match dPipeInput l with
         | Some (pl, v, kind, reuse, dmeta, es, hk, records, results, []) =>
           let entries := number_entries 0 es in
           let '(w, r, kind', after) :=
             run_antismash pl v kind reuse dmeta entries records results hk (initial_world hk) in
           eRes (fun rc : Z => [rc]) r ++ [kind'] ++ eList (fun x => [x]) (ids after)
           ++ [cstate (w_file w); w_log w] ++ eList eEvent (pipeline_events (w_trace w))
         | _ => bad_input end
  | 5 => match dPipeInput l with
         | Some (pl, v, kind, reuse, dmeta, es, hk, records, results, []) =>
           let entries := number_entries 0 es in
           let '(w, r, kind', after) :=
             outer_run_antismash (log_setup v) pl v kind reuse dmeta entries records results hk (initial_world hk) in
           eRes (fun rc : Z => [rc]) r ++ [kind'] ++ eList (fun x => [x]) (ids after)
           ++ [cstate (w_file w); w_log w] ++ eList eEvent (pipeline_events (w_trace w))
         | _ => bad_input end
  | 14 | 15 =>
         match dPair dPipeInput (dPair (dPair (dPair (dPair dBool dZ) (dList dZ)) dZ) (dList dEvPair)) l with
         | Some (pl, v, kind, reuse, dmeta, es, hk, records, results, (ok0, kind', after, state', evs), []) =>
           let entries := number_entries 0 es in
           eBool (pipeline_spec_ok v kind reuse entries records results hk ok0 kind' after state' evs) ++ [1; 0]
         | _ => bad_input end
  (* specifications evaluated on the implementation's output: payload ++ [err; state'] ++ list(states) *)
  | 11 | 12 =>
         match dPair dWriteInput (dPair (dPair dBool dZ) (dList dZ)) l with
         | Some (hk, tl, records, results, (err, state', states), []) =>
           let fails := if fn =? 11 then core_fails records results tl
                        else core_fails_dump records results hk in
           let may_fail := if fn =? 11 then conversion_fails records results tl
                           else conversion_fails_dump records results hk in
           eBool (write_spec_ok fails may_fail hk err state' states) ++ [1; 0]
         | _ => bad_input end
  | 13 => match dPair (dPair (dPair (dPair (dPair dEnv dZ) dBool) dBool) (dList (dE 0)))
                        (dPair (dPair dBool dZ) (dList dZ)) l with
         | Some (v, kind, reuse, dmeta, es, (err, kind', after), []) =>
           let entries := number_entries 0 es in
           eBool (dir_spec_ok v kind reuse entries err kind' after) ++ [1; 0]
         | _ => bad_input end
  | _ => bad_input
  end.
