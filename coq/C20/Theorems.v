(* C20 - property theorems: a failed or refused write never damages existing results. *)
From ASV.C20 Require Import Model Proofs.

(* write_to_file, for every number of records and results, every fault plan, every handle kind and every
   initial world: if any conversion of the plan fails (a per-record conversion, a module's to_json, a value
   that is not a ModuleResults, missing results, a custom object met by json.dumps in a module's payload or
   in the timings) the target is exactly what it was and the call ends in an error, which is logged and
   re-raised with the message when it is a TypeError and propagates unlogged otherwise; with no failing
   conversion the target holds the text of the converted data (or, for a path in a missing directory, open
   fails and the target is still as it was; handle kind 5 is the OS-level write failure after truncation,
   see C20_io_failure_after_truncation_loses_file) *)
Theorem C20_write_atomic_wrt_conversion : forall records results tl hk w w' r,
  write_to_file records results tl hk w = (w', r) ->
  (conversion_fails records results tl = true ->
     w_file w' = w_file w /\
     exists k, r = Err k /\ (k = E_Type -> w_log w' = w_log w + 1) /\ (k <> E_Type -> w_log w' = w_log w)) /\
  (conversion_fails records results tl = false ->
     (hk <> 3 -> hk <> 5 -> r = Ok tt /\ w_file w' = CNew (expected_data records results)) /\
     (hk = 3 -> r = Err E_Other /\ w_file w' = w_file w) /\
     (hk = 5 -> r = Err E_Other /\ w_file w' = CEmpty)).
Proof. exact write_atomic. Qed.
Print Assumptions C20_write_atomic_wrt_conversion.

(* the same for dump_records(results, records, handle), including handle=None (nothing is serialised or
   written) *)
Theorem C20_dump_records_atomic : forall records results hk w w' r,
  dump_records records results hk w = (w', r) ->
  (conversion_fails_dump records results hk = true -> w_file w' = w_file w /\ exists k, r = Err k) /\
  (conversion_fails_dump records results hk = false ->
     (hk = 4 -> r = Ok (expected_data records results) /\ w_file w' = w_file w) /\
     (hk = 3 -> r = Err E_Other /\ w_file w' = w_file w) /\
     (hk = 5 -> r = Err E_Other /\ w_file w' = CEmpty) /\
     (hk <> 3 -> hk <> 4 -> hk <> 5 ->
        r = Ok (expected_data records results) /\ w_file w' = CNew (expected_data records results))).
Proof. exact dump_atomic. Qed.
Print Assumptions C20_dump_records_atomic.

(* event order: the trace of a write_to_file call is conversion events, every one of which saw the target
   in its initial state, followed by the open/write events; and whenever the target is opened or written,
   every conversion of the plan has already taken place (none is left for later) and none failed *)
Theorem C20_open_after_all_conversions : forall records results tl hk w w' r,
  write_to_file records results tl hk w = (w', r) ->
  exists convs io,
    w_trace w' = w_trace w ++ convs ++ io /\
    Forall (conv_ev (cstate (w_file w))) convs /\
    Forall io_ev io /\
    (io <> [] -> conversion_fails records results tl = false /\
                 convs = all_conversions (cstate (w_file w)) records results tl /\ (hk <> 5 -> r = Ok tt)).
Proof. exact write_trace. Qed.
Print Assumptions C20_open_after_all_conversions.

(* the conversion phase alone (dump_records + json.dumps), whatever its outcome, leaves file and log
   untouched and only appends conversion events *)
Theorem C20_conversions_do_not_touch_target : forall records results tl w,
  exists evs, fst (convert_all records results tl w) = ext w evs /\ Forall (conv_ev (cstate (w_file w))) evs.
Proof. exact conv_like_convert_all. Qed.
Print Assumptions C20_conversions_do_not_touch_target.

(* the limit of the guarantee, stated rather than hidden: when every conversion succeeds but the operating
   system fails the write after open(path, "w") has truncated the file (handle kind 5: no space left on
   device), the previous results are lost and the OSError propagates unlogged.  The property speaks about
   conversion failures only; this is the behaviour of the code for the I/O failure it does not speak about *)
Theorem C20_io_failure_after_truncation_loses_file : forall records results tl w w' r,
  conversion_fails records results tl = false ->
  write_to_file records results tl 5 w = (w', r) ->
  r = Err E_Other /\ w_file w' = CEmpty /\ w_log w' = w_log w.
Proof. exact io_failure_loses_file. Qed.
Print Assumptions C20_io_failure_after_truncation_loses_file.

(* refusal: fresh input (not a .json), the output directory exists, and some entry is neither the input
   directory nor the log file (= the very path given with --logfile): AntismashInputError and the listing is
   unchanged.  No guard any more: the entries may be hidden (names starting with a dot), the directory name may
   contain glob metacharacters (dmeta), the current directory may be anywhere - the three classes that used to
   be excluded (FC20a, FC20b, FC20c) are repaired in the code *)
Theorem C20_refuse : forall v dmeta entries,
  existsb (foreign v) entries = true ->
  prepare_output_directory v 1 false dmeta entries = (Err E_Input, 1, entries).
Proof. exact refuse_fresh. Qed.
Print Assumptions C20_refuse.

(* the log-file exemption is exact: an entry escapes the emptiness test iff it is the input directory or
   a log file was asked for and its absolute path equals the absolute path of config.logfile - a base name is
   not enough, and without --logfile nothing is taken for the log file *)
Theorem C20_log_exemption_exact : forall v e,
  ignore_patterns v e = false <->
  (en_input e = true /\ en_isdir e = true) \/ (lg_given v = true /\ entry_path e = lg_path v).
Proof. exact ignore_exact. Qed.
Print Assumptions C20_log_exemption_exact.

(* --logfile points somewhere else (not directly into the output directory): every entry other than the
   input directory makes the run refuse, whatever the entry is called - in particular a file or directory
   that merely has the log file's name *)
Theorem C20_refuse_log_elsewhere : forall v dmeta entries,
  lg_given v = true -> p_dir (lg_path v) <> 0 ->
  existsb (fun e => negb (en_input e && en_isdir e)) entries = true ->
  prepare_output_directory v 1 false dmeta entries = (Err E_Input, 1, entries).
Proof. exact refuse_log_elsewhere. Qed.
Print Assumptions C20_refuse_log_elsewhere.

(* the three formerly refuted classes, now positive statements (the repaired defects FC20a/b/c):
   a foreign entry whose name starts with a dot is seen (os.listdir instead of glob "*") ... *)
Theorem C20_refuse_hidden : forall v dmeta entries e,
  In e entries -> en_visible e = false -> foreign v e = true ->
  prepare_output_directory v 1 false dmeta entries = (Err E_Input, 1, entries).
Proof. exact refuse_hidden. Qed.
Print Assumptions C20_refuse_hidden.

(* ... a directory whose name contains glob metacharacters is refused like any other, and in every mode it is
   treated exactly like the same directory under a plain name (so in reuse mode its stale region files go,
   see C20_accept_removes_region_files) ... *)
Theorem C20_refuse_globname : forall v entries,
  existsb (foreign v) entries = true ->
  prepare_output_directory v 1 false true entries = (Err E_Input, 1, entries).
Proof. exact refuse_globname. Qed.
Print Assumptions C20_refuse_globname.

Theorem C20_globname_irrelevant : forall v kind reuse dmeta entries,
  prepare_output_directory v kind reuse dmeta entries = prepare_output_directory v kind reuse false entries.
Proof. exact globname_irrelevant. Qed.
Print Assumptions C20_globname_irrelevant.

(* ... and without --logfile every entry other than the input directory makes the run refuse, wherever the
   current directory is - also when it is that very entry; the current directory plays no part at all *)
Theorem C20_refuse_cwd : forall v dmeta entries,
  lg_given v = false ->
  existsb (fun e => negb (en_input e && en_isdir e)) entries = true ->
  prepare_output_directory v 1 false dmeta entries = (Err E_Input, 1, entries).
Proof. exact refuse_nolog. Qed.
Print Assumptions C20_refuse_cwd.

Theorem C20_cwd_irrelevant : forall g lp c1 c2 kind reuse dmeta entries,
  prepare_output_directory (mkEnv g lp c1) kind reuse dmeta entries =
  prepare_output_directory (mkEnv g lp c2) kind reuse dmeta entries.
Proof. exact cwd_irrelevant. Qed.
Print Assumptions C20_cwd_irrelevant.

(* in every mode and whatever the outcome (accepted, refused, os.remove failing half way): nothing is added
   to an existing directory and only entries matched by "*.region???.gbk" can disappear *)
Theorem C20_only_region_files_removed : forall v reuse dmeta entries r k' es,
  NoDup (ids entries) ->
  prepare_output_directory v 1 reuse dmeta entries = (r, k', es) ->
  k' = 1 /\ (forall e, In e es -> In e entries) /\
  (forall e, In e entries -> (en_visible e && en_region e) = false -> In e es).
Proof. exact prepare_only_removes_region. Qed.
Print Assumptions C20_only_region_files_removed.

(* an accepted directory (reuse mode with any content, or fresh mode with nothing foreign), all entries
   visible, no directory named like a region file, whatever the directory is called: success, and exactly the
   region GenBank files go *)
Theorem C20_accept_removes_region_files : forall v reuse dmeta entries,
  NoDup (ids entries) ->
  forallb en_visible entries = true ->
  (reuse = true \/ existsb (foreign v) entries = false) ->
  forallb (fun e => negb (en_region e && en_isdir e)) entries = true ->
  prepare_output_directory v 1 reuse dmeta entries =
  (Ok tt, 1, filter (fun e => negb (en_region e)) entries).
Proof. exact prepare_accept. Qed.
Print Assumptions C20_accept_removes_region_files.

(* a missing path is created; a path that exists and is not a directory is refused and left alone *)
Theorem C20_not_a_directory : forall v kind reuse dmeta entries,
  (kind = 0 -> prepare_output_directory v kind reuse dmeta entries = (Ok tt, 1, [])) /\
  (kind <> 0 -> kind <> 1 -> prepare_output_directory v kind reuse dmeta entries = (Err E_Input, kind, entries)).
Proof. exact prepare_not_directory. Qed.
Print Assumptions C20_not_a_directory.

(* ---- which results are skipped, which are converted (the guard `if m_results is None`) ---- *)

(* a value of a record's results dictionary that cannot be converted - of an invalid type (anything that is
   neither None nor a ModuleResults), or a ModuleResults whose to_json raises, or one whose payload holds
   something json.dumps cannot encode - at ANY position of ANY record, and WHATEVER its truthiness (ms_truth is
   not mentioned: an empty results object, a results object whose __bool__ says False, an empty dict left over
   from a reused run are not excused): write_to_file ends in an error and the target is what it was *)
Theorem C20_failing_result_protects_file_whatever_its_truthiness :
  forall records results tl hk w w' res i r ms m,
  write_to_file records results tl hk w = (w', res) ->
  nth_error records i = Some r -> nth_error results i = Some ms -> In m ms ->
  ms_kind m <> 0 ->
  (ms_kind m <> 2 \/ ms_fault m <> 0 \/ late_faulty (ms_late m) = true) ->
  w_file w' = w_file w /\ exists k, res = Err k.
Proof. exact failing_result_protects_file. Qed.
Print Assumptions C20_failing_result_protects_file_whatever_its_truthiness.

(* a successful write_to_file: the text holds one entry per record and in it exactly one module entry for every
   value that is not None (keyed by its position, carrying what its to_json returned: payload, object for
   json.dumps, shape - also when that is None or {}), and no other entry: only None is skipped *)
Theorem C20_written_modules_exactly_the_non_none_results : forall records results tl hk w w',
  write_to_file records results tl hk w = (w', Ok tt) ->
  exists d, w_file w' = CNew d /\ length d = length records /\
    forall i r ms, nth_error records i = Some r -> nth_error results i = Some ms ->
      exists mods, nth_error d i = Some (r_orig r, mods) /\
        forall e, In e mods <->
                  exists j m, nth_error ms j = Some m /\ ms_kind m <> 0 /\
                              e = mkMJ (Z.of_nat j) (ms_val m) (ms_late m) (ms_ret m).
Proof. exact written_exactly_non_none. Qed.
Print Assumptions C20_written_modules_exactly_the_non_none_results.

(* the truthiness of the values is never consulted: replacing it by anything (f) changes nothing - not the
   outcome, not the target, not the log, not the trace - in write_to_file, in dump_records and in the whole run.
   (What IS consulted is whether evaluating it raises, ms_tfault: the debug line of dump_records evaluates
   bool(value) of every value of a record before converting its first module; see C20_ex_truthiness.) *)
Theorem C20_truthiness_irrelevant : forall f records results tl hk w,
  write_to_file records (retruth f results) tl hk w = write_to_file records results tl hk w.
Proof. exact write_truth_irrelevant. Qed.
Print Assumptions C20_truthiness_irrelevant.

Theorem C20_truthiness_irrelevant_dump_records : forall f records results hk w,
  dump_records records (retruth f results) hk w = dump_records records results hk w.
Proof. exact dump_truth_irrelevant. Qed.
Print Assumptions C20_truthiness_irrelevant_dump_records.

Theorem C20_truthiness_irrelevant_pipeline : forall f pl v kind reuse dmeta entries records results hk w,
  run_antismash pl v kind reuse dmeta entries records (retruth f results) hk w =
  run_antismash pl v kind reuse dmeta entries records results hk w.
Proof. exact run_truth_irrelevant. Qed.
Print Assumptions C20_truthiness_irrelevant_pipeline.

(* the failures the run-time specification (function ids 11, 12, 14) insists on are failures of the model, so
   the theorems above speak about every case on which the specification demands an error *)
Theorem C20_spec_failures_are_model_failures : forall records results tl,
  core_fails records results tl = true -> conversion_fails records results tl = true.
Proof. exact core_fails_conversion_fails. Qed.
Print Assumptions C20_spec_failures_are_model_failures.

(* ---- the pipeline: main._run_antismash ---- *)

(* order of the run, for every plan of stage faults, every directory and every conversion plan: the new
   events are  pre ++ mid ++ convs ++ io ++ post  with pre = the stages up to prepare_output_directory
   (codes 20-23), mid = pre-processing / detection / analysis (24-26), convs = the conversions of
   write_to_file, io = open/write of the JSON, post = annotate_records / write_outputs / profiling (28-30);
   - anything after pre happens only if prepare_output_directory accepted, and pre then ends with it
     (prepare_output_directory before any write);
   - every event up to and including the conversions sees the JSON target as it was;
   - open/write happen only after ALL conversions of the plan, none of which failed;
   - annotate_records / write_outputs / profiling happen only once the new JSON is in place (they see state 3)
     (json written before annotate_records / write_outputs);
   - a failing conversion leaves the JSON target untouched, nothing of io/post happens, the run does not
     return 0;  return code 0 implies accepted directory, no failing conversion, new JSON in place *)
Theorem C20_pipeline_order : forall pl v kind reuse dmeta entries records results hk w w' r kd es,
  run_antismash pl v kind reuse dmeta entries records results hk w = (w', r, kd, es) ->
  exists pre mid convs io post,
    w_trace w' = w_trace w ++ pre ++ mid ++ convs ++ io ++ post /\
    Forall (stage_ev 20 23 (cstate (w_file w))) pre /\
    Forall (stage_ev 24 26 (cstate (w_file w))) mid /\
    Forall (conv_ev (cstate (w_file w))) convs /\
    Forall io_ev io /\
    Forall (stage_ev 28 30 3) post /\
    (mid ++ convs ++ io ++ post <> [] ->
       prepare_output_directory v kind reuse dmeta entries = (Ok tt, kd, es) /\
       exists pre', pre = pre' ++ [mkEv ST_PREPARE 0 0 (cstate (w_file w))]) /\
    (io <> [] -> conversion_fails records results 0 = false /\
                 convs = all_conversions (cstate (w_file w)) records results 0) /\
    (post <> [] -> conversion_fails records results 0 = false /\ hk <> 3 /\ hk <> 5 /\
                   w_file w' = CNew (expected_data records results)) /\
    (conversion_fails records results 0 = true ->
       w_file w' = w_file w /\ io = [] /\ post = [] /\ r <> Ok 0) /\
    (r = Ok 0 -> prepare_output_directory v kind reuse dmeta entries = (Ok tt, kd, es) /\
                 conversion_fails records results 0 = false /\
                 w_file w' = CNew (expected_data records results)).
Proof. exact run_antismash_trace. Qed.
Print Assumptions C20_pipeline_order.

(* whenever prepare_output_directory raises (foreign content, not a directory, os.remove failing), the run
   ends there: JSON target and log as they were, only stages up to prepare_output_directory in the trace,
   the directory as prepare_output_directory left it (or as it was, when the run ended even earlier) *)
Theorem C20_pipeline_stops_at_refusal :
  forall pl v kind reuse dmeta entries records results hk w w' r kd es k kp esp,
  prepare_output_directory v kind reuse dmeta entries = (Err k, kp, esp) ->
  run_antismash pl v kind reuse dmeta entries records results hk w = (w', r, kd, es) ->
  w_file w' = w_file w /\ w_log w' = w_log w /\ r <> Ok 0 /\
  (kd = kp /\ es = esp \/ kd = kind /\ es = entries) /\
  exists pre, w_trace w' = w_trace w ++ pre /\ Forall (stage_ev 20 23 (cstate (w_file w))) pre.
Proof. exact run_antismash_refused. Qed.
Print Assumptions C20_pipeline_stops_at_refusal.

(* the second clause of the property for the whole run: fresh input, existing directory with foreign content
   (any content, any directory name, any current directory), ANY plan: the run does not succeed, listing, JSON
   target and log are untouched, nothing after prepare_output_directory happens *)
Theorem C20_pipeline_foreign_directory_untouched :
  forall pl v dmeta entries records results hk w w' r kd es,
  existsb (foreign v) entries = true ->
  run_antismash pl v 1 false dmeta entries records results hk w = (w', r, kd, es) ->
  r <> Ok 0 /\ kd = 1 /\ es = entries /\ w_file w' = w_file w /\ w_log w' = w_log w /\
  exists pre, w_trace w' = w_trace w ++ pre /\ Forall (stage_ev 20 23 (cstate (w_file w))) pre.
Proof. exact run_antismash_foreign. Qed.
Print Assumptions C20_pipeline_foreign_directory_untouched.

(* the limit of the guarantee on the side of the directory, stated rather than hidden: a run reusing the results
   in its output directory whose JSON conversion fails keeps the previous JSON (first clause) and reports the
   failure, but prepare_output_directory has already removed the previous region GenBank files.  The property
   speaks about the results file; this is the behaviour of the code for the files it does not speak about *)
Theorem C20_failed_reuse_run_loses_region_files :
  exists pl v entries records results w' r es,
    run_antismash pl v 1 true false entries records results 0 (initial_world 0) = (w', r, 1, es) /\
    conversion_fails records results 0 = true /\ w_file w' = COld /\ r = Err E_Value /\
    exists e, In e entries /\ en_region e = true /\ ~ In e es.
Proof. exact failed_reuse_run_loses_region_files. Qed.
Print Assumptions C20_failed_reuse_run_loses_region_files.

(* ---- the complete run: main.run_antismash, the wrapper that sets up logging (repaired defect FC20d) ---- *)

(* the refusal test comes before any write: a run with a log file whose output path exists and is turned down by
   the refusal test (_refusal_reason: not a directory, or fresh input and foreign content) ends at once with an
   AntismashInputError, logged once - for EVERY effect the logging set-up could have (setup): no stage of the run
   happens, the set-up (os.makedirs, logging.FileHandler) does not take place, directory, JSON target and trace
   are as they were *)
Theorem C20_refusal_test_before_any_write :
  forall setup pl v kind reuse dmeta entries records results hk w,
  lg_given v = true -> kind <> 0 -> refusal_reason v kind reuse dmeta entries = true ->
  outer_run_antismash setup pl v kind reuse dmeta entries records results hk w =
  (log_error w, Err E_Input, kind, entries).
Proof. exact outer_refused_before_any_write. Qed.
Print Assumptions C20_refusal_test_before_any_write.

(* ... which covers every directory prepare_output_directory itself would refuse with AntismashInputError *)
Theorem C20_wrapper_refuses_what_prepare_refuses :
  forall setup pl v kind reuse dmeta entries records results hk w kp esp,
  lg_given v = true ->
  prepare_output_directory v kind reuse dmeta entries = (Err E_Input, kp, esp) ->
  outer_run_antismash setup pl v kind reuse dmeta entries records results hk w =
  (log_error w, Err E_Input, kind, entries).
Proof. exact outer_refuses_what_prepare_refuses. Qed.
Print Assumptions C20_wrapper_refuses_what_prepare_refuses.

(* a refused run writes nothing - the second clause of the property for the complete run_antismash: fresh input,
   existing directory with foreign content, ANY plan, ANY effect of the logging set-up: the run does not return 0,
   listing and JSON target are untouched, at most the one error is logged, no stage after
   prepare_output_directory happens; with a log file no stage happens at all; and the outcome is the same for
   every set-up (it is never run, or - without a log file - writes nothing).  This is the clause FC20d broke: with
   --logfile inside the directory the set-up used to come first and created the file there *)
Theorem C20_refused_run_writes_nothing :
  forall setup pl v dmeta entries records results hk w w' r kd es,
  existsb (foreign v) entries = true ->
  outer_run_antismash setup pl v 1 false dmeta entries records results hk w = (w', r, kd, es) ->
  r <> Ok 0 /\ kd = 1 /\ es = entries /\ w_file w' = w_file w /\ w_log w <= w_log w' <= w_log w + 1 /\
  (exists pre, w_trace w' = w_trace w ++ pre /\ Forall (stage_ev 20 23 (cstate (w_file w))) pre) /\
  (lg_given v = true -> w_trace w' = w_trace w /\ r = Err E_Input) /\
  (forall setup', outer_run_antismash setup' pl v 1 false dmeta entries records results hk w = (w', r, kd, es)).
Proof. exact outer_foreign_untouched. Qed.
Print Assumptions C20_refused_run_writes_nothing.

(* the early test turns down no run that could have succeeded: prepare_output_directory refuses the same
   directory, and _run_antismash on it never returns 0 and leaves directory and JSON target as they were *)
Theorem C20_early_refusal_sound : forall v kind reuse dmeta entries,
  early_refusal v kind reuse dmeta entries = true ->
  prepare_output_directory v kind reuse dmeta entries = (Err E_Input, kind, entries) /\
  forall pl records results hk w w' r kd es,
    run_antismash pl v kind reuse dmeta entries records results hk w = (w', r, kd, es) ->
    r <> Ok 0 /\ kd = kind /\ es = entries /\ w_file w' = w_file w.
Proof. exact early_refusal_sound. Qed.
Print Assumptions C20_early_refusal_sound.

(* without a log file the wrapper is _run_antismash plus the logging of an AntismashInputError *)
Theorem C20_wrapper_without_logfile : forall setup pl v kind reuse dmeta entries records results hk w,
  lg_given v = false ->
  outer_run_antismash setup pl v kind reuse dmeta entries records results hk w =
  log_input_error (run_antismash pl v kind reuse dmeta entries records results hk w).
Proof. exact outer_without_logfile. Qed.
Print Assumptions C20_wrapper_without_logfile.

(* what the early test is for (the witness of FC20d on the order the code had before the repair, logging set up
   first): out/ holds one foreign file, --logfile out/<new name>, fresh input: refused, but the listing has
   gained the log file; the repaired order refuses with the listing as it was *)
Theorem C20_logging_first_would_write_into_refused_directory :
  exists pl v entries records results w' es,
    existsb (foreign v) entries = true /\
    outer_logging_first (log_setup v) pl v 1 false false entries records results 0 (initial_world 0)
      = (w', Err E_Input, 1, es) /\
    es = log_entry v :: entries /\ es <> entries /\
    outer_run_antismash (log_setup v) pl v 1 false false entries records results 0 (initial_world 0)
      = (log_error (initial_world 0), Err E_Input, 1, entries).
Proof. exact logging_first_writes_into_refused_directory. Qed.
Print Assumptions C20_logging_first_would_write_into_refused_directory.

(* ---- non-vacuity ---- *)

(* two records, three results; the second record's gather_record_areas raises ValueError: the plan counts
   as failing, and the machine ends in that error with the old file in place after five conversion events *)
Example C20_ex_fault :
  let records := [mkR 0 0 0 0 true; mkR 0 0 1 0 false] in
  let results := [[mkM 2 0 11 0 0 0 0; mkM 0 0 0 0 0 0 0]; [mkM 2 0 12 1 0 0 0]] in
  conversion_fails records results 0 = true /\
  write_to_file records results 0 0 (initial_world 0) =
  (mkW COld 0 [mkEv 1 0 0 1; mkEv 2 0 0 1; mkEv 3 0 0 1; mkEv 4 0 0 1; mkEv 5 0 0 1;
               mkEv 1 1 0 1; mkEv 2 1 0 1; mkEv 3 1 0 1], Err E_Value).
Proof. split; vm_compute; reflexivity. Qed.

(* an unserialisable object met by json.dumps in the last module: TypeError, logged once, old file kept *)
Example C20_ex_late_fault :
  let records := [mkR 0 0 0 0 false] in
  let results := [[mkM 2 0 11 1 0 0 0; mkM 2 0 12 2 0 0 0]] in
  conversion_fails records results 0 = true /\
  exists t, write_to_file records results 0 0 (initial_world 0) = (mkW COld 1 t, Err E_Type).
Proof. split; [vm_compute; reflexivity|]. eexists. vm_compute. reflexivity. Qed.

(* no fault: the file is replaced, open and write come last *)
Example C20_ex_success :
  let records := [mkR 0 0 0 0 true] in
  let results := [[mkM 2 0 11 1 0 0 0; mkM 0 0 0 0 0 0 0; mkM 2 0 12 0 0 0 0]] in
  conversion_fails records results 1 = false /\
  write_to_file records results 1 0 (initial_world 0) =
  (mkW (CNew [(true, [mkMJ 0 11 1 0; mkMJ 2 12 0 0])]) 0
       [mkEv 1 0 0 1; mkEv 2 0 0 1; mkEv 3 0 0 1; mkEv 4 0 0 1; mkEv 5 0 0 1; mkEv 5 0 2 1;
        mkEv 6 0 0 1; mkEv 7 0 0 1; mkEv 8 0 0 1; mkEv 9 0 0 2], Ok tt).
Proof. split; vm_compute; reflexivity. Qed.

(* a directory holding the input copy, the log file (--logfile out/run.log, name 1) and one foreign file
   meets the hypotheses of C20_refuse *)
Example C20_ex_refuse :
  let v := mkEnv true (mkP 0 1) (mkP 9 99) in
  let entries := [mkE 0 0 true true true false; mkE 1 1 true false false false;
                  mkE 2 2 true false false false] in
  existsb (foreign v) entries = true /\ NoDup (ids entries) /\
  map (foreign v) entries = [false; false; true].
Proof.
  split; [reflexivity|]. split; [|reflexivity].
  repeat constructor; cbn; intuition discriminate.
Qed.

(* the witnesses of the repaired defects meet the hypotheses of C20_refuse and are refused: a directory holding
   only a dot file (FC20a); a directory with a glob-pattern name holding one file (FC20b); no --logfile, the
   only entry is the sub-directory (name 7) that is the current directory (FC20c) *)
Example C20_ex_repaired_witnesses :
  let hidden := [mkE 0 0 false false false false] in
  let plain := [mkE 0 0 true false false false] in
  let v := mkEnv false (mkP 9 0) (mkP 0 7) in
  let sub := [mkE 0 7 true false true false] in
  (existsb (foreign env_nolog) hidden = true /\
   prepare_output_directory env_nolog 1 false false hidden = (Err E_Input, 1, hidden)) /\
  (existsb (foreign env_nolog) plain = true /\
   prepare_output_directory env_nolog 1 false true plain = (Err E_Input, 1, plain)) /\
  (existsb (foreign v) sub = true /\ entry_path (mkE 0 7 true false true false) = cwd v /\
   prepare_output_directory v 1 false false sub = (Err E_Input, 1, sub)).
Proof. repeat split; reflexivity. Qed.

(* reuse mode in a directory whose name is a glob pattern: the stale region file is removed (FC20b, second half) *)
Example C20_ex_reuse_globname :
  let entries := [mkE 0 0 true false false true; mkE 1 1 true false false false] in
  prepare_output_directory env_nolog 1 true true entries = (Ok tt, 1, [mkE 1 1 true false false false]).
Proof. reflexivity. Qed.

(* --logfile logs/run.log (directory 9, name 1) while the output directory holds the input copy and a file
   that is also called run.log: the hypotheses of C20_refuse_log_elsewhere hold - refused *)
Example C20_ex_same_name_elsewhere :
  let v := mkEnv true (mkP 9 1) (mkP 9 99) in
  let entries := [mkE 0 0 true true true false; mkE 1 1 true false false false] in
  lg_given v = true /\ p_dir (lg_path v) <> 0 /\
  existsb (fun e => negb (en_input e && en_isdir e)) entries = true /\
  prepare_output_directory v 1 false false entries = (Err E_Input, 1, entries).
Proof. split; [reflexivity|]. split; [discriminate|]. split; reflexivity. Qed.

(* the same directory with --logfile out/run.log is accepted: nothing foreign *)
Example C20_ex_log_inside_accepted :
  let v := mkEnv true (mkP 0 1) (mkP 9 99) in
  let entries := [mkE 0 0 true true true false; mkE 1 1 true false false false] in
  existsb (foreign v) entries = false /\
  prepare_output_directory v 1 false false entries = (Ok tt, 1, entries).
Proof. split; reflexivity. Qed.

(* reuse mode: two region files and a foreign file meet the hypotheses of C20_accept_removes_region_files *)
Example C20_ex_reuse :
  let entries := [mkE 0 0 true false false true; mkE 1 1 true false false false;
                  mkE 2 2 true false false true] in
  NoDup (ids entries) /\ forallb en_visible entries = true /\
  forallb (fun e => negb (en_region e && en_isdir e)) entries = true /\
  prepare_output_directory env_nolog 1 true false entries = (Ok tt, 1, [mkE 1 1 true false false false]).
Proof.
  split; [repeat constructor; cbn; intuition discriminate|].
  split; [reflexivity|]. split; reflexivity.
Qed.

(* the I/O failure after truncation: a fault-free plan on handle kind 5 meets the hypothesis of
   C20_io_failure_after_truncation_loses_file; open and write are the last two events *)
Example C20_ex_io_failure :
  let records := [mkR 0 0 0 0 false] in
  let results := [[mkM 2 0 11 0 0 0 0]] in
  conversion_fails records results 0 = false /\
  write_to_file records results 0 5 (initial_world 5) =
  (mkW CEmpty 0 [mkEv 1 0 0 1; mkEv 2 0 0 1; mkEv 3 0 0 1; mkEv 4 0 0 1; mkEv 5 0 0 1;
                 mkEv 8 0 0 1; mkEv 9 0 0 2], Err E_Other).
Proof. split; vm_compute; reflexivity. Qed.

(* a complete run in reuse mode on a directory holding the old JSON (entry 0), a stale region file and a
   foreign file: accepted, the region file goes, two records (the second without regions), the JSON is
   replaced before annotate_records (28) and write_outputs (29) happen *)
Example C20_ex_pipeline_success :
  let pl := mkPP 0 true 0 0 [mkRP false 0 true 0; mkRP false 0 false 0] 0 0 false in
  let entries := [mkE 0 0 true false false false; mkE 1 1 true false false true; mkE 2 2 true false false false] in
  let records := [mkR 0 0 0 0 false; mkR 0 0 0 0 false] in
  let results := [[mkM 2 0 11 0 0 0 0]; []] in
  run_antismash pl env_nolog 1 true false entries records results 0 (initial_world 0) =
  (mkW (CNew [(false, [mkMJ 0 11 0 0]); (false, [])]) 0
       [mkEv 20 0 0 1; mkEv 21 0 0 1; mkEv 22 0 0 1; mkEv 23 0 0 1; mkEv 24 0 0 1;
        mkEv 25 0 0 1; mkEv 26 0 0 1; mkEv 25 1 0 1;
        mkEv 1 0 0 1; mkEv 2 0 0 1; mkEv 3 0 0 1; mkEv 4 0 0 1; mkEv 5 0 0 1;
        mkEv 1 1 0 1; mkEv 2 1 0 1; mkEv 3 1 0 1; mkEv 4 1 0 1;
        mkEv 8 0 0 1; mkEv 9 0 0 2; mkEv 28 0 0 3; mkEv 29 0 0 3],
   Ok 0, 1, [mkE 0 0 true false false false; mkE 2 2 true false false false]).
Proof. vm_compute. reflexivity. Qed.

(* the same directory on a fresh run meets the hypotheses of C20_pipeline_foreign_directory_untouched and the
   run ends with AntismashInputError right after prepare_output_directory *)
Example C20_ex_pipeline_refused :
  let pl := mkPP 0 true 0 0 [mkRP false 0 true 0] 0 0 false in
  let entries := [mkE 0 0 true false false false; mkE 1 1 true false false true; mkE 2 2 true false false false] in
  existsb (foreign env_nolog) entries = true /\
  run_antismash pl env_nolog 1 false false entries [mkR 0 0 0 0 false] [[mkM 2 0 11 0 0 0 0]] 0 (initial_world 0) =
  (mkW COld 0 [mkEv 20 0 0 1; mkEv 21 0 0 1; mkEv 22 0 0 1; mkEv 23 0 0 1], Err E_Input, 1, entries).
Proof. split; [reflexivity|]. vm_compute. reflexivity. Qed.

(* a failing conversion in the middle of a run reusing the results in the output directory (second record's
   module raises KeyError; the second record is skipped by the analysis but still converted): the old JSON stays,
   annotate_records and write_outputs never happen *)
Example C20_ex_pipeline_conversion_fault :
  let pl := mkPP 0 true 0 0 [mkRP false 0 true 0; mkRP true 0 false 0] 0 0 true in
  let records := [mkR 0 0 0 0 false; mkR 0 0 0 0 false] in
  let results := [[mkM 2 0 11 0 0 0 0]; [mkM 2 4 12 0 0 0 0]] in
  conversion_fails records results 0 = true /\
  run_antismash pl env_nolog 1 true false [mkE 0 0 true false false false] records results 0 (initial_world 0) =
  (mkW COld 0 [mkEv 20 0 0 1; mkEv 21 0 0 1; mkEv 22 0 0 1; mkEv 23 0 0 1; mkEv 24 0 0 1;
               mkEv 25 0 0 1; mkEv 26 0 0 1;
               mkEv 1 0 0 1; mkEv 2 0 0 1; mkEv 3 0 0 1; mkEv 4 0 0 1; mkEv 5 0 0 1;
               mkEv 1 1 0 1; mkEv 2 1 0 1; mkEv 3 1 0 1; mkEv 4 1 0 1; mkEv 5 1 0 1], Err E_Key, 1,
   [mkE 0 0 true false false false]).
Proof. split; vm_compute; reflexivity. Qed.

(* the witness of C20-seed5: the last module of the last record is a results object without entries
   (__len__ == 0, like a TTAResults of a record without TTA codons) whose to_json raises ValueError; it meets
   the hypotheses of C20_failing_result_protects_file_whatever_its_truthiness, and the machine ends in that
   error with the old file in place.  The same for an empty dict left over from a reused run (invalid type:
   TypeError, logged) *)
Example C20_ex_falsy_failing_result :
  let records := [mkR 0 0 0 0 false; mkR 0 0 0 0 false] in
  let bad := mkM 2 1 5 0 2 0 0 in
  let results := [[mkM 2 0 11 0 0 0 0]; [mkM 2 0 12 0 0 0 0; bad]] in
  let results' := [[mkM 2 0 11 0 0 0 0]; [mkM 1 0 0 0 5 0 0; mkM 2 0 12 0 0 0 0]] in
  (nth_error records 1 = Some (mkR 0 0 0 0 false) /\ nth_error results 1 = Some [mkM 2 0 12 0 0 0 0; bad] /\
   In bad [mkM 2 0 12 0 0 0 0; bad] /\ ms_kind bad <> 0 /\ ms_fault bad <> 0) /\
  (exists t, write_to_file records results 0 0 (initial_world 0) = (mkW COld 0 t, Err E_Value)) /\
  (exists t, write_to_file records results' 0 0 (initial_world 0) = (mkW COld 1 t, Err E_Type)).
Proof.
  split; [repeat split; try reflexivity; try discriminate; right; left; reflexivity|].
  split; eexists; vm_compute; reflexivity.
Qed.

(* falsy results that convert are written like any other: an empty TTA-like object returning a dict, an object
   whose __bool__ says False returning None, one with __len__ == 0 returning {}; only the None in between is
   skipped (keys 0, 1, 3) *)
Example C20_ex_falsy_results_written :
  let records := [mkR 0 0 0 0 false] in
  let results := [[mkM 2 0 11 0 7 0 0; mkM 2 0 12 0 3 1 0; mkM 0 0 0 0 5 0 0; mkM 2 0 13 0 2 7 0]] in
  exists t, write_to_file records results 0 0 (initial_world 0) =
            (mkW (CNew [(false, [mkMJ 0 11 0 0; mkMJ 1 12 0 1; mkMJ 3 13 0 7])]) 0 t, Ok tt).
Proof. eexists. vm_compute. reflexivity. Qed.

(* truthiness: the plan of C20_ex_falsy_results_written with every value made truthy (or anything else) behaves
   identically (an instance of C20_truthiness_irrelevant), whereas a value whose __bool__ raises KeyError makes
   the conversion of its record fail before the first to_json of that record (four events only), file kept *)
Example C20_ex_truthiness :
  let records := [mkR 0 0 0 0 false] in
  let results := [[mkM 2 0 11 0 7 0 0; mkM 2 0 12 0 3 1 0]] in
  retruth (fun _ => 0) results = [[mkM 2 0 11 0 0 0 0; mkM 2 0 12 0 0 1 0]] /\
  conversion_fails records [[mkM 2 0 11 0 0 0 0; mkM 2 0 12 0 3 0 4]] 0 = true /\
  core_fails records [[mkM 2 0 11 0 0 0 0; mkM 2 0 12 0 3 0 4]] 0 = false /\
  write_to_file records [[mkM 2 0 11 0 0 0 0; mkM 2 0 12 0 3 0 4]] 0 0 (initial_world 0) =
  (mkW COld 0 [mkEv 1 0 0 1; mkEv 2 0 0 1; mkEv 3 0 0 1; mkEv 4 0 0 1], Err E_Key).
Proof. repeat split; vm_compute; reflexivity. Qed.

(* the wrapper: a log file asked for inside an existing directory that holds the old JSON and a foreign file,
   fresh input (the hypotheses of C20_refused_run_writes_nothing and C20_refusal_test_before_any_write): refused
   with an empty trace and one logged error; the same directory in reuse mode is not refused early - the set-up
   adds the log file (id -1), the run goes on and succeeds *)
Example C20_ex_wrapper :
  let pl := mkPP 0 true 0 0 [mkRP false 0 true 0] 0 0 false in
  let v := mkEnv true (mkP 0 7) (mkP 9 99) in
  let entries := [mkE 0 0 true false false false; mkE 1 1 true false false false] in
  existsb (foreign v) entries = true /\ refusal_reason v 1 false false entries = true /\
  outer_run_antismash (log_setup v) pl v 1 false false entries [mkR 0 0 0 0 false] [[mkM 2 0 11 0 0 0 0]] 0
    (initial_world 0) = (mkW COld 1 [], Err E_Input, 1, entries) /\
  exists t, outer_run_antismash (log_setup v) pl v 1 true false entries [mkR 0 0 0 0 false]
              [[mkM 2 0 11 0 0 0 0]] 0 (initial_world 0) =
            (mkW (CNew [(false, [mkMJ 0 11 0 0])]) 0 t, Ok 0, 1, log_entry v :: entries).
Proof.
  split; [reflexivity|]. split; [reflexivity|]. split; [vm_compute; reflexivity|].
  eexists. vm_compute. reflexivity.
Qed.
