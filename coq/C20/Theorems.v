(* C20 - property theorems: a failed or refused write never damages existing results. *)
From ASV.C20 Require Import Model Proofs.

(* write_to_file, for every number of records and results, every fault plan, every handle kind and every
   initial world: if any conversion of the plan fails (a per-record conversion, a module's to_json, a value
   that is not a ModuleResults, missing results, a custom object met by json.dumps in a module's payload or
   in the timings) the target is exactly what it was and the call ends in an error, which is logged and
   re-raised with the message when it is a TypeError and propagates unlogged otherwise; with no failing
   conversion the target holds the text of the converted data (or, for a path in a missing directory, open
   fails and the target is still as it was) *)
Theorem C20_write_atomic_wrt_conversion : forall records results tl hk w w' r,
  write_to_file records results tl hk w = (w', r) ->
  (conversion_fails records results tl = true ->
     w_file w' = w_file w /\
     exists k, r = Err k /\ (k = E_Type -> w_log w' = w_log w + 1) /\ (k <> E_Type -> w_log w' = w_log w)) /\
  (conversion_fails records results tl = false ->
     (hk <> 3 -> r = Ok tt /\ w_file w' = CNew (expected_data records results)) /\
     (hk = 3 -> r = Err E_Other /\ w_file w' = w_file w)).
Proof. exact write_atomic. Qed.
Print Assumptions C20_write_atomic_wrt_conversion.

(* the same for dump_records(results, records, handle), including handle=None (nothing is serialised or
   written) *)
Theorem C20_dump_records_atomic : forall records results hk w w' r,
  dump_records records results hk w = (w', r) ->
  (conversion_fails_dump records results hk = true -> w_file w' = w_file w /\ exists k, r = Err k) /\
  (conversion_fails_dump records results hk = false ->
     (hk = 4 -> r = Ok (expected_data records results) /\ w_file w' = w_file w) /\
     (hk = 3 -> r = Err E_Other /\ w_file w' = w_file w) /\
     (hk <> 3 -> hk <> 4 ->
        r = Ok (expected_data records results) /\ w_file w' = CNew (expected_data records results))).
Proof. exact dump_atomic. Qed.
Print Assumptions C20_dump_records_atomic.

(* event order: the trace of a write_to_file call is conversion events, every one of which saw the target
   in its initial state, followed by the open/write events; and whenever the target is opened or written,
   every conversion of the plan has already taken place (none is left for later) and none failed *)
Theorem C20_open_after_all_conversions : forall records results tl hk w w' r,
  write_to_file records results tl hk w = (w', r) ->
  exists convs io,
    w_trace w' = w_trace w ++ convs ++ io /\
    Forall (conv_ev (cstate (w_file w))) convs /\
    Forall io_ev io /\
    (io <> [] -> conversion_fails records results tl = false /\
                 convs = all_conversions (cstate (w_file w)) records results tl /\ r = Ok tt).
Proof. exact write_trace. Qed.
Print Assumptions C20_open_after_all_conversions.

(* the conversion phase alone (dump_records + json.dumps), whatever its outcome, leaves file and log
   untouched and only appends conversion events *)
Theorem C20_conversions_do_not_touch_target : forall records results tl w,
  exists evs, fst (convert_all records results tl w) = ext w evs /\ Forall (conv_ev (cstate (w_file w))) evs.
Proof. exact conv_like_convert_all. Qed.
Print Assumptions C20_conversions_do_not_touch_target.

(* refusal: fresh input (not a .json), the output directory exists, and some entry is neither the input
   directory nor the log file: AntismashInputError and the listing is unchanged.
   Guard: every entry is visible to glob "*" and the directory name is not itself a glob pattern *)
Theorem C20_refuse : forall dmeta entries,
  dir_guard dmeta entries = true -> existsb foreign entries = true ->
  prepare_output_directory 1 false dmeta entries = (Err E_Input, 1, entries).
Proof. exact refuse_fresh. Qed.
Print Assumptions C20_refuse.

(* outside the guard the statement is false of the code: a foreign dot file is not seen ... *)
Theorem C20_refuse_hidden_refuted :
  exists entries, existsb foreign entries = true /\
                  prepare_output_directory 1 false false entries = (Ok tt, 1, entries).
Proof. exact refuse_hidden_refuted. Qed.
Print Assumptions C20_refuse_hidden_refuted.

(* ... and a directory whose name contains glob metacharacters looks empty *)
Theorem C20_refuse_globname_refuted :
  exists entries, existsb foreign entries = true /\ forallb en_visible entries = true /\
                  prepare_output_directory 1 false true entries = (Ok tt, 1, entries).
Proof. exact refuse_globname_refuted. Qed.
Print Assumptions C20_refuse_globname_refuted.

(* in every mode and whatever the outcome (accepted, refused, os.remove failing half way): nothing is added
   to an existing directory and only entries matched by "*.region???.gbk" can disappear *)
Theorem C20_only_region_files_removed : forall reuse dmeta entries r k' es,
  NoDup (ids entries) ->
  prepare_output_directory 1 reuse dmeta entries = (r, k', es) ->
  k' = 1 /\ (forall e, In e es -> In e entries) /\
  (forall e, In e entries -> (en_visible e && en_region e) = false -> In e es).
Proof. exact prepare_only_removes_region. Qed.
Print Assumptions C20_only_region_files_removed.

(* an accepted directory (reuse mode with any content, or fresh mode with nothing foreign), all entries
   visible, no directory named like a region file: success, and exactly the region GenBank files go *)
Theorem C20_accept_removes_region_files : forall reuse entries,
  NoDup (ids entries) ->
  forallb en_visible entries = true ->
  (reuse = true \/ existsb foreign entries = false) ->
  forallb (fun e => negb (en_region e && en_isdir e)) entries = true ->
  prepare_output_directory 1 reuse false entries =
  (Ok tt, 1, filter (fun e => negb (en_region e)) entries).
Proof. exact prepare_accept. Qed.
Print Assumptions C20_accept_removes_region_files.

(* a missing path is created; a path that exists and is not a directory is refused and left alone *)
Theorem C20_not_a_directory : forall kind reuse dmeta entries,
  (kind = 0 -> prepare_output_directory kind reuse dmeta entries = (Ok tt, 1, [])) /\
  (kind <> 0 -> kind <> 1 -> prepare_output_directory kind reuse dmeta entries = (Err E_Input, kind, entries)).
Proof. exact prepare_not_directory. Qed.
Print Assumptions C20_not_a_directory.

(* ---- non-vacuity ---- *)

(* two records, three results; the second record's gather_record_areas raises ValueError: the plan counts
   as failing, and the machine ends in that error with the old file in place after five conversion events *)
Example C20_ex_fault :
  let records := [mkR 0 0 0 0 true; mkR 0 0 1 0 false] in
  let results := [[mkM 2 0 11 0; mkM 0 0 0 0]; [mkM 2 0 12 1]] in
  conversion_fails records results 0 = true /\
  write_to_file records results 0 0 (initial_world 0) =
  (mkW COld 0 [mkEv 1 0 0 1; mkEv 2 0 0 1; mkEv 3 0 0 1; mkEv 4 0 0 1; mkEv 5 0 0 1;
               mkEv 1 1 0 1; mkEv 2 1 0 1; mkEv 3 1 0 1], Err E_Value).
Proof. split; vm_compute; reflexivity. Qed.

(* an unserialisable object met by json.dumps in the last module: TypeError, logged once, old file kept *)
Example C20_ex_late_fault :
  let records := [mkR 0 0 0 0 false] in
  let results := [[mkM 2 0 11 1; mkM 2 0 12 2]] in
  conversion_fails records results 0 = true /\
  exists t, write_to_file records results 0 0 (initial_world 0) = (mkW COld 1 t, Err E_Type).
Proof. split; [vm_compute; reflexivity|]. eexists. vm_compute. reflexivity. Qed.

(* no fault: the file is replaced, open and write come last *)
Example C20_ex_success :
  let records := [mkR 0 0 0 0 true] in
  let results := [[mkM 2 0 11 1; mkM 0 0 0 0; mkM 2 0 12 0]] in
  conversion_fails records results 1 = false /\
  write_to_file records results 1 0 (initial_world 0) =
  (mkW (CNew [(true, [mkMJ 0 11 1; mkMJ 2 12 0])]) 0
       [mkEv 1 0 0 1; mkEv 2 0 0 1; mkEv 3 0 0 1; mkEv 4 0 0 1; mkEv 5 0 0 1; mkEv 5 0 2 1;
        mkEv 6 0 0 1; mkEv 7 0 0 1; mkEv 8 0 0 1; mkEv 9 0 0 2], Ok tt).
Proof. split; vm_compute; reflexivity. Qed.

(* a directory holding the input copy, the log file and one foreign file meets the hypotheses of C20_refuse *)
Example C20_ex_refuse :
  let entries := [mkE 0 true true true false false; mkE 1 true false false true false;
                  mkE 2 true false false false false] in
  dir_guard false entries = true /\ existsb foreign entries = true /\ NoDup (ids entries).
Proof.
  split; [reflexivity|]. split; [reflexivity|].
  repeat constructor; cbn; intuition discriminate.
Qed.

(* reuse mode: two region files and a foreign file meet the hypotheses of C20_accept_removes_region_files *)
Example C20_ex_reuse :
  let entries := [mkE 0 true false false false true; mkE 1 true false false false false;
                  mkE 2 true false false false true] in
  NoDup (ids entries) /\ forallb en_visible entries = true /\
  forallb (fun e => negb (en_region e && en_isdir e)) entries = true /\
  prepare_output_directory 1 true false entries = (Ok tt, 1, [mkE 1 true false false false false]).
Proof.
  split; [repeat constructor; cbn; intuition discriminate|].
  split; [reflexivity|]. split; reflexivity.
Qed.
