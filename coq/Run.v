(* The single entry point evaluated by the extracted driver and by vm_compute. *)
From ASV Require Import Base.
From ASV.C01 Require Model.
From ASV.C03 Require Model.
From ASV.C04 Require Model.
From ASV.C07 Require Model.
From ASV.C14 Require Model.
From ASV.C15 Require Model.

Definition run (l : list Z) : list Z :=
  match l with
  | p :: fn :: payload =>
    match p with
    | 1 => C01.Model.run_C01 fn payload
    | 3 => C03.Model.run_C03 fn payload
    | 4 => C04.Model.run_C04 fn payload
    | 7 => C07.Model.run_C07 fn payload
    | 14 => C14.Model.run_C14 fn payload
    | 15 => C15.Model.run_C15 fn payload
    | _ => bad_input
    end
  | _ => bad_input
  end.
