(* The single entry point evaluated by the extracted driver and by vm_compute. *)
From ASV Require Import Base.
From ASV.C01 Require Model.
From ASV.C03 Require Model.
From ASV.C04 Require Model.
From ASV.C06 Require Model.
From ASV.C07 Require Model.
From ASV.C14 Require Model.
From ASV.C15 Require Model.
From ASV.C05 Require Model.
From ASV.C13 Require Model.
From ASV.C16 Require Model.
From ASV.C20 Require Model.
From ASV.C09 Require Model.
From ASV.C18 Require Model.
From ASV.C19 Require Model.
From ASV.C08 Require Model.
From ASV.C17 Require Model.
From ASV.C12 Require Model.
From ASV.C02 Require Model.
From ASV.C11 Require Model ModelRule.
From ASV.C10 Require Model.

Definition run (l : list Z) : list Z :=
  match l with
  | p :: fn :: payload =>
    match p with
    | 1 => C01.Model.run_C01 fn payload
    | 3 => C03.Model.run_C03 fn payload
    | 4 => C04.Model.run_C04 fn payload
    | 6 => C06.Model.run_C06 fn payload
    | 7 => C07.Model.run_C07 fn payload
    | 14 => C14.Model.run_C14 fn payload
    | 15 => C15.Model.run_C15 fn payload
    | 5 => C05.Model.run_C05 fn payload
    | 13 => C13.Model.run_C13 fn payload
    | 16 => C16.Model.run_C16 fn payload
    | 20 => C20.Model.run_C20 fn payload
    | 9 => C09.Model.run_C09 fn payload
    | 18 => C18.Model.run_C18 fn payload
    | 19 => C19.Model.run_C19 fn payload
    | 8 => C08.Model.run_C08 fn payload
    | 17 => C17.Model.run_C17 fn payload
    | 12 => C12.Model.run_C12 fn payload
    | 2 => C02.Model.run_C02 fn payload
    | 11 => C11.ModelRule.run_C11b fn payload
    | 10 => C10.Model.run_C10 fn payload
    | _ => bad_input
    end
  | _ => bad_input
  end.
