"""C04: correspondence between the Gallina location model and secmet.locations / Record helpers."""
import common
from common import err_code, call_with_timeout

PROP = 4
NONE = 2  # strand None in the flat encoding


def strand_to_py(s):
    return None if s == NONE else s


def strand_from_py(s):
    return NONE if s is None else int(s)


def mk_loc(parts):
    """ parts: list of (start, end, strand) -> secmet location """
    from antismash.common.secmet.locations import FeatureLocation, CompoundLocation
    fls = [FeatureLocation(s, e, strand_to_py(st)) for s, e, st in parts]
    if len(fls) == 1:
        return fls[0]
    return CompoundLocation(fls)


def enc_loc(parts):
    out = [len(parts)]
    for s, e, st in parts:
        out += [s, e, st]
    return out


def enc_pyloc(loc):
    return enc_loc([(int(p.start), int(p.end), strand_from_py(p.strand)) for p in loc.parts])


def enc_wrap(w):
    return [0] if w is None else [1, w]


def result(fn):
    """ runs the implementation, returns the encoded result (0 :: value | 1 :: [kind]) """
    try:
        value = call_with_timeout(fn, 10)
    except common.Timeout:
        return [1, 11]
    except Exception as exc:  # pylint: disable=broad-except
        return [1, err_code(exc)]
    return [0] + value


# ------------------------------------------------------------------ generators

def total(fn):
    """ for functions the model treats as total: the bare value, or [-1, kind] on an exception """
    out = result(fn)
    return out[1:] if out[0] == 0 else [-1, out[1]]


def gen_simple(rng, n, strand=None):
    s = rng.randrange(0, n)
    e = rng.randrange(s + 1, n + 1)
    if strand is None:
        strand = rng.choice([1, 1, -1, -1, NONE, 0])
    return [(s, e, strand)]


def gen_exons(rng, n, strand, k, lo=0, hi=None):
    """ k disjoint, non-adjacent-or-adjacent exons inside [lo, hi), ascending """
    hi = n if hi is None else hi
    if hi - lo < k:
        k = max(1, hi - lo)
    cuts = sorted(rng.sample(range(lo, hi + 1), min(2 * k, hi - lo + 1)))
    parts = []
    for i in range(0, len(cuts) - 1, 2):
        if cuts[i] < cuts[i + 1]:
            parts.append((cuts[i], cuts[i + 1], strand))
    if not parts:
        parts = [(lo, lo + 1, strand)]
    return parts


def gen_multi(rng, n, strand=None):
    if strand is None:
        strand = rng.choice([1, -1, NONE])
    parts = gen_exons(rng, n, strand, rng.randint(2, 4))
    if strand == -1 and rng.random() < 0.85:
        parts.reverse()  # transcription order
    return parts


def gen_bridging(rng, n, strand=None):
    """ origin-spanning: upper exons (ending at or before n) then lower exons (from 0), in transcription order """
    if n < 2:
        return gen_simple(rng, n)
    if strand is None:
        strand = rng.choice([1, -1, 1, -1, NONE])
    split = rng.randrange(1, n)  # lower part inside [0, split), upper inside [split, n)
    if rng.random() < 0.7:
        e = rng.randrange(1, split + 1)
        s = rng.randrange(split, n)
        lower = [(0, e, strand)]
        upper = [(s, n, strand)]
    else:
        lower = gen_exons(rng, n, strand, rng.randint(1, 2), 0, split)
        upper = gen_exons(rng, n, strand, rng.randint(1, 2), split, n)
    if strand == -1:
        return list(reversed(lower)) + list(reversed(upper))
    return upper + lower


def gen_loc(rng, n, allow_bridging=True):
    r = rng.random()
    if r < 0.5 or n < 3:
        return gen_simple(rng, n)
    if r < 0.75 or not allow_bridging:
        return gen_multi(rng, n)
    return gen_bridging(rng, n)


def gen_collection_loc(rng, n):
    """ what a CDSCollection accepts: one part, or a forward span [s,n)+[0,e) """
    r = rng.random()
    if r < 0.15:
        return [(0, n, 1)]
    if r < 0.6 or n < 3:
        return gen_simple(rng, n, rng.choice([1, -1, NONE]))
    s = rng.randrange(1, n)
    e = rng.randrange(1, s + 1)
    return [(s, n, 1), (0, e, 1)]


def gen_n(rng):
    r = rng.random()
    if r < 0.6:
        return rng.randint(2, 14)
    if r < 0.9:
        return rng.randint(15, 60)
    return rng.choice([100, 101, 1000, 99999])


# ------------------------------------------------------------------ implementation adapters

def impl(fn, args):
    from antismash.common.secmet import locations as L
    if fn == 1:
        a, b = args
        return total(lambda: [int(L.locations_overlap(mk_loc(a), mk_loc(b)))])
    if fn == 2:
        a, b = args
        return total(lambda: [int(L.location_contains_other(mk_loc(a), mk_loc(b)))])
    if fn == 3:
        a, b, w = args
        return total(lambda: [int(L.get_distance_between_locations(mk_loc(a), mk_loc(b), w))])
    if fn == 4:
        (a,) = args
        return total(lambda: [int(L.location_bridges_origin(mk_loc(a)))])
    if fn == 5:
        (a,) = args

        def go():
            lower, upper = L.split_origin_bridging_location(mk_loc(a))
            enc = lambda ps: enc_loc([(int(p.start), int(p.end), strand_from_py(p.strand)) for p in ps])
            return enc(lower) + enc(upper)
        return result(go)
    if fn == 6:
        locs, w = args
        return result(lambda: enc_pyloc(L.connect_locations([mk_loc(l) for l in locs], w)))
    if fn == 7:
        a, off, w = args
        return result(lambda: enc_pyloc(L.offset_location(mk_loc(a), off, wrap_point=w)))
    if fn == 8:
        a, d, m, circ = args

        def go():
            from antismash.common.secmet import Record
            rec = Record("A" * m)
            if circ:
                rec.add_annotation("topology", "circular")
            return enc_pyloc(rec.extend_location(mk_loc(a), d))
        return result(go)
    if fn == 9:
        (a,) = args
        return total(lambda: enc_pyloc(L.make_forwards(mk_loc(a))))
    if fn == 10:
        (a,) = args
        return total(lambda: enc_pyloc(L.remove_redundant_exons(mk_loc(a))))
    if fn == 11:
        a, s, undo = args
        return result(lambda: enc_pyloc(L.frameshift_location_by_qualifier(mk_loc(a), s, undo=bool(undo))))
    if fn == 12:
        a, b, src = args

        def go():
            from antismash.common.secmet.features import Feature
            left = Feature(mk_loc(a), feature_type="source" if src == 1 else "misc_feature")
            if src > 1:   # the right-hand side as a feature instead of a bare location
                return [int(left < Feature(mk_loc(b), feature_type="misc_feature"))]
            return [int(left < mk_loc(b))]
        return result(go)
    if fn == 13:
        a, b = args

        def go():
            from antismash.common.secmet.features import CDSCollection
            return [int(CDSCollection(mk_loc(a), feature_type="region") < mk_loc(b))]
        return result(go)
    raise ValueError(fn)


def encode(fn, args):
    if fn in (1, 2):
        return enc_loc(args[0]) + enc_loc(args[1])
    if fn == 3:
        return enc_loc(args[0]) + enc_loc(args[1]) + enc_wrap(args[2])
    if fn in (4, 5, 9, 10):
        return enc_loc(args[0])
    if fn == 6:
        out = [len(args[0])]
        for l in args[0]:
            out += enc_loc(l)
        return out + enc_wrap(args[1])
    if fn == 7:
        return enc_loc(args[0]) + [args[1]] + enc_wrap(args[2])
    if fn == 8:
        return enc_loc(args[0]) + [args[1], args[2], int(args[3])]
    if fn == 11:
        return enc_loc(args[0]) + [args[1], int(args[2])]
    if fn == 12:
        return enc_loc(args[0]) + enc_loc(args[1]) + [int(args[2] == 1)]
    if fn == 13:
        return enc_loc(args[0]) + enc_loc(args[1])
    raise ValueError(fn)


FN_NAMES = {1: "locations_overlap", 2: "location_contains_other", 3: "get_distance_between_locations",
            4: "location_bridges_origin", 5: "split_origin_bridging_location", 6: "connect_locations",
            7: "offset_location", 8: "Record.extend_location", 9: "make_forwards", 10: "remove_redundant_exons",
            11: "frameshift_location_by_qualifier", 12: "Feature.__lt__", 13: "CDSCollection.__lt__"}


def gen_case(rng):
    n = gen_n(rng)
    fn = rng.choice([1, 1, 2, 2, 3, 3, 3, 4, 5, 6, 6, 6, 6, 7, 7, 7, 8, 8, 8, 9, 10, 11, 12, 13])
    if fn == 12:
        a = gen_loc(rng, n)
        b = list(a) if rng.random() < 0.15 else gen_loc(rng, n)
        return fn, (a, b, rng.choice([0, 0, 1, 2])), n
    if fn == 13:
        return fn, (gen_collection_loc(rng, n), gen_collection_loc(rng, n)), n
    if fn in (1, 2):
        return fn, (gen_loc(rng, n), gen_loc(rng, n)), n
    if fn == 3:
        w = rng.choice([None, n, n, n])
        a, b = gen_loc(rng, n, w is not None), gen_loc(rng, n, w is not None)
        return fn, (a, b, w), n
    if fn in (4, 5):
        return fn, (gen_loc(rng, n),), n
    if fn == 6:
        w = rng.choice([None, n, n, n])
        k = rng.choice([1, 2, 2, 2, 3, 3, 4, 5])
        return fn, ([gen_loc(rng, n, True) for _ in range(k)], w), n
    if fn == 7:
        w = rng.choice([None, n, n, n, n])
        a = gen_loc(rng, n, w is not None)
        off = rng.randint(-2 * n, 2 * n) if w else rng.randint(-3, n)
        return fn, (a, off, w), n
    if fn == 8:
        circ = rng.random() < 0.7
        a = gen_loc(rng, n, circ)
        d = rng.choice([0, 1, 2, rng.randint(0, n + 1), rng.randint(0, n + 1)])
        return fn, (a, d, n, circ), n
    if fn in (9, 10):
        return fn, (gen_loc(rng, n),), n
    a = gen_loc(rng, n)
    return 11, (a, rng.choice([1, 2, 3, 1, 2, 3, 0, 4]), rng.random() < 0.5), n


ARGS_OF = {}   # flat encoding (tuple) -> decoded arguments, for readable replay files


def describe(flat):
    out = {"function": FN_NAMES.get(flat[1], flat[1]), "flat_payload": flat[2:]}
    args = ARGS_OF.get(tuple(flat))
    if args is not None:
        out["arguments (locations as lists of (start, end, strand); strand 2 = None)"] = args
    return out


def text_round_trip(chk, rng, count):
    """ independent oracle (no model): location_from_string(str(location)) == location, for exact,
        '<' and '>' positions, every strand form, 1..4 parts, operators join/order """
    from antismash.common.secmet.locations import FeatureLocation, CompoundLocation, location_from_string
    from Bio.SeqFeature import BeforePosition, AfterPosition, ExactPosition
    bad = None
    for _ in range(count):
        n = gen_n(rng)
        parts = gen_loc(rng, n)
        strands = [rng.choice([1, -1, 0, None]) for _ in parts] if rng.random() < 0.3 else [strand_to_py(parts[0][2])] * len(parts)
        fls = []
        for (s, e, _st), strand in zip(parts, strands):
            start = rng.choice([ExactPosition, ExactPosition, BeforePosition])(s)
            end = rng.choice([ExactPosition, ExactPosition, AfterPosition])(e)
            fls.append(FeatureLocation(start, end, strand))
        loc = fls[0] if len(fls) == 1 else CompoundLocation(fls, operator=rng.choice(["join", "join", "order"]))
        chk.count("text_round_trip")
        chk.evaluations += 1
        try:
            back = location_from_string(str(loc))
            same = (back == loc and str(back) == str(loc) and type(back) is type(loc)
                    and [type(p.start) for p in back.parts] == [type(p.start) for p in loc.parts]
                    and [type(p.end) for p in back.parts] == [type(p.end) for p in loc.parts]
                    and getattr(back, "operator", None) == getattr(loc, "operator", None))
            err = None
        except Exception as exc:  # pylint: disable=broad-except
            same, back, err = False, None, repr(exc)
        if not same and bad is None:
            bad = {"theorem_or_correspondence": "text codec oracle: location_from_string(str(l)) == l",
                   "input": repr(loc), "text": str(loc), "read_back": repr(back), "error": err}
    if bad:
        chk.violation("counterexample", "location_from_string(str(location)) differs from the location", bad)


def nontrivial(fn, args):
    locs = [a for a in args if isinstance(a, list) and a and isinstance(a[0], tuple)]
    if fn == 6:
        locs = args[0]
    return any(len(l) > 1 for l in locs) or fn in (6, 7, 8)


RULE = ("random structured locations (simple / multi-exon / origin-spanning, strands +,-,0,None) on records of "
        "length 2..60 (and a few large), for each public function of secmet.locations, Record.extend_location, "
        "Feature.__lt__ and CDSCollection.__lt__ (model vs implementation), the decidable set-of-bases specification "
        "evaluated on every implementation output of overlap/contains/distance/connect/offset/extend, every "
        "CDSCollection.__lt__ pair also asked the other way round (asymmetry), the regression corpus of the repaired "
        "findings first, and a text round-trip oracle; non-trivial = a compound location is involved or the function is connect/offset/extend; "
        "distinct by flat encoding")


SPEC_OFFSET = 100
SPEC_FNS = (1, 2, 3, 6, 7, 8)
CLAUSES = {
    1: {1: "overlap <-> the two locations share a base"},
    2: {1: "contains <-> every part of the inner lies inside one part of the outer"},
    3: {1: "distance = 0 when sharing a base, else the minimum over part pairs of the bases between (shorter way round on a ring)"},
    6: {1: "connect raised on well-formed inputs", 2: "result is not a well-formed span (non-empty parts inside the record, "
           "at most two, the second starting at 0, disjoint)", 3: "on a line the result is not the exact hull",
        4: "result does not cover every input base", 5: "result longer than the linear hull although no input wraps",
        6: "an arc shorter than half the record covers all inputs but the result is longer than it"},
    7: {1: "offset raised on a well-formed input", 2: "result parts empty or outside the record", 3: "result parts overlap",
        4: "length changed", 5: "strand changed", 6: "bases of the result are not the rotated bases of the input"},
    8: {1: "extend raised on a well-formed input", 2: "result parts empty or outside the record", 3: "result parts overlap",
        6: "bases of the result are not exactly the bases within the distance"},
}


# recorded finding classes: (function, class number computed in Gallina by fn 208) -> (class name, clause it violates)
# (the class extend_lower_lost, F09b, was repaired: nothing is suppressed for it, its witnesses are in CORPUS)
FINDING_CLASSES = {(8, 1): ("extend_near_full", 3)}
CLASS_FN = {8: 208}
WITNESSES = {  # class name -> (fn, args) replayed on the implementation every run
    "extend_near_full": (8, ([(3, 4, NONE), (0, 3, NONE)], 2, 4, True)),
}

# regression corpus, run first on every run: (fn, args, record length).  Witnesses of the repaired findings
# F09b extend_lower_lost (the lower extension was dropped when the upper one had been merged: a base within the
# distance was missing; with and without exons left in the middle, both strands, the two extensions touching /
# not touching) and F53 collection_lt_not_asymmetric = C10-F46 whole_record_vs_origin_spanning_order (whole
# record vs origin-spanning collection, both ways; also the candidate clusters of the C10 witness).
CORPUS = [
    (8, ([(0, 1, NONE), (3, 4, NONE)], 2, 4, True), 4),
    (8, ([(3, 4, -1), (0, 1, -1)], 2, 4, True), 4),
    (8, ([(1, 2, 1), (3, 6, 1)], 5, 8, True), 8),
    (8, ([(0, 1, 1), (3, 5, 1)], 2, 5, True), 5),
    (8, ([(2, 3, 1), (8, 10, 1), (17, 18, 1)], 6, 20, True), 20),
    (8, ([(17, 18, -1), (8, 10, -1), (2, 3, -1)], 6, 20, True), 20),
    (8, ([(2, 3, 1), (8, 10, 1), (17, 18, 1)], 4, 20, True), 20),
    (8, ([(2, 3, 1), (5, 6, 1), (17, 18, 1)], 7, 20, True), 20),
    (8, ([(0, 1, 1), (1, 2, 1)], 1, 2, True), 2),
    (13, ([(0, 10, 1)], [(7, 10, 1), (0, 2, 1)]), 10),
    (13, ([(7, 10, 1), (0, 2, 1)], [(0, 10, 1)]), 10),
    (13, ([(0, 300, 1)], [(249, 300, 1), (0, 109, 1)]), 300),
    (13, ([(249, 300, 1), (0, 109, 1)], [(0, 300, 1)]), 300),
    (13, ([(0, 10, -1)], [(0, 10, 1)]), 10),
]


def known_classes():
    return {f["class"]: f for f in common.load_known_findings("C04") if f.get("status") == "known"}


def suppress_known(chk, cases, impl_outs, model_outs, failing):
    """ a specification failure is attributed to a recorded finding only if the input lies in the
        finding's class (computed in Gallina), the class is listed with status known, the violated
        clause is the recorded one and the implementation still behaves exactly like the faithful model """
    known = known_classes()
    todo = [(size, i, v) for size, i, v in failing if cases[i][1] in CLASS_FN]
    classes = common.run_driver([[cases[i][0], CLASS_FN[cases[i][1]]] + cases[i][2:] for _s, i, _v in todo])
    class_of = {i: c[0] for (_s, i, _v), c in zip(todo, classes)}
    kept = []
    for size, i, verdict in failing:
        name, clause = FINDING_CLASSES.get((cases[i][1], class_of.get(i, 0)), (None, None))
        if name and name in known and verdict[1] == clause and impl_outs[i] == model_outs[i]:
            chk.count("known_finding_class_" + name)
            continue
        kept.append((size, i, verdict))
    # the stored witnesses, replayed on the implementation
    for name, (fn, args) in WITNESSES.items():
        if name not in known:
            continue
        out = impl(fn, args)
        verdict = common.run_driver([[PROP, fn + SPEC_OFFSET] + encode(fn, args) + out])[0]
        if verdict[0] == 0:
            chk.known(known[name].get("what_fails", name))
        else:
            chk.count("known_finding_no_longer_reproduces_" + name)
    return kept


ORDER_SPEC_FN = 113


def order_search(chk, cases, impl_outs):
    """ CDSCollection.__lt__ is asymmetric (theorem C04_order_collection_asym; finding F53
        collection_lt_not_asymmetric, repaired): for EVERY generated pair the implementation is also asked the
        other way round and the Gallina specification 113 decides `not (a < b and b < a)` on the two answers """
    idx = [i for i, c in enumerate(cases) if c[1] == 13]
    spec_cases = []
    for i in idx:
        a, b = ARGS_OF[tuple(cases[i])]
        spec_cases.append([PROP, ORDER_SPEC_FN] + cases[i][2:] + impl_outs[i] + impl(13, (b, a)))
    chk.evaluations += len(idx)
    failing = []
    for i, flat, verdict in zip(idx, spec_cases, common.run_driver(spec_cases)):
        chk.count({1: "order_spec_ok", 0: "order_spec_violated", 2: "order_spec_not_applicable"}.get(verdict[0], "order_spec_undecoded"))
        if verdict[0] == 0:
            failing.append((len(flat), i, flat))
        elif verdict[0] not in (1, 2):
            chk.violation("broken-correspondence", "specification of CDSCollection.__lt__ could not decode a case",
                          {"theorem_or_correspondence": "spec decoding", "flat": flat})
            return
    chk.extra["order_pairs_asked_both_ways"] = len(idx)
    if failing:
        _size, i, flat = min(failing)
        a, b = ARGS_OF[tuple(cases[i])]
        chk.violation("counterexample", "CDSCollection.__lt__ is not asymmetric: collection(a) < b and collection(b) < a both hold",
                      {"theorem_or_correspondence": "C04_order_collection_asym / specification 113", "function": 13,
                       "flat": cases[i], "input": describe(cases[i]), "a": a, "b": b,
                       "implementation [a < b, b < a]": flat[-4:], "cases_violating": len(failing)})


def spec_search(chk, cases, impl_outs, model_outs):
    """ failing-input search: the decidable set-of-bases specification (Gallina, function id + 100) is
        evaluated on the implementation's output of EVERY case of the six specified operations """
    idx = [i for i, c in enumerate(cases) if c[1] in SPEC_FNS]
    spec_cases = [[cases[i][0], cases[i][1] + SPEC_OFFSET] + cases[i][2:] + impl_outs[i] for i in idx]
    verdicts = common.run_driver(spec_cases)
    failing = []
    for i, verdict in zip(idx, verdicts):
        fn = cases[i][1]
        kind = {1: "spec_ok", 0: "spec_violated", 2: "spec_precondition_unmet"}.get(verdict[0], "spec_undecoded")
        chk.count(kind)
        if verdict[0] == 0:
            chk.count(f"spec_violated_{FN_NAMES[fn]}_clause{verdict[1]}")
            failing.append((len(cases[i]), i, verdict))
        elif verdict[0] not in (1, 2):
            chk.violation("broken-correspondence", f"specification of {FN_NAMES[fn]} could not decode a case",
                          {"theorem_or_correspondence": "spec decoding", "flat": spec_cases[idx.index(i)]})
            return
    chk.extra["spec_evaluated"] = len(idx)
    chk.extra["spec_violations"] = len(failing)
    failing = suppress_known(chk, cases, impl_outs, model_outs, failing)
    chk.extra["spec_violations_in_recorded_finding_classes"] = chk.extra["spec_violations"] - len(failing)
    failing.sort()
    reported = set()
    for _size, i, verdict in failing:
        fn = cases[i][1]
        key = (fn, verdict[1])
        if key in reported:
            continue
        reported.add(key)
        clause = CLAUSES.get(fn, {}).get(verdict[1], str(verdict[1]))
        chk.violation("counterexample", f"{FN_NAMES[fn]}: {clause}",
                      {"theorem_or_correspondence": f"C04 specification of {FN_NAMES[fn]} (clause {verdict[1]})",
                       "function": fn, "flat": cases[i], "input": describe(cases[i]),
                       "implementation": impl_outs[i], "model": model_outs[i],
                       "spec_verdict_on_implementation_output": verdict,
                       "cases_violating_this_clause": sum(1 for _s, j, v in failing if (cases[j][1], v[1]) == key)})


def run(chk):
    if not chk.build_and_audit():
        return chk.finish(RULE)
    total = 30000 if chk.tier == "quick" else 600000
    cases, impl_outs = [], []
    for k in range(total):
        fn, args, n = CORPUS[k] if k < len(CORPUS) else gen_case(chk.rng)
        flat = [PROP, fn] + encode(fn, args)
        ARGS_OF[tuple(flat)] = args
        out = impl(fn, args)
        cases.append(flat)
        impl_outs.append(out)
        chk.count(FN_NAMES[fn])
        if out[:1] == [1] and fn in (5, 6, 7, 8, 11):
            chk.count("error_kind_" + common.ERR_NAME.get(out[1], str(out[1])))
        chk.note_case(flat, nontrivial(fn, args),
                      {"function": FN_NAMES[fn], "args": args, "record_length": n, "implementation": out})
    model_outs = common.correspondence(chk, cases, impl_outs, spec_fn_offset=SPEC_OFFSET, describe=describe)
    spec_search(chk, cases, impl_outs, model_outs)
    order_search(chk, cases, impl_outs)
    text_round_trip(chk, chk.rng, 3000 if chk.tier == "quick" else 60000)
    chk.crosscheck_vm(cases, model_outs)
    return chk.finish(RULE)


def replay(chk, path):
    import json
    doc = json.load(open(path))
    flat = doc["flat"]
    model = common.run_driver([flat])[0]
    print("model:", model, "recorded implementation:", doc.get("implementation"))
    return 0
