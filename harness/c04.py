"""C04: correspondence between the Gallina location model and secmet.locations / Record helpers."""
import common
from common import err_code, call_with_timeout

PROP = 4
NONE = 2  # strand None in the flat encoding


def strand_to_py(s):
    return None if s == NONE else s


def strand_from_py(s):
    return NONE if s is None else int(s)


def mk_loc(parts):
    """ parts: list of (start, end, strand) -> secmet location """
    from antismash.common.secmet.locations import FeatureLocation, CompoundLocation
    fls = [FeatureLocation(s, e, strand_to_py(st)) for s, e, st in parts]
    if len(fls) == 1:
        return fls[0]
    return CompoundLocation(fls)


def enc_loc(parts):
    out = [len(parts)]
    for s, e, st in parts:
        out += [s, e, st]
    return out


def enc_pyloc(loc):
    return enc_loc([(int(p.start), int(p.end), strand_from_py(p.strand)) for p in loc.parts])


def enc_wrap(w):
    return [0] if w is None else [1, w]


def result(fn):
    """ runs the implementation, returns the encoded result (0 :: value | 1 :: [kind]) """
    try:
        value = call_with_timeout(fn, 10)
    except common.Timeout:
        return [1, 11]
    except Exception as exc:  # pylint: disable=broad-except
        return [1, err_code(exc)]
    return [0] + value


# ------------------------------------------------------------------ generators

def total(fn):
    """ for functions the model treats as total: the bare value, or [-1, kind] on an exception """
    out = result(fn)
    return out[1:] if out[0] == 0 else [-1, out[1]]


def gen_simple(rng, n, strand=None):
    s = rng.randrange(0, n)
    e = rng.randrange(s + 1, n + 1)
    if strand is None:
        strand = rng.choice([1, 1, -1, -1, NONE, 0])
    return [(s, e, strand)]


def gen_exons(rng, n, strand, k, lo=0, hi=None):
    """ k disjoint, non-adjacent-or-adjacent exons inside [lo, hi), ascending """
    hi = n if hi is None else hi
    if hi - lo < k:
        k = max(1, hi - lo)
    cuts = sorted(rng.sample(range(lo, hi + 1), min(2 * k, hi - lo + 1)))
    parts = []
    for i in range(0, len(cuts) - 1, 2):
        if cuts[i] < cuts[i + 1]:
            parts.append((cuts[i], cuts[i + 1], strand))
    if not parts:
        parts = [(lo, lo + 1, strand)]
    if len(parts) > 1 and rng.random() < 0.3:
        # TOUCHING exons (end of one = start of the next), often several in a row: every gap is closed with
        # probability 0.6 (the merge loops of offset_location / extend_location / build_location_from_others
        # compare exactly these coordinates; the repaired finding offset_merge_drops_part needed two touching pairs in a row)
        closed = [parts[0]]
        for s, e, st in parts[1:]:
            closed.append((closed[-1][1], e, st) if rng.random() < 0.6 else (s, e, st))
        parts = closed
    return parts


def gen_multi(rng, n, strand=None):
    if strand is None:
        strand = rng.choice([1, -1, NONE])
    parts = gen_exons(rng, n, strand, rng.randint(2, 4))
    if strand == -1 and rng.random() < 0.85:
        parts.reverse()  # transcription order
    return parts


def gen_bridging(rng, n, strand=None):
    """ origin-spanning: upper exons (ending at or before n) then lower exons (from 0), in transcription order """
    if n < 2:
        return gen_simple(rng, n)
    if strand is None:
        strand = rng.choice([1, -1, 1, -1, NONE])
    split = rng.randrange(1, n)  # lower part inside [0, split), upper inside [split, n)
    if rng.random() < 0.7:
        e = rng.randrange(1, split + 1)
        s = rng.randrange(split, n)
        lower = [(0, e, strand)]
        upper = [(s, n, strand)]
    else:
        lower = gen_exons(rng, n, strand, rng.randint(1, 2), 0, split)
        upper = gen_exons(rng, n, strand, rng.randint(1, 2), split, n)
    if strand == -1:
        return list(reversed(lower)) + list(reversed(upper))
    return upper + lower


def gen_rev_bridging_multi(rng, n):
    """ a reverse-strand origin-spanning location with three or more exons in transcription order (neither the
        listed nor the reversed exon order is a non-bridging one: location_bridges_origin(allow_reversing=True)
        reverses, tests again and has to swap back), sometimes written in the alternate (reversed) order """
    split = rng.randrange(2, n - 1) if n > 4 else 2
    k_low, k_up = rng.choice([(1, 2), (2, 1), (2, 2), (1, 3), (3, 1)])
    lower = gen_exons(rng, n, -1, k_low, 0, split)
    upper = gen_exons(rng, n, -1, k_up, split, n)
    parts = list(reversed(lower)) + list(reversed(upper))
    if rng.random() < 0.25:
        parts.reverse()
    return parts


def gen_loc(rng, n, allow_bridging=True):
    r = rng.random()
    if r < 0.5 or n < 3:
        return gen_simple(rng, n)
    parts = gen_multi(rng, n) if r < 0.75 or not allow_bridging else gen_bridging(rng, n)
    if len(parts) > 1 and rng.random() < 0.08:
        # exons of different strands (what `parts[0].strand = x` and trans-spliced annotations leave behind)
        parts = [(s, e, rng.choice([1, -1, 0, NONE])) for s, e, _st in parts]
    return parts


def gen_collection_loc(rng, n):
    """ what a CDSCollection accepts: one part, or a forward span [s,n)+[0,e) """
    r = rng.random()
    if r < 0.15:
        return [(0, n, 1)]
    if r < 0.6 or n < 3:
        return gen_simple(rng, n, rng.choice([1, -1, NONE]))
    s = rng.randrange(1, n)
    e = rng.randrange(1, s + 1)
    return [(s, n, 1), (0, e, 1)]


def gen_n(rng):
    r = rng.random()
    if r < 0.6:
        return rng.randint(2, 14)
    if r < 0.9:
        return rng.randint(15, 60)
    return rng.choice([100, 101, 1000, 99999])


# ------------------------------------------------------------------ implementation adapters

def enc_str(text):
    return [len(text)] + [ord(c) for c in text]


def pos_kind(pos):
    from Bio.SeqFeature import BeforePosition, AfterPosition
    return 1 if isinstance(pos, BeforePosition) else 2 if isinstance(pos, AfterPosition) else 0


def enc_py_tloc(loc):
    """ textual location (position kinds kept), the encoding of C10.Model.eTloc """
    def part(p):
        return [pos_kind(p.start), int(p.start), pos_kind(p.end), int(p.end), strand_from_py(p.strand)]
    if len(loc.parts) > 1:
        out = [1] + enc_str(loc.operator) + [len(loc.parts)]
        for p in loc.parts:
            out += part(p)
        return out
    return [0] + part(loc)


def mk_tloc(spec):
    """ spec: (operator, [(start kind, start, end kind, end, strand)]) -> location with position kinds """
    from antismash.common.secmet.locations import FeatureLocation, CompoundLocation
    from Bio.SeqFeature import BeforePosition, AfterPosition, ExactPosition
    kinds = {0: ExactPosition, 1: BeforePosition, 2: AfterPosition}
    fls = [FeatureLocation(kinds[sk](s), kinds[ek](e), strand_to_py(st)) for sk, s, ek, e, st in spec[1]]
    return fls[0] if len(fls) == 1 else CompoundLocation(fls, operator=spec[0])


def enc_tloc_spec(spec):
    operator, parts = spec
    if len(parts) > 1:
        out = [1] + enc_str(operator) + [len(parts)]
        for p in parts:
            out += list(p)
        return out
    return [0] + list(parts[0])


def mk_loc_via_text(parts):
    """ the same location as mk_loc(parts), built the way saved results are reloaded: from its text """
    from antismash.common.secmet.locations import location_from_string
    return location_from_string(str(mk_loc(parts)))


RECORDS = {}


def record_of(m, circ):
    """ a record of length m; Record construction is slow for long sequences, so they are kept (the Record
        helpers driven here only read len() and the topology) """
    key = (m, bool(circ))
    if key not in RECORDS:
        from antismash.common.secmet import Record
        rec = Record("A" * m)
        if circ:
            rec.add_annotation("topology", "circular")
        if len(RECORDS) > 400:
            RECORDS.clear()
        RECORDS[key] = rec
    return RECORDS[key]


INVARIANT_FAILS = []   # (fn, args, what, object description): returned objects that are not secmet locations


def describe_object(loc):
    return {"type": f"{type(loc).__module__}.{type(loc).__name__}",
            "part_types": sorted({f"{type(p).__module__}.{type(p).__name__}" for p in getattr(loc, "parts", [])}),
            "repr": repr(loc)}


def class_invariant(loc):
    """ the dynamic type / class invariants of a returned location (the other helpers dispatch on them:
        isinstance(x, CompoundLocation) with the secmet class decides exon-wise containment/overlap, the type
        assertion of location_bridges_origin, the mixin methods clone/crosses_origin/clone_with_offset).
        Returns None, or what is wrong. """
    from antismash.common.secmet import locations as L
    if not isinstance(loc, (L.FeatureLocation, L.CompoundLocation)):
        return f"returned object is a {type(loc).__module__}.{type(loc).__name__}, not a secmet FeatureLocation/CompoundLocation"
    parts = list(loc.parts)
    if isinstance(loc, L.CompoundLocation):
        if len(parts) < 2:
            return "CompoundLocation with fewer than two parts"
        if not isinstance(loc.operator, str):
            return "CompoundLocation without an operator"
        for part in parts:
            if not isinstance(part, L.FeatureLocation) or isinstance(part, L.CompoundLocation):
                return f"a part of the CompoundLocation is a {type(part).__module__}.{type(part).__name__}, not a secmet FeatureLocation"
    elif len(parts) != 1 or parts[0] is not loc:
        return "FeatureLocation whose parts are not [itself]"
    for part in parts:
        if not (isinstance(part.start, int) and isinstance(part.end, int)) or int(part.start) > int(part.end):
            return f"part with non-integer or inverted positions: {part!r}"
        if part.strand not in (1, -1, 0, None):
            return f"part with strand {part.strand!r}"
    for method in ("clone", "crosses_origin", "clone_with_offset"):
        if not callable(getattr(loc, method, None)):
            return f"returned location has no method {method}()"
    return None


def call_objs(fn, args, build=mk_loc, live=None):
    """ runs the implementation on freshly built arguments.  Returns (encoded output, location objects of the
        call: the arguments in order, then the returned location) - the same objects, in the same order, as
        call_objects in C04/Model.v """
    from antismash.common.secmet import locations as L
    objs = []
    res = []

    def arg(parts):
        # live: {k: object} - the k-th argument location of the call is this live object (the composition family
        # passes the object RETURNED by another function, not a rebuilt copy)
        objs.append(live[len(objs)] if live and len(objs) in live else build(parts))
        return objs[-1]

    def keep(loc):
        res.append(loc)
        why = class_invariant(loc)
        if why:
            INVARIANT_FAILS.append((fn, args, why, describe_object(loc)))
        return enc_pyloc(loc)

    if fn == 1:
        a, b = arg(args[0]), arg(args[1])
        out = total(lambda: [int(L.locations_overlap(a, b))])
    elif fn == 2:
        a, b = arg(args[0]), arg(args[1])
        out = total(lambda: [int(L.location_contains_other(a, b))])
    elif fn == 3:
        a, b = arg(args[0]), arg(args[1])
        out = total(lambda: [int(L.get_distance_between_locations(a, b, args[2]))])
    elif fn == 4:
        a = arg(args[0])
        out = total(lambda: [int(L.location_bridges_origin(a))])
    elif fn == 5:
        a = arg(args[0])

        def go():
            lower, upper = L.split_origin_bridging_location(a)
            for part in list(lower) + list(upper):
                why = class_invariant(part)
                if why:
                    INVARIANT_FAILS.append((fn, args, why, describe_object(part)))
            enc = lambda ps: enc_loc([(int(p.start), int(p.end), strand_from_py(p.strand)) for p in ps])
            return enc(lower) + enc(upper)
        out = result(go)
    elif fn == 6:
        locs = [arg(l) for l in args[0]]
        out = result(lambda: keep(L.connect_locations(locs, args[1])))
    elif fn == 7:
        a = arg(args[0])
        out = result(lambda: keep(L.offset_location(a, args[1], wrap_point=args[2])))
    elif fn == 8:
        a = arg(args[0])
        out = result(lambda: keep(record_of(args[2], args[3]).extend_location(a, args[1])))
    elif fn == 9:
        a = arg(args[0])
        out = total(lambda: keep(L.make_forwards(a)))
    elif fn == 10:
        a = arg(args[0])
        out = total(lambda: keep(L.remove_redundant_exons(a)))
    elif fn == 11:
        a = arg(args[0])
        out = result(lambda: keep(L.frameshift_location_by_qualifier(a, args[1], undo=bool(args[2]))))
    elif fn == 12:
        a, b = arg(args[0]), arg(args[1])
        src = args[2]

        def go():
            from antismash.common.secmet.features import Feature
            left = Feature(a, feature_type="source" if src == 1 else "misc_feature")
            if src > 1:   # the right-hand side as a feature instead of a bare location
                return [int(left < Feature(b, feature_type="misc_feature"))]
            return [int(left < b)]
        out = result(go)
    elif fn == 13:
        a, b = arg(args[0]), arg(args[1])

        def go():
            from antismash.common.secmet.features import CDSCollection
            return [int(CDSCollection(a, feature_type="region") < b)]
        out = result(go)
    elif fn == 14:
        def go():
            loc = L.location_from_string(args[0])
            res.append(loc)
            return enc_py_tloc(loc)
        out = result(go)
    elif fn == 15:
        objs.append(live[0] if live and 0 in live else mk_tloc(args[0]))
        out = enc_str(str(objs[0]))
    elif fn == 16:
        locs = [arg(l) for l in args[0]]
        out = result(lambda: keep(L.build_location_from_others(locs)))
    elif fn == 17:
        locs = [arg(l) for l in args[0]]
        rec = record_of(args[1], args[2])
        if args[3]:
            out = result(lambda: keep(rec.connect_locations(locs, disable_wrapping=True)))
        else:
            out = result(lambda: keep(rec.connect_locations(locs)))
    elif fn == 18:
        a, b = arg(args[0]), arg(args[1])
        out = total(lambda: [int(record_of(args[2], args[3]).get_distance_between_locations(a, b))])
    elif fn == 19:
        a = arg(args[0])
        out = total(lambda: [int(L.location_bridges_origin(a, allow_reversing=True))] + enc_pyloc(a))
    else:
        raise ValueError(fn)
    return out, objs + res


def impl(fn, args):
    return call_objs(fn, args)[0]


def encode(fn, args):
    if fn in (1, 2):
        return enc_loc(args[0]) + enc_loc(args[1])
    if fn == 3:
        return enc_loc(args[0]) + enc_loc(args[1]) + enc_wrap(args[2])
    if fn in (4, 5, 9, 10):
        return enc_loc(args[0])
    if fn == 6:
        out = [len(args[0])]
        for l in args[0]:
            out += enc_loc(l)
        return out + enc_wrap(args[1])
    if fn == 7:
        return enc_loc(args[0]) + [args[1]] + enc_wrap(args[2])
    if fn == 8:
        return enc_loc(args[0]) + [args[1], args[2], int(args[3])]
    if fn == 11:
        return enc_loc(args[0]) + [args[1], int(args[2])]
    if fn == 12:
        return enc_loc(args[0]) + enc_loc(args[1]) + [int(args[2] == 1)]
    if fn == 13:
        return enc_loc(args[0]) + enc_loc(args[1])
    if fn == 14:
        return enc_str(args[0])
    if fn == 15:
        return enc_tloc_spec(args[0])
    if fn == 16:
        out = [len(args[0])]
        for l in args[0]:
            out += enc_loc(l)
        return out
    if fn == 17:
        out = [len(args[0])]
        for l in args[0]:
            out += enc_loc(l)
        return out + [args[1], int(args[2]), int(args[3])]
    if fn == 18:
        return enc_loc(args[0]) + enc_loc(args[1]) + [args[2], int(args[3])]
    if fn == 19:
        return enc_loc(args[0])
    raise ValueError(fn)


FN_NAMES = {1: "locations_overlap", 2: "location_contains_other", 3: "get_distance_between_locations",
            4: "location_bridges_origin", 5: "split_origin_bridging_location", 6: "connect_locations",
            7: "offset_location", 8: "Record.extend_location", 9: "make_forwards", 10: "remove_redundant_exons",
            11: "frameshift_location_by_qualifier", 12: "Feature.__lt__", 13: "CDSCollection.__lt__",
            14: "location_from_string", 15: "str(location)", 16: "build_location_from_others",
            17: "Record.connect_locations", 18: "Record.get_distance_between_locations",
            19: "location_bridges_origin(allow_reversing=True)"}


def gen_tloc_spec(rng, n):
    """ a location with position kinds (exact, '<', '>'), any strand spelling, operator join/order """
    parts = gen_loc(rng, n)
    strands = [rng.choice([1, -1, 0, NONE]) for _ in parts] if rng.random() < 0.3 else [parts[0][2]] * len(parts)
    spec = [(rng.choice([0, 0, 1]), s, rng.choice([0, 0, 2]), e, st) for (s, e, _st), st in zip(parts, strands)]
    return (rng.choice(["join", "join", "order"]), spec)


def gen_connect_args(rng, n, w):
    """ 1-5 locations; a quarter of the lists of two or more has a TIE on the lowest start: two single-part
        locations starting at the lowest coordinate with different ends, somewhere in the list """
    k = rng.choice([1, 2, 2, 2, 3, 3, 4, 5])
    locs = [gen_loc(rng, n, w is not None) for _ in range(k)]
    if k >= 2 and rng.random() < 0.25:
        s = min(p[0] for l in locs for p in l)
        locs[0] = [(s, rng.randrange(s + 1, n + 1), rng.choice([1, -1, NONE]))]
        locs[1] = [(s, rng.randrange(s + 1, n + 1), rng.choice([1, -1, NONE]))]
        rng.shuffle(locs)
    return locs


def gen_adjacent_list(rng, n):
    """ arguments of build_location_from_others: 1-4 locations, mostly ascending and often touching """
    k = rng.choice([1, 2, 2, 3, 4])
    if rng.random() < 0.3:
        return [gen_loc(rng, n, False) for _ in range(k)]
    strand = rng.choice([1, -1, NONE, 0])
    cuts = sorted(rng.sample(range(0, n + 1), min(n + 1, 3 * k + 1)))
    locs, pos = [], 0
    for _ in range(k):
        m = rng.choice([1, 1, 2])
        if pos + 2 * m >= len(cuts):
            break
        parts = [(cuts[pos + 2 * j], cuts[pos + 2 * j + 1], strand) for j in range(m)]
        locs.append(parts)
        pos += 2 * m - 1 if rng.random() < 0.6 else 2 * m   # next location starts where this one ends
    return locs or [gen_simple(rng, n)]


FN_CHOICE = [1, 1, 2, 2, 3, 3, 3, 4, 5, 6, 6, 6, 6, 7, 7, 7, 8, 8, 8, 9, 10, 11, 12, 13,
             14, 15, 16, 17, 17, 18, 19]


def gen_case(rng, fn=None):
    n = gen_n(rng)
    if fn is None:
        fn = rng.choice(FN_CHOICE)
    if fn == 12:
        a = gen_loc(rng, n)
        b = list(a) if rng.random() < 0.15 else gen_loc(rng, n)
        return fn, (a, b, rng.choice([0, 0, 1, 2])), n
    if fn == 13:
        return fn, (gen_collection_loc(rng, n), gen_collection_loc(rng, n)), n
    if fn in (1, 2):
        return fn, (gen_loc(rng, n), gen_loc(rng, n)), n
    if fn == 3:
        w = rng.choice([None, n, n, n])
        a, b = gen_loc(rng, n, w is not None), gen_loc(rng, n, w is not None)
        return fn, (a, b, w), n
    if fn in (4, 5):
        return fn, (gen_loc(rng, n),), n
    if fn == 6:
        w = rng.choice([None, n, n, n])
        return fn, (gen_connect_args(rng, n, w), w), n
    if fn == 7:
        w = rng.choice([None, n, n, n, n])
        a = gen_loc(rng, n, w is not None)
        off = rng.randint(-2 * n, 2 * n) if w else rng.randint(-3, n)
        return fn, (a, off, w), n
    if fn == 8:
        circ = rng.random() < 0.7
        a = gen_loc(rng, n, circ)
        d = rng.choice([0, 1, 2, rng.randint(0, n + 1), rng.randint(0, n + 1)])
        return fn, (a, d, n, circ), n
    if fn in (9, 10):
        return fn, (gen_loc(rng, n),), n
    if fn == 14:
        return fn, (str(mk_tloc(gen_tloc_spec(rng, n))),), n
    if fn == 15:
        return fn, (gen_tloc_spec(rng, n),), n
    if fn == 16:
        return fn, (gen_adjacent_list(rng, n),), n
    if fn == 17:
        n = min(n, 1000)
        circ = rng.random() < 0.75
        return fn, (gen_connect_args(rng, n, n if circ else None), n, circ, rng.random() < 0.15), n
    if fn == 18:
        n = min(n, 1000)
        circ = rng.random() < 0.75
        return fn, (gen_loc(rng, n, circ), gen_loc(rng, n, circ), n, circ), n
    if fn == 19:
        a = gen_loc(rng, n)
        r = rng.random()
        if len(a) > 1 and r < 0.4:   # the alternate annotation order of a reverse-strand location
            a = sorted([(s, e, -1) for s, e, _ in a])
        elif r < 0.7 and n >= 6:
            a = gen_rev_bridging_multi(rng, n)
        return fn, (a,), n
    a = gen_loc(rng, n)
    return 11, (a, rng.choice([1, 2, 3, 1, 2, 3, 0, 4]), rng.random() < 0.5), n


ARGS_OF = {}   # flat encoding (tuple) -> decoded arguments, for readable replay files


def describe(flat):
    out = {"function": FN_NAMES.get(flat[1], flat[1]), "flat_payload": flat[2:]}
    args = ARGS_OF.get(tuple(flat))
    if args is not None:
        out["arguments (locations as lists of (start, end, strand); strand 2 = None)"] = args
    return out


def text_round_trip(chk, rng, count):
    """ independent oracle (no model): location_from_string(str(location)) == location, for exact,
        '<' and '>' positions, every strand form, 1..4 parts, operators join/order """
    from antismash.common.secmet.locations import FeatureLocation, CompoundLocation, location_from_string
    from Bio.SeqFeature import BeforePosition, AfterPosition, ExactPosition
    bad = None
    for _ in range(count):
        n = gen_n(rng)
        parts = gen_loc(rng, n)
        strands = [rng.choice([1, -1, 0, None]) for _ in parts] if rng.random() < 0.3 else [strand_to_py(parts[0][2])] * len(parts)
        fls = []
        for (s, e, _st), strand in zip(parts, strands):
            start = rng.choice([ExactPosition, ExactPosition, BeforePosition])(s)
            end = rng.choice([ExactPosition, ExactPosition, AfterPosition])(e)
            fls.append(FeatureLocation(start, end, strand))
        loc = fls[0] if len(fls) == 1 else CompoundLocation(fls, operator=rng.choice(["join", "join", "order"]))
        chk.count("text_round_trip")
        chk.evaluations += 1
        try:
            back = location_from_string(str(loc))
            same = (back == loc and str(back) == str(loc) and type(back) is type(loc)
                    and [type(p.start) for p in back.parts] == [type(p.start) for p in loc.parts]
                    and [type(p.end) for p in back.parts] == [type(p.end) for p in loc.parts]
                    and getattr(back, "operator", None) == getattr(loc, "operator", None))
            err = None
        except Exception as exc:  # pylint: disable=broad-except
            same, back, err = False, None, repr(exc)
        if not same and bad is None:
            bad = {"theorem_or_correspondence": "text codec oracle: location_from_string(str(l)) == l",
                   "input": repr(loc), "text": str(loc), "read_back": repr(back), "error": err}
    if bad:
        chk.violation("counterexample", "location_from_string(str(location)) differs from the location", bad)


def nontrivial(fn, args):
    locs = [a for a in args if isinstance(a, list) and a and isinstance(a[0], tuple)]
    if fn in (6, 16, 17):
        locs = args[0]
    if fn == 14:
        return "{" in args[0]
    if fn == 15:
        return len(args[0][1]) > 1
    return any(len(l) > 1 for l in locs) or fn in (6, 7, 8, 17)


RULE = ("random structured locations (simple / multi-exon / origin-spanning, strands +,-,0,None) on records of "
        "length 2..60 (and a few large), for each public function of secmet.locations (incl. location_from_string, str(), "
        "build_location_from_others, location_bridges_origin with allow_reversing), Record.extend_location / connect_locations / "
        "get_distance_between_locations, Feature.__lt__ and CDSCollection.__lt__ (model vs implementation), the decidable "
        "set-of-bases specification evaluated on every implementation output of overlap/contains/distance/connect/offset/extend, "
        "every CDSCollection.__lt__ pair also asked the other way round (asymmetry), every connect argument list of two or more "
        "(a quarter with a tie on the lowest start) run again in permuted orders and the results compared (specification 116), "
        "exhaustively every multiset of two or three single-part forward locations on rings of length 2..5 (quick) / 2..8 (thorough) as "
        "connect cases in all argument orders, the history family (call, in-place mutation of the returned and of the argument objects by the mutators of the code "
        "base, the same call again on freshly built equal arguments, 40% of them built from their text; evaluated by Gallina "
        "function 300 and compared at every position; arguments compared before/after every call), the regression corpus of "
        "the repaired findings first, the composition family (the live object returned by every location-producing function "
        "passed to the location-consuming functions: same result as for an equal freshly built location, specification of the "
        "consumer, model of the composition), class invariants of every returned location, specification 119 on "
        "location_bridges_origin(allow_reversing=True) (answer and argument afterwards), touching exons in 30% of the multi-exon "
        "locations, and a text round-trip oracle; non-trivial = a compound location is involved or the "
        "function is connect/offset/extend; distinct by flat encoding")


SPEC_OFFSET = 100
SPEC_FNS = (1, 2, 3, 6, 7, 8, 17, 18, 19)


def spec_case(flat, out):
    """ the specification case of a model/implementation case: function id + 100, payload ++ implementation output;
        the Record helpers are judged by the specification of the function they wrap (wrap point = record length
        when circular) """
    args = ARGS_OF.get(tuple(flat))
    if flat[1] == 17:
        locs, m, circ, off = args
        return [PROP, 106] + encode(6, (locs, m if circ and not off else None)) + out
    if flat[1] == 18:
        a, b, m, circ = args
        return [PROP, 103] + encode(3, (a, b, m if circ else None)) + out
    return [flat[0], flat[1] + SPEC_OFFSET] + flat[2:] + out


CLAUSES = {
    17: {1: "connect raised on well-formed inputs", 2: "result is not a well-formed span", 3: "on a line the result is not the exact hull",
         4: "result does not cover every input base", 5: "result longer than the linear hull although no input wraps",
         6: "an arc shorter than half the record covers all inputs but the result is longer than it"},
    18: {1: "distance = 0 when sharing a base, else the minimum over part pairs of the bases between (shorter way round on a ring)"},
    1: {1: "overlap <-> the two locations share a base"},
    2: {1: "contains <-> every part of the inner lies inside one part of the outer"},
    3: {1: "distance = 0 when sharing a base, else the minimum over part pairs of the bases between (shorter way round on a ring)"},
    6: {1: "connect raised on well-formed inputs", 2: "result is not a well-formed span (non-empty parts inside the record, "
           "at most two, the second starting at 0, disjoint)", 3: "on a line the result is not the exact hull",
        4: "result does not cover every input base", 5: "result longer than the linear hull although no input wraps",
        6: "an arc shorter than half the record covers all inputs but the result is longer than it"},
    7: {1: "offset raised on a well-formed input", 2: "result parts empty or outside the record", 3: "result parts overlap",
        4: "length changed", 5: "strand changed", 6: "bases of the result are not the rotated bases of the input",
        7: "the bases of the result, read in transcription order (exons as listed, reverse strand downwards), are not the "
           "rotated bases of the input in transcription order"},
    19: {1: "location_bridges_origin(allow_reversing=True) answered True but left its argument changed (the exon list is "
            "swapped back 'so it will be reported as it was')",
         2: "location_bridges_origin(allow_reversing=True) changed its argument into something that is not its valid reversed exon order",
         3: "location_bridges_origin(allow_reversing=True): wrong answer (True iff the exon order is invalid for the strand and, "
            "on the reverse strand, the reversed order is invalid too)"},
    8: {1: "extend raised on a well-formed input", 2: "result parts empty or outside the record", 3: "result parts overlap",
        6: "bases of the result are not exactly the bases within the distance"},
}


# recorded finding classes: (function, class number computed in Gallina by fn 208) -> (class name, clause it violates)
# (the class extend_lower_lost, F09b, was repaired: nothing is suppressed for it, its witnesses are in CORPUS)
# (the classes C04-K2 offset_merge_drops_part and C04-K3 offset_reverse_wrap_order of offset_location, formerly Gallina
# fn 207, were repaired: nothing is classified or suppressed for offset_location, the witnesses are in CORPUS)
FINDING_CLASSES = {(8, 1): ("extend_near_full", 3)}
CLASS_FN = {8: 208}
WITNESSES = {  # class name -> [(fn, args)] replayed on the implementation every run
    "extend_near_full": [(8, ([(3, 4, NONE), (0, 3, NONE)], 2, 4, True)),
                         (8, ([(30, 100, 1), (0, 5, 1)], 31, 100, True))],
}

# regression corpus, run first on every run: (fn, args, record length).  Witnesses of the repaired findings
# F09b extend_lower_lost (the lower extension was dropped when the upper one had been merged: a base within the
# distance was missing; with and without exons left in the middle, both strands, the two extensions touching /
# not touching), F53 collection_lt_not_asymmetric = C10-F46 whole_record_vs_origin_spanning_order (whole
# record vs origin-spanning collection, both ways; also the candidate clusters of the C10 witness), and the two
# repaired findings of offset_location (C04-K2, C04-K3; see below).
CORPUS = [
    (8, ([(0, 1, NONE), (3, 4, NONE)], 2, 4, True), 4),
    (8, ([(3, 4, -1), (0, 1, -1)], 2, 4, True), 4),
    (8, ([(1, 2, 1), (3, 6, 1)], 5, 8, True), 8),
    (8, ([(0, 1, 1), (3, 5, 1)], 2, 5, True), 5),
    (8, ([(2, 3, 1), (8, 10, 1), (17, 18, 1)], 6, 20, True), 20),
    (8, ([(17, 18, -1), (8, 10, -1), (2, 3, -1)], 6, 20, True), 20),
    (8, ([(2, 3, 1), (8, 10, 1), (17, 18, 1)], 4, 20, True), 20),
    (8, ([(2, 3, 1), (5, 6, 1), (17, 18, 1)], 7, 20, True), 20),
    (8, ([(0, 1, 1), (1, 2, 1)], 1, 2, True), 2),
    (13, ([(0, 10, 1)], [(7, 10, 1), (0, 2, 1)]), 10),
    (13, ([(7, 10, 1), (0, 2, 1)], [(0, 10, 1)]), 10),
    (13, ([(0, 300, 1)], [(249, 300, 1), (0, 109, 1)]), 300),
    (13, ([(249, 300, 1), (0, 109, 1)], [(0, 300, 1)]), 300),
    (13, ([(0, 10, -1)], [(0, 10, 1)]), 10),
    # C04-K2 offset_merge_drops_part (repaired): three or more touching parts in a row in the wrapping path lost
    # the first part of the run (join{[15:20),[0:5),[5:9)} +5 on 20 gave [5:14)); both strands, longer runs
    (7, ([(15, 20, 1), (0, 5, 1), (5, 9, 1)], 5, 20), 20),
    (7, ([(0, 1, 1), (1, 2, 1), (2, 3, 1)], -4, 4), 4),
    (7, ([(10, 12, 1), (12, 15, 1), (15, 19, 1), (19, 20, 1), (0, 2, 1)], 3, 20), 20),
    (7, ([(5, 9, -1), (0, 5, -1), (15, 20, -1)], 5, 20), 20),
    (7, ([(2, 3, -1), (1, 2, -1), (0, 1, -1)], -4, 4), 4),
    # C04-K3 offset_reverse_wrap_order (repaired): a reverse-strand exon split at the wrap point came out in
    # forward order ([13:18)(-) +5 on 20 gave join{[18:20),[0:3)}); touching reverse-strand parts listed upwards
    # were merged; a reverse-strand origin-crossing location shifted off the origin was left in two parts
    (7, ([(13, 18, -1)], 5, 20), 20),
    (7, ([(0, 2, -1)], -1, 3), 3),
    (7, ([(0, 3, -1), (18, 20, -1)], 5, 20), 20),
    (7, ([(0, 3, -1), (15, 20, -1)], -2, 20), 20),
    (7, ([(3, 5, -1), (5, 8, -1)], 14, 20), 20),
    (7, ([(12, 18, -1), (6, 9, -1)], 5, 20), 20),
]


def small_ring_connect_cases(max_n):
    """ EXHAUSTIVE: every multiset of two or three single-part forward locations on every ring of length 2..max_n,
        as connect_locations cases (the order family then runs each of them in all argument orders and connects the
        result again): all ties on starts and ends, all gaps around half the record """
    import itertools
    out = []
    for n in range(2, max_n + 1):
        simple = [[(s, e, 1)] for s in range(n) for e in range(s + 1, n + 1)]
        for k in (2, 3):
            for combo in itertools.combinations_with_replacement(simple, k):
                out.append((6, (list(combo), n), n))
    return out


def known_classes():
    return {f["class"]: f for f in common.load_known_findings("C04") if f.get("status") == "known"}


def suppress_known(chk, cases, impl_outs, model_outs, failing, replay_witnesses=True):
    """ a specification failure is attributed to a recorded finding only if the input lies in the
        finding's class (computed in Gallina), the class is listed with status known, the violated
        clause is the recorded one and the implementation still behaves exactly like the faithful model """
    known = known_classes()
    todo = [(size, i, v) for size, i, v in failing if cases[i][1] in CLASS_FN]
    classes = common.run_driver([[cases[i][0], CLASS_FN[cases[i][1]]] + cases[i][2:] for _s, i, _v in todo])
    class_of = {i: c[0] for (_s, i, _v), c in zip(todo, classes)}
    kept = []
    for size, i, verdict in failing:
        name, clause = FINDING_CLASSES.get((cases[i][1], class_of.get(i, 0)), (None, None))
        if name and name in known and verdict[1] == clause and impl_outs[i] == model_outs[i]:
            chk.count("known_finding_class_" + name)
            continue
        kept.append((size, i, verdict))
    # the stored witnesses, replayed on the implementation
    for name, witnesses in WITNESSES.items():
        if name not in known or not replay_witnesses:
            continue
        verdicts = common.run_driver([[PROP, fn + SPEC_OFFSET] + encode(fn, args) + impl(fn, args) for fn, args in witnesses])
        if verdicts[0][0] == 0:
            chk.known(known[name].get("what_fails", name))
        else:
            chk.count("known_finding_no_longer_reproduces_" + name)
        for verdict in verdicts[1:]:
            chk.count(f"known_finding_further_witness_{'reproduces' if verdict[0] == 0 else 'no_longer_reproduces'}_{name}")
    return kept


ORDER_SPEC_FN = 113


def order_search(chk, cases, impl_outs):
    """ CDSCollection.__lt__ is asymmetric (theorem C04_order_collection_asym; finding F53
        collection_lt_not_asymmetric, repaired): for EVERY generated pair the implementation is also asked the
        other way round and the Gallina specification 113 decides `not (a < b and b < a)` on the two answers """
    idx = [i for i, c in enumerate(cases) if c[1] == 13]
    spec_cases = []
    for i in idx:
        a, b = ARGS_OF[tuple(cases[i])]
        spec_cases.append([PROP, ORDER_SPEC_FN] + cases[i][2:] + impl_outs[i] + impl(13, (b, a)))
    chk.evaluations += len(idx)
    failing = []
    for i, flat, verdict in zip(idx, spec_cases, common.run_driver(spec_cases)):
        chk.count({1: "order_spec_ok", 0: "order_spec_violated", 2: "order_spec_not_applicable"}.get(verdict[0], "order_spec_undecoded"))
        if verdict[0] == 0:
            failing.append((len(flat), i, flat))
        elif verdict[0] not in (1, 2):
            chk.violation("broken-correspondence", "specification of CDSCollection.__lt__ could not decode a case",
                          {"theorem_or_correspondence": "spec decoding", "flat": flat})
            return
    chk.extra["order_pairs_asked_both_ways"] = len(idx)
    if failing:
        _size, i, flat = min(failing)
        a, b = ARGS_OF[tuple(cases[i])]
        chk.violation("counterexample", "CDSCollection.__lt__ is not asymmetric: collection(a) < b and collection(b) < a both hold",
                      {"theorem_or_correspondence": "C04_order_collection_asym / specification 113", "function": 13,
                       "flat": cases[i], "input": describe(cases[i]), "a": a, "b": b,
                       "implementation [a < b, b < a]": flat[-4:], "cases_violating": len(failing)})


def spec_search(chk, cases, impl_outs, model_outs, tag="", describe_fn=None, replay_witnesses=True):
    """ failing-input search: the decidable set-of-bases specification (Gallina, function id + 100) is
        evaluated on the implementation's output of EVERY case of the specified operations (tag "composed_": the
        cases of the composition family, whose argument in one slot is the live object returned by another function) """
    describe_fn = describe_fn or (lambda i: describe(cases[i]))
    idx = [i for i, c in enumerate(cases) if c[1] in SPEC_FNS]
    spec_cases = [spec_case(cases[i], impl_outs[i]) for i in idx]
    verdicts = common.run_driver(spec_cases)
    failing = []
    for i, verdict in zip(idx, verdicts):
        fn = cases[i][1]
        kind = {1: "spec_ok", 0: "spec_violated", 2: "spec_precondition_unmet"}.get(verdict[0], "spec_undecoded")
        chk.count(tag + kind)
        if verdict[0] == 0:
            chk.count(f"{tag}spec_violated_{FN_NAMES[fn]}_clause{verdict[1]}")
            failing.append((len(cases[i]), i, verdict))
        elif verdict[0] not in (1, 2):
            chk.violation("broken-correspondence", f"specification of {FN_NAMES[fn]} could not decode a case",
                          {"theorem_or_correspondence": "spec decoding", "flat": spec_cases[idx.index(i)]})
            return
    chk.extra[tag + "spec_evaluated"] = len(idx)
    chk.extra[tag + "spec_violations"] = len(failing)
    failing = suppress_known(chk, cases, impl_outs, model_outs, failing, replay_witnesses)
    chk.extra[tag + "spec_violations_in_recorded_finding_classes"] = chk.extra[tag + "spec_violations"] - len(failing)
    failing.sort()
    reported = set()
    for _size, i, verdict in failing:
        fn = cases[i][1]
        key = (fn, verdict[1])
        if key in reported:
            continue
        reported.add(key)
        clause = CLAUSES.get(fn, {}).get(verdict[1], str(verdict[1]))
        chk.violation("counterexample", f"{FN_NAMES[fn]}: {clause}" + (" (argument: a location returned by another function)" if tag else ""),
                      {"theorem_or_correspondence": f"C04 specification of {FN_NAMES[fn]} (clause {verdict[1]})",
                       "function": fn, "flat": cases[i], "input": describe_fn(i),
                       "implementation": impl_outs[i], "model": model_outs[i],
                       "spec_verdict_on_implementation_output": verdict,
                       "cases_violating_this_clause": sum(1 for _s, j, v in failing if (cases[j][1], v[1]) == key)})


# ---------------------------------------------------------------------------------------------- composition
PRODUCERS = (6, 7, 8, 9, 10, 11, 16, 17, 19)    # 19: its argument afterwards (reordered in place by design)
CONSUMERS = [1, 1, 2, 2, 3, 3, 4, 5, 6, 6, 7, 7, 8, 8, 9, 10, 11, 12, 15, 16, 17, 18, 19]
MAX_RECORD = 2000   # Record helpers as consumers: records are built (and kept) per length


def gen_consumer(rng, parts, n):
    """ a call of a location-consuming function with the location `parts` in one argument slot.
        Returns (fn, args, k): the k-th argument location of the call is the slot """
    m = max([n] + [e for _s, e, _st in parts])   # a shift without a wrap point may leave [0, n)
    fn = rng.choice(CONSUMERS)
    if fn in (8, 17, 18) and m > MAX_RECORD:
        fn = rng.choice([1, 2, 3, 6, 7])
    if fn == 12 and any(a[0] < b[1] and b[0] < a[1] for i, a in enumerate(parts) for b in parts[i + 1:]):
        fn = 1   # Feature() refuses a location with overlapping exons (its constructor is not part of the model)
    other = gen_loc(rng, m)
    k = rng.randrange(2)
    pair = (parts, other) if k == 0 else (other, parts)
    if fn in (1, 2):
        return fn, pair, k
    if fn == 3:
        return fn, pair + (rng.choice([None, m, m]),), k
    if fn == 18:
        return fn, pair + (m, rng.random() < 0.75), k
    if fn == 12:
        return fn, pair + (rng.choice([0, 0, 1, 2]),), k
    if fn in (4, 5, 9, 10, 19):
        return fn, (parts,), 0
    if fn in (6, 16, 17):
        locs = [parts] if rng.random() < 0.4 else list(pair)
        k = locs.index(parts) if len(locs) == 1 else k
        if fn == 6:
            return fn, (locs, rng.choice([None, m, m, m])), k
        if fn == 16:
            return fn, (locs,), k
        return fn, (locs, m, rng.random() < 0.75, rng.random() < 0.15), k
    if fn == 7:
        w = rng.choice([None, m, m, m])
        return fn, (parts, rng.randint(-2 * m, 2 * m) if w else rng.randint(-3, m), w), 0
    if fn == 8:
        return fn, (parts, rng.choice([0, 1, 2, rng.randint(0, m + 1)]), m, rng.random() < 0.7), 0
    if fn == 11:
        return fn, (parts, rng.choice([1, 2, 3, 1, 2, 3, 0, 4]), rng.random() < 0.5), 0
    assert fn == 15
    return fn, (("join", [(0, s, 0, e, st) for s, e, st in parts]),), 0


def compose(rng, fn, args, n, out, obj, count=1):
    """ the live object returned by the producing call (fn, args) is passed to `count` consuming calls; each is
        also made with an equal, freshly built location in its place.  Returns the composed cases. """
    parts = [(int(p.start), int(p.end), strand_from_py(p.strand)) for p in obj.parts]
    comps = []
    for _ in range(count):
        fn2, args2, k = gen_consumer(rng, parts, n)
        if fn2 == 15 and getattr(obj, "operator", "join") != "join":
            args2 = ((obj.operator, args2[0][1]),)
        before = enc_pyloc(obj)
        live_out = call_objs(fn2, args2, live={k: obj})[0]
        fresh_out = impl(fn2, args2)
        after = enc_pyloc(obj)
        flat2 = [PROP, fn2] + encode(fn2, args2)
        ARGS_OF[tuple(flat2)] = args2
        comps.append({"flat": flat2, "fn": fn2, "args": args2, "slot": k, "live": live_out, "fresh": fresh_out,
                      "changed": None if fn2 == 19 or before == after else (before, after),
                      "producer": {"function": FN_NAMES[fn], "fn": fn, "args": args, "record_length": n, "implementation": out,
                                   "returned_object": describe_object(obj)}})
        if fn2 == 19 or before != after:
            break
    return comps


def describe_composed(comp):
    return {"producing_call": comp["producer"],
            "consuming_call": {"function": FN_NAMES[comp["fn"]], "fn": comp["fn"], "arguments": comp["args"],
                               "argument_that_is_the_returned_object": comp["slot"]},
            "implementation_on_the_returned_object": comp["live"],
            "implementation_on_an_equal_freshly_built_location": comp["fresh"]}


def compose_search(chk, comps):
    """ composition family: the OBJECT returned by every location-producing function is passed on to the
        location-consuming functions.  Decided (a) without the model: the result must be the one obtained for an
        equal, freshly built location (a returned location must be a location like any other: class, parts,
        methods) and the consuming call must leave the object as it is; (b) by the specification of the consuming
        function on the implementation's output; (c) against the model of the consuming function applied to the
        model's value of the produced location (= the composition of the two model functions, since the produced
        location already agreed with the model). """
    chk.extra["composed_calls"] = len(comps)
    chk.evaluations += 2 * len(comps)
    for comp in comps:
        chk.count(f"composed_producer_{FN_NAMES[comp['producer']['fn']]}")
        chk.count(f"composed_consumer_{FN_NAMES[comp['fn']]}")
    differs = [c for c in comps if c["live"] != c["fresh"]]
    chk.extra["composed_calls_differing_from_a_fresh_equal_location"] = len(differs)
    if differs:
        comp = min(differs, key=lambda c: (len(c["flat"]) + len(str(c["producer"]["args"]))))
        chk.violation("counterexample", f"{FN_NAMES[comp['fn']]} on the location returned by {comp['producer']['function']}: the "
                      "result differs from the result for an equal, freshly built location (the returned object does not "
                      "behave as the location it equals)",
                      dict(describe_composed(comp), theorem_or_correspondence="composition: a returned location behaves like every "
                           "other location with the same parts (decided on the implementation alone)", function=comp["fn"],
                           flat=comp["flat"], composition={"producer": [comp["producer"]["fn"], comp["producer"]["args"]],
                                                           "consumer": [comp["fn"], comp["args"], comp["slot"]]},
                           cases_differing=len(differs)))
    changed = [c for c in comps if c["changed"]]
    if changed:
        comp = min(changed, key=lambda c: len(c["flat"]))
        chk.violation("counterexample", f"{FN_NAMES[comp['fn']]} modified the location (returned by {comp['producer']['function']}) passed to it",
                      dict(describe_composed(comp), theorem_or_correspondence="C04_history_call_frame: a call leaves its arguments as they are",
                           function=comp["fn"], flat=comp["flat"], before_and_after=comp["changed"]))
    flats = [c["flat"] for c in comps]
    outs = [c["live"] for c in comps]
    by_flat = {}
    for comp in comps:
        by_flat.setdefault(tuple(comp["flat"]), comp)
    model_outs = common.correspondence(chk, flats, outs, describe=lambda flat: describe_composed(by_flat[tuple(flat)]),
                                       label="composition (consuming function on a returned location), model vs implementation")
    spec_search(chk, flats, outs, model_outs, tag="composed_", describe_fn=lambda i: describe_composed(comps[i]),
                replay_witnesses=False)
    return flats, model_outs


ORDER_INDEP_FN = 116


def permutations_of(rng, k):
    """ argument orders tried: all for up to three arguments, otherwise reversal, a rotation and four shuffles """
    import itertools
    ident = tuple(range(k))
    if k <= 3:
        return list(itertools.permutations(ident))
    perms = [ident, tuple(reversed(ident)), ident[1:] + ident[:1]]
    for _ in range(4):
        perms.append(tuple(rng.sample(ident, k)))
    return list(dict.fromkeys(perms))


def out_parts(out):
    """ the location in an encoded result 0 :: n :: parts, as a list of (start, end, strand) """
    return [tuple(out[2 + 3 * j:5 + 3 * j]) for j in range(out[1])]


def order_independence(chk, rng, cases, impl_outs):
    """ the clauses "results do not depend on argument order or on applying the operation twice", decided on the
        implementation's own outputs by the Gallina specification 116 (all results equal):
        - every connect_locations / Record.connect_locations case with two or more arguments is run again with its
          argument list permuted;
        - every successful connect result is connected once more, alone (same wrap point): the same span;
        - overlap and the distances (function and Record helper) are asked with the two arguments exchanged """
    spec_cases, tried, idx = [], [], []
    for i, case in enumerate(cases):
        fn = case[1]
        if fn not in (1, 3, 6, 17, 18):
            continue
        args = ARGS_OF[tuple(case)]
        variants = []    # (clause, description, arguments, implementation result)
        if fn in (6, 17):
            locs = args[0]
            wrap = args[1] if fn == 6 else (args[1] if args[2] and not args[3] else None)
            prefix = encode(6, (locs, wrap))
            if len(locs) >= 2:
                for p in permutations_of(rng, len(locs)):
                    ident = p == tuple(range(len(locs)))
                    order = [locs[j] for j in p]
                    variants.append(("order", list(p), order,
                                     impl_outs[i] if ident else impl(fn, (order,) + tuple(args[1:]))))
                if len({p[0] for l in locs for p in l if len(l) == 1}) < len([l for l in locs if len(l) == 1]):
                    chk.count("order_cases_with_equal_starts")
            if impl_outs[i][0] == 0:
                again = [out_parts(impl_outs[i])]
                variants.append(("twice", "the result", locs, impl_outs[i]))
                variants.append(("twice", "the result connected again", again, impl(fn, (again,) + tuple(args[1:]))))
        else:
            prefix = encode(6, ([args[0], args[1]], None))
            variants.append(("order", [0, 1], [args[0], args[1]], impl_outs[i]))
            variants.append(("order", [1, 0], [args[1], args[0]], impl(fn, (args[1], args[0]) + tuple(args[2:]))))
        for clause in ("order", "twice"):
            group = [v for v in variants if v[0] == clause]
            if len(group) < 2:
                continue
            flat = [PROP, ORDER_INDEP_FN] + prefix + [len(group)]
            for _c, _d, _a, out in group:
                flat += [len(out)] + out
            spec_cases.append(flat)
            tried.append((clause, group))
            idx.append(i)
            chk.evaluations += len(group) - 1
    failing = []
    for k, (i, verdict) in enumerate(zip(idx, common.run_driver(spec_cases))):
        clause = tried[k][0]
        chk.count({1: f"{clause}_independent_ok", 0: f"{clause}_dependent", 2: "order_spec_not_applicable"}.get(verdict[0], "order_indep_undecoded"))
        if verdict[0] == 0:
            failing.append((clause, len(cases[i]), sum(abs(x) for x in cases[i]), i, k))
        elif verdict[0] not in (1, 2):
            chk.violation("broken-correspondence", "specification 116 could not decode a case",
                          {"theorem_or_correspondence": "spec decoding", "flat": spec_cases[k]})
            return
    chk.extra["argument_lists_permuted_or_exchanged"] = sum(1 for c, _g in tried if c == "order")
    chk.extra["connect_results_connected_again"] = sum(1 for c, _g in tried if c == "twice")
    chk.extra["argument_order_dependent"] = sum(1 for f in failing if f[0] == "order")
    chk.extra["not_idempotent"] = sum(1 for f in failing if f[0] == "twice")
    for clause, text in (("order", "the result depends on the order of the arguments"),
                         ("twice", "connecting the result again gives a different span (not idempotent)")):
        mine = [f for f in failing if f[0] == clause]
        if not mine:
            continue
        _c, _size, _weight, i, k = min(mine)
        group = tried[k][1]
        chk.violation("counterexample", f"{FN_NAMES[cases[i][1]]}: {text}",
                      {"theorem_or_correspondence": "C04 specification 116 (the results for permuted / exchanged arguments, and for "
                                                    "the operation applied twice, are equal; C04_spec_order_independent_sound)",
                       "function": cases[i][1], "flat": spec_cases[k], "input": describe(cases[i]),
                       "argument_orders_and_implementation_results": [
                           {"order": d, "locations": a, "result": o} for _c, d, a, o in group],
                       "cases_violating": len(mine)})


# ---------------------------------------------------------------------------------------------- histories
HISTORY_FN = 300
MUT_NAMES = {1: "parts.reverse()", 2: "location.strand = x", 3: "parts.sort(key=start)",
             4: "location_bridges_origin(location, allow_reversing=True)", 5: "parts[0].strand = x",
             6: "passed as an argument to function x"}
PASS_FNS = [1, 2, 3, 4, 5, 6, 7, 8, 9, 10, 11, 12, 13, 15, 16, 17, 18, 20, 21]
FN_NAMES.update({20: "ensure_valid_locations (on a SeqFeature holding the location)",
                 21: "Feature(location) and its location-based methods"})


def object_ids(obj):
    return {id(obj)} | {id(p) for p in obj.parts}


def pass_to(fn, obj, n):
    """ the object is used as an argument of function fn (with an equal, separately built companion where a second
        location is needed); exceptions are of no interest here, only what happens to the object """
    from antismash.common.secmet import locations as L
    other = mk_loc([(int(p.start), int(p.end), strand_from_py(p.strand)) for p in obj.parts])
    m = max(n, int(obj.end))
    calls = {
        1: lambda: (L.locations_overlap(obj, other), L.locations_overlap(other, obj)),
        2: lambda: (L.location_contains_other(obj, other), L.location_contains_other(other, obj)),
        3: lambda: (L.get_distance_between_locations(obj, other, m), L.get_distance_between_locations(other, obj)),
        4: lambda: L.location_bridges_origin(obj),
        5: lambda: L.split_origin_bridging_location(obj),
        6: lambda: (L.connect_locations([obj], m), L.connect_locations([obj, other], m), L.connect_locations([other, obj])),
        7: lambda: (L.offset_location(obj, 0), L.offset_location(obj, 1, wrap_point=m), L.offset_location(obj, m - 1, wrap_point=m)),
        8: lambda: (record_of(min(m, 2000), True).extend_location(obj, 2), record_of(min(m, 2000), False).extend_location(obj, m)),
        9: lambda: L.make_forwards(obj),
        10: lambda: L.remove_redundant_exons(obj),
        11: lambda: (L.frameshift_location_by_qualifier(obj, 2), L.frameshift_location_by_qualifier(obj, 1)),
        12: lambda: _feature_lt(obj, other),
        13: lambda: _collection_lt(obj, other),
        15: lambda: (str(obj), repr(obj), len(obj), obj.clone()),
        16: lambda: (L.build_location_from_others([obj]), L.build_location_from_others([obj, other])),
        17: lambda: (record_of(min(m, 2000), True).connect_locations([obj, other]), record_of(min(m, 2000), True).connect_locations([obj])),
        18: lambda: record_of(min(m, 2000), True).get_distance_between_locations(obj, other),
        20: lambda: _ensure_valid(obj, m),
        21: lambda: _feature_methods(obj, other),
    }
    try:
        call_with_timeout(calls[fn], 10)
    except Exception:  # pylint: disable=broad-except
        pass


def _feature_lt(a, b):
    from antismash.common.secmet.features import Feature
    return Feature(a, feature_type="misc_feature") < Feature(b, feature_type="misc_feature")


def _ensure_valid(obj, m):
    from Bio.SeqFeature import SeqFeature
    from antismash.common.secmet.locations import ensure_valid_locations
    for circular in (False, True):
        try:
            ensure_valid_locations([SeqFeature(obj, type="CDS"), SeqFeature(obj, type="gene")], circular, m)
        except ValueError:
            pass


def _feature_methods(obj, other):
    from antismash.common.secmet.features import Feature
    feature = Feature(obj, feature_type="misc_feature")
    second = Feature(other, feature_type="misc_feature")
    feature.location = obj
    results = [feature.start, feature.end, feature.strand, feature.overlaps_with(second), feature.is_contained_by(second),
               feature.crosses_origin(), feature.to_biopython()]
    try:
        results.append(feature.get_sub_location_from_protein_coordinates(0, 1))
    except ValueError:
        pass
    return results


def _collection_lt(a, b):
    from antismash.common.secmet.features import CDSCollection
    return CDSCollection(a, feature_type="region") < b


def mutate(kind, x, obj, n):
    """ one of the in-place mutators of the code base applied to a live object; returns the encoded output of the
        Gallina `mutate` (the object afterwards, preceded by the answer for kind 4) """
    from antismash.common.secmet import locations as L
    if kind == 1:
        obj.parts.reverse()
    elif kind == 2:
        obj.strand = strand_to_py(x)
    elif kind == 3:
        obj.parts.sort(key=lambda part: part.start)
    elif kind == 4:
        return [int(L.location_bridges_origin(obj, allow_reversing=True))] + enc_pyloc(obj)
    elif kind == 5:
        obj.parts[0].strand = strand_to_py(x)
    elif kind == 6:
        pass_to(x, obj, n)
    return enc_pyloc(obj)


def arg_locs(fn, args):
    """ the argument locations of a call, in the order call_objs builds them """
    if fn in (1, 2, 3, 12, 13, 18):
        return [args[0], args[1]]
    if fn in (6, 16, 17):
        return list(args[0])
    if fn in (14, 15):
        return []
    return [args[0]]


def run_one_history(rng, fn, args, n, via_text, script=None):
    """ call -> in-place mutation of the returned object and of the argument objects -> the same call again on
        freshly built equal arguments (-> mutation -> a third time, sometimes).  Returns the operations (flat, for
        Gallina function 300), the implementation's output per operation, a readable call sequence, and the
        violations that need no model (arguments changed by the call; arguments not read back from their text) """
    ops, outs, steps, direct = [], [], [], []
    built = []

    def build(parts):
        obj = mk_loc_via_text(parts) if via_text else mk_loc(parts)
        built.append(enc_pyloc(obj))
        if built[-1] != enc_loc(parts):
            # decided without any model: the text of a location does not read back to that location
            direct.append(("location_from_string(str(location)) is not that location once objects of earlier calls were changed in place"
                           if ops else "location_from_string(str(location)) is not that location (at the first operation of a history: "
                           "always, or prepared by an earlier history of this run on the same text)",
                           {"op": len(ops), "location": parts, "text": str(mk_loc(parts)), "read_back": built[-1]}))
        return obj

    heap = []
    touched = set()
    payload = encode(fn, args)
    if script is not None:   # replay of recorded operations: [[0, fn, ...] | [1, kind, addr, x], ...]
        rounds = sum(1 for op in script if op[0] == 0)
        planned, cur = [], None
        for op in script:
            if op[0] == 0:
                cur = []
                planned.append(cur)
            else:
                cur.append(op)
    else:
        rounds = 3 if rng.random() < 0.2 else 2
    for rnd in range(rounds):
        del built[:]
        out, objs = call_objs(fn, args, build)
        ops.append([0, fn, len(payload)] + payload)
        outs.append(out)
        steps.append({"op": len(ops) - 1, "call": FN_NAMES[fn], "arguments": args,
                      "arguments_built_by": "location_from_string(str(location))" if via_text else "FeatureLocation/CompoundLocation",
                      "implementation": out})
        # the arguments after the call: as they were built (function 19 reorders its argument by design: modelled)
        if fn != 19:
            for pos, (before, obj) in enumerate(zip(list(built), objs)):
                if enc_pyloc(obj) != before:
                    direct.append(("the call changed its argument",
                                   {"op": len(ops) - 1, "argument": pos, "argument_before_the_call": before,
                                    "argument_after_the_call": enc_pyloc(obj)}))
        base = len(heap)
        heap.extend(objs)
        # informational: the returned location is one of the arguments / shares part objects with one (the model
        # keeps objects apart, which is why such objects are mutated only once, see `touched`)
        nargs = len(arg_locs(fn, args))
        if rnd == 0 and fn not in (14, 15, 19) and len(objs) > nargs:
            if any(objs[-1] is a for a in objs[:nargs]):
                steps[-1]["result_is_an_argument"] = True
            elif any(object_ids(objs[-1]) & object_ids(a) for a in objs[:nargs]):
                steps[-1]["result_shares_parts_with_an_argument"] = True
        if rnd == rounds - 1:
            break
        # in-place mutation of the objects of this call (result last in `objs`, so it comes first here)
        todo = []
        if script is not None:
            todo = [(op[1], op[2], op[3]) for op in planned[rnd]]
        else:
            order = list(range(base, len(heap)))
            order.reverse()
            budget = rng.choice([1, 2, 2, 3])
            for addr in order:
                if budget == 0:
                    break
                if rng.random() < 0.25:
                    continue
                kind = rng.choice([1, 2, 3, 4, 4, 5, 6, 6])
                x = rng.choice([1, -1, 0, NONE]) if kind in (2, 5) else rng.choice(PASS_FNS) if kind == 6 else 0
                todo.append((kind, addr, x))
                budget -= 1
        for kind, addr, x in todo:
            if addr >= len(heap):
                continue
            obj = heap[addr]
            if script is None and object_ids(obj) & touched:   # shares a part with an object already changed: the
                continue                                        # model keeps objects apart, so leave it alone
            touched |= object_ids(obj)
            before = enc_pyloc(obj)
            try:
                out = call_with_timeout(lambda: mutate(kind, x, obj, n), 20)   # pylint: disable=cell-var-from-loop
            except Exception as exc:  # pylint: disable=broad-except
                out = [-1, err_code(exc)]
            touched |= object_ids(obj)
            ops.append([1, kind, addr, x])
            outs.append(out)
            steps.append({"op": len(ops) - 1, "mutate_object": addr, "how": MUT_NAMES[kind], "x": x, "object_before": before,
                          "object_afterwards": out})
    return ops, outs, steps, direct


def decode_outs(flat):
    """ eOuts: count, then each output length-prefixed """
    outs, pos = [], 1
    for _ in range(flat[0]):
        size = flat[pos]
        outs.append(flat[pos + 1:pos + 1 + size])
        pos += 1 + size
    return outs


def history_search(chk, rng, count):
    """ history / aliasing family: every function the check drives is called, the objects of the call are changed
        in place by the mutators of the code base, and the same call is made again on freshly built equal
        arguments.  The whole history is evaluated by Gallina function 300 (run_history; theorem
        C04_history_independent: every call's output is the value of that call alone), and the implementation must
        give that value at every position. """
    fns = sorted(set(FN_CHOICE))
    hist = []
    for k in range(count):
        fn = fns[k % len(fns)] if k < 4 * len(fns) else rng.choice(FN_CHOICE)
        fn, args, n = gen_case(rng, fn)
        via_text = fn not in (14, 15) and rng.random() < 0.4
        ops, outs, steps, direct = run_one_history(rng, fn, args, n, via_text)
        hist.append((fn, args, n, via_text, ops, outs, steps, direct))
        chk.count("history_" + FN_NAMES[fn])
        for flag in ("result_is_an_argument", "result_shares_parts_with_an_argument"):
            if steps[0].get(flag):
                chk.count(f"aliasing_{flag}_{FN_NAMES[fn]}")
        chk.evaluations += len(ops)
    flats = [[PROP, HISTORY_FN, len(h[4])] + [x for op in h[4] for x in op] for h in hist]
    models = common.run_driver(flats)
    chk.extra["histories"] = len(hist)
    chk.extra["history_operations"] = sum(len(h[4]) for h in hist)
    chk.extra["history_mutations"] = sum(1 for h in hist for op in h[4] if op[0] == 1)
    chk.extra["histories_with_arguments_built_from_text"] = sum(1 for h in hist if h[3])
    found = []     # (rank, size, kind, what, replay)
    for (fn, args, n, via_text, ops, outs, steps, direct), flat, model in zip(hist, flats, models):
        if model[:1] == [-999] or model[0] != len(ops):
            chk.violation("broken-correspondence", "history could not be decoded by function 300",
                          {"theorem_or_correspondence": "history decoding", "flat": flat})
            return
        mouts = decode_outs(model)
        for step, mout in zip(steps, mouts):
            step["model"] = mout
        base = {"function": fn, "function_name": FN_NAMES[fn], "flat": flat, "record_length": n, "call_sequence": steps,
                "history": {"fn": fn, "args": args, "record_length": n, "arguments_built_from_text": via_text, "ops": ops},
                "replay_note": "operations in order; objects are numbered as they are created: the argument "
                               "locations of a call in order, then its returned location; --replay runs the "
                               "operations again on the implementation and on Gallina function 300"}
        # self-contained: the first call of this history behaves as the model says (otherwise an earlier history
        # of this run, working on the same text, prepared the failure and this history alone does not replay it)
        clean_start = outs[0] == mouts[0] and not any(info["op"] == 0 for _w, info in direct)
        for what, info in direct:
            chk.count("history_argument_changed" if what.startswith("the call") else "history_text_not_read_back")
            rank = 0 if clean_start and info["op"] > 0 else 2
            found.append((rank, len(flat), "counterexample", what,
                          dict(base, theorem_or_correspondence="C04_history_call_frame (a call leaves its arguments as they are)"
                               if what.startswith("the call") else "C04_text_history (the text of a location reads back to it in "
                               "every history); decided on the implementation's output without the model", detail=info)))
        agreed_calls = set()
        for k, (op, out, mout) in enumerate(zip(ops, outs, mouts)):
            if op[0] == 0:
                if out == mout:
                    agreed_calls.add(tuple(op))
                    chk.count("history_call_ok")
                    continue
                chk.count("history_call_differs")
                if tuple(op) in agreed_calls or any(tuple(o) == tuple(op) and outs[j] != out for j, o in enumerate(ops[:k])):
                    found.append((1 if clean_start else 2, len(flat), "counterexample",
                                  "the result depends on earlier calls (the same call on freshly built equal "
                                  "arguments gave a different result after objects of an earlier call were changed in place)",
                                  dict(base, theorem_or_correspondence="C04_history_independent / C04_history_same_call: the value of a "
                                       "call does not depend on the history", failing_op=k, implementation=out, model=mout)))
                else:
                    found.append((3, len(flat), "broken-correspondence",
                                  "history: a call differs from the model already the first time it is made",
                                  dict(base, theorem_or_correspondence="model vs implementation (history family)",
                                       failing_op=k, implementation=out, model=mout)))
            else:
                if out == mout:
                    chk.count("history_mutation_ok")
                    continue
                chk.count("history_mutation_differs")
                if op[1] == 6:
                    found.append((1 if clean_start else 2, len(flat), "counterexample",
                                  "a function modified the location passed to it "
                                  f"(first seen: {FN_NAMES.get(op[3], op[3])})",
                                  dict(base, theorem_or_correspondence="C04_history_call_frame: a call leaves its arguments as they are",
                                       failing_op=k, implementation=out, model=mout)))
                else:
                    found.append((3, len(flat), "broken-correspondence",
                                  "history: an in-place mutator differs from the model",
                                  dict(base, theorem_or_correspondence="model vs implementation (mutators)",
                                       failing_op=k, implementation=out, model=mout)))
    # location_bridges_origin(allow_reversing=True) applied to objects of earlier calls: specification 119 on the
    # implementation's answer and on the object before / afterwards
    asked = [(h, step) for h in hist for step in h[6] if step.get("how") == MUT_NAMES[4] and step["object_afterwards"][:1] != [-1]]
    verdicts = common.run_driver([[PROP, 119] + step["object_before"] + step["object_afterwards"] for _h, step in asked])
    chk.extra["history_bridges_reversing_judged_by_specification_119"] = len(asked)
    for (h, step), verdict in zip(asked, verdicts):
        if verdict[0] == 0:
            fn, args, n, via_text, ops = h[:5]
            flat = [PROP, HISTORY_FN, len(ops)] + [x for op in ops for x in op]
            found.append((0, len(flat), "counterexample", CLAUSES[19].get(verdict[1], str(verdict[1])),
                          {"function": fn, "function_name": FN_NAMES[fn], "flat": flat, "record_length": n, "call_sequence": h[6],
                           "history": {"fn": fn, "args": args, "record_length": n, "arguments_built_from_text": via_text, "ops": ops},
                           "theorem_or_correspondence": "C04_bridges_reversing_spec / specification 119 on an object of an earlier call",
                           "failing_op": step["op"], "object_before": step["object_before"], "implementation": step["object_afterwards"],
                           "spec_verdict_on_implementation_output": verdict}))
    found.sort(key=lambda f: (f[0], f[1]))
    reported = set()
    for _rank, _size, kind, what, replay in found:
        key = (kind, what.split(" (first seen")[0])
        if key in reported:
            continue
        reported.add(key)
        chk.violation(kind, f"{replay['function_name']}: {what}",
                      dict(replay, histories_with_this_failure=sum(1 for f in found if (f[2], f[3].split(" (first seen")[0]) == key)))
    return flats, models


def report_invariants(chk):
    """ every location returned during the run (by the cases, the composed calls, the permuted orders, the
        histories) had its dynamic type and class invariants checked in call_objs """
    chk.extra["returned_locations_violating_the_class_invariants"] = len(INVARIANT_FAILS)
    if INVARIANT_FAILS:
        fn, args, why, obj = min(INVARIANT_FAILS, key=lambda f: len(str(f[1])))
        chk.violation("counterexample", f"{FN_NAMES[fn]}: {why}",
                      {"theorem_or_correspondence": "class invariants of returned locations (secmet FeatureLocation / CompoundLocation "
                                                    "with secmet FeatureLocation parts, two or more for a CompoundLocation, integer positions, "
                                                    "the Location mixin methods); decided on the implementation alone",
                       "function": fn, "flat": [PROP, fn] + encode(fn, args), "input": {"function": FN_NAMES[fn], "arguments": args},
                       "returned_object": obj, "cases_violating": len(INVARIANT_FAILS)})


def _phase(chk, name):
    import time
    now = time.time()
    chk.extra.setdefault("phase_seconds", {})[name] = round(now - getattr(chk, "_phase_t", chk.t0), 1)
    chk._phase_t = now


def run(chk):
    if not chk.build_and_audit():
        return chk.finish(RULE)
    _phase(chk, "build_and_audit")
    total = 30000 if chk.tier == "quick" else 600000
    fixed = CORPUS + small_ring_connect_cases(5 if chk.tier == "quick" else 8)
    chk.extra["exhaustive_small_ring_connect_lists"] = len(fixed) - len(CORPUS)
    total += len(fixed)
    cases, impl_outs, comps = [], [], []
    compose_rate = 0.45
    del INVARIANT_FAILS[:]
    for k in range(total):
        fn, args, n = fixed[k] if k < len(fixed) else gen_case(chk.rng)
        flat = [PROP, fn] + encode(fn, args)
        ARGS_OF[tuple(flat)] = args
        out, objs = call_objs(fn, args)
        succeeded = (out[0] != -1 if fn in (9, 10, 19) else out[0] == 0) and all(0 <= int(p.start) < int(p.end) for o in objs for p in o.parts)
        if fn in PRODUCERS and succeeded and k >= len(fixed) and chk.rng.random() < compose_rate:
            produced = objs[0] if fn == 19 else objs[-1]
            comps.extend(compose(chk.rng, fn, args, n, out, produced, chk.rng.choice([1, 1, 2])))
        cases.append(flat)
        impl_outs.append(out)
        chk.count(FN_NAMES[fn])
        if out[:1] == [1] and fn in (5, 6, 7, 8, 11):
            chk.count("error_kind_" + common.ERR_NAME.get(out[1], str(out[1])))
        chk.note_case(flat, nontrivial(fn, args),
                      {"function": FN_NAMES[fn], "args": args, "record_length": n, "implementation": out})
    _phase(chk, "implementation_calls_and_composition")
    model_outs = common.correspondence(chk, cases, impl_outs, spec_fn_offset=SPEC_OFFSET, describe=describe)
    _phase(chk, "model")
    spec_search(chk, cases, impl_outs, model_outs)
    _phase(chk, "specification")
    composed = compose_search(chk, comps)
    _phase(chk, "composition_model_and_specification")
    order_search(chk, cases, impl_outs)
    order_independence(chk, chk.rng, cases, impl_outs)
    _phase(chk, "order")
    hist = history_search(chk, chk.rng, 2500 if chk.tier == "quick" else 40000)
    _phase(chk, "histories")
    if hist:   # a sample of the histories goes through the vm_compute cross-check too
        cases = cases + hist[0][:400]
        model_outs = model_outs + hist[1][:400]
    text_round_trip(chk, chk.rng, 3000 if chk.tier == "quick" else 60000)
    report_invariants(chk)
    cases = cases + composed[0][:2000]
    model_outs = model_outs + composed[1][:2000]
    _phase(chk, "text_and_invariants")
    chk.crosscheck_vm(cases, model_outs)
    _phase(chk, "vm_compute_crosscheck")
    return chk.finish(RULE)


def replay(chk, path):
    import json
    doc = json.load(open(path))
    if "history" in doc:
        hist = doc["history"]

        args = json_args(hist["args"])
        ops, outs, steps, direct = run_one_history(None, hist["fn"], args, hist["record_length"],
                                                   hist["arguments_built_from_text"], script=hist["ops"])
        flat = [PROP, HISTORY_FN, len(ops)] + [x for op in ops for x in op]
        mouts = decode_outs(common.run_driver([flat])[0])
        for step, out, mout in zip(steps, outs, mouts):
            step.pop("arguments", None)
            print(("differs " if out != mout else "ok      "), json.dumps(step), "model:", mout)
        for what, info in direct:
            print("FAILS:", what, json.dumps(info))
        return 0
    if "argument_orders_and_implementation_results" in doc:
        fn = doc["function"]
        rest = json_args(doc["input"]["arguments (locations as lists of (start, end, strand); strand 2 = None)"])[1:]
        for entry in doc["argument_orders_and_implementation_results"]:
            locs = json_args(entry["locations"])
            if fn in (6, 17):
                out = impl(fn, (locs,) + tuple(rest))
            else:
                out = impl(fn, (locs[0], locs[1]) + tuple(rest[1:]))
            print(entry["order"], locs, "->", out, "recorded:", entry["result"])
        return 0
    if "composition" in doc:
        pfn, pargs = doc["composition"]["producer"]
        cfn, cargs, slot = doc["composition"]["consumer"]
        pargs, cargs = tuple(json_args(pargs)), tuple(json_args(cargs))
        if cfn == 15:
            cargs = ((cargs[0][0], list(cargs[0][1])),)
        out, objs = call_objs(pfn, pargs)
        produced = objs[0] if pfn == 19 else objs[-1]
        print("producing call:", FN_NAMES[pfn], pargs, "->", out, describe_object(produced))
        print("  class invariants:", class_invariant(produced) or "ok")
        live = call_objs(cfn, cargs, live={slot: produced})[0]
        fresh = impl(cfn, cargs)
        flat = [PROP, cfn] + encode(cfn, cargs)
        print("consuming call:", FN_NAMES[cfn], cargs, "(argument", slot, "is the returned object)")
        print("  on the returned object:              ", live)
        print("  on an equal, freshly built location: ", fresh, "" if live == fresh else "  <-- differs")
        print("  model:                               ", common.run_driver([flat])[0])
        if cfn in SPEC_FNS:
            ARGS_OF[tuple(flat)] = cargs
            print("  specification verdict on the first:  ", common.run_driver([spec_case(flat, live)])[0])
        return 0
    flat = doc["flat"]
    model = common.run_driver([flat])[0]
    print("model:", model, "recorded implementation:", doc.get("implementation"))
    key = "arguments (locations as lists of (start, end, strand); strand 2 = None)"
    if isinstance(doc.get("input"), dict) and key in doc["input"] and flat[1] in FN_NAMES and flat[1] not in (14, 15):
        args = tuple(json_args(doc["input"][key]))
        out = impl(flat[1], args)
        print("implementation now:", out, "" if out == model else "  <-- differs from the model")
        if flat[1] in SPEC_FNS:
            ARGS_OF[tuple(flat)] = args
            print("specification verdict on it:", common.run_driver([spec_case(flat, out)])[0])
    return 0


def json_args(value):
    """ JSON turned the (start, end, strand) tuples into lists: turn the innermost integer lists back """
    if isinstance(value, list):
        if value and all(isinstance(x, int) and not isinstance(x, bool) for x in value):
            return tuple(value)
        return [json_args(x) for x in value]
    return value
