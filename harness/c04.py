"""C04: correspondence between the Gallina location model and secmet.locations / Record helpers."""
import common
from common import err_code, call_with_timeout

PROP = 4
NONE = 2  # strand None in the flat encoding


def strand_to_py(s):
    return None if s == NONE else s


def strand_from_py(s):
    return NONE if s is None else int(s)


def mk_loc(parts):
    """ parts: list of (start, end, strand) -> secmet location """
    from antismash.common.secmet.locations import FeatureLocation, CompoundLocation
    fls = [FeatureLocation(s, e, strand_to_py(st)) for s, e, st in parts]
    if len(fls) == 1:
        return fls[0]
    return CompoundLocation(fls)


def enc_loc(parts):
    out = [len(parts)]
    for s, e, st in parts:
        out += [s, e, st]
    return out


def enc_pyloc(loc):
    return enc_loc([(int(p.start), int(p.end), strand_from_py(p.strand)) for p in loc.parts])


def enc_wrap(w):
    return [0] if w is None else [1, w]


def result(fn):
    """ runs the implementation, returns the encoded result (0 :: value | 1 :: [kind]) """
    try:
        value = call_with_timeout(fn, 10)
    except common.Timeout:
        return [1, 11]
    except Exception as exc:  # pylint: disable=broad-except
        return [1, err_code(exc)]
    return [0] + value


# ------------------------------------------------------------------ generators

def total(fn):
    """ for functions the model treats as total: the bare value, or [-1, kind] on an exception """
    out = result(fn)
    return out[1:] if out[0] == 0 else [-1, out[1]]


def gen_simple(rng, n, strand=None):
    s = rng.randrange(0, n)
    e = rng.randrange(s + 1, n + 1)
    if strand is None:
        strand = rng.choice([1, 1, -1, -1, NONE, 0])
    return [(s, e, strand)]


def gen_exons(rng, n, strand, k, lo=0, hi=None):
    """ k disjoint, non-adjacent-or-adjacent exons inside [lo, hi), ascending """
    hi = n if hi is None else hi
    if hi - lo < k:
        k = max(1, hi - lo)
    cuts = sorted(rng.sample(range(lo, hi + 1), min(2 * k, hi - lo + 1)))
    parts = []
    for i in range(0, len(cuts) - 1, 2):
        if cuts[i] < cuts[i + 1]:
            parts.append((cuts[i], cuts[i + 1], strand))
    if not parts:
        parts = [(lo, lo + 1, strand)]
    return parts


def gen_multi(rng, n, strand=None):
    if strand is None:
        strand = rng.choice([1, -1, NONE])
    parts = gen_exons(rng, n, strand, rng.randint(2, 4))
    if strand == -1 and rng.random() < 0.85:
        parts.reverse()  # transcription order
    return parts


def gen_bridging(rng, n, strand=None):
    """ origin-spanning: upper exons (ending at or before n) then lower exons (from 0), in transcription order """
    if n < 2:
        return gen_simple(rng, n)
    if strand is None:
        strand = rng.choice([1, -1, 1, -1, NONE])
    split = rng.randrange(1, n)  # lower part inside [0, split), upper inside [split, n)
    if rng.random() < 0.7:
        e = rng.randrange(1, split + 1)
        s = rng.randrange(split, n)
        lower = [(0, e, strand)]
        upper = [(s, n, strand)]
    else:
        lower = gen_exons(rng, n, strand, rng.randint(1, 2), 0, split)
        upper = gen_exons(rng, n, strand, rng.randint(1, 2), split, n)
    if strand == -1:
        return list(reversed(lower)) + list(reversed(upper))
    return upper + lower


def gen_loc(rng, n, allow_bridging=True):
    r = rng.random()
    if r < 0.5 or n < 3:
        return gen_simple(rng, n)
    if r < 0.75 or not allow_bridging:
        return gen_multi(rng, n)
    return gen_bridging(rng, n)


def gen_n(rng):
    r = rng.random()
    if r < 0.6:
        return rng.randint(2, 14)
    if r < 0.9:
        return rng.randint(15, 60)
    return rng.choice([100, 101, 1000, 99999])


# ------------------------------------------------------------------ implementation adapters

def impl(fn, args):
    from antismash.common.secmet import locations as L
    if fn == 1:
        a, b = args
        return total(lambda: [int(L.locations_overlap(mk_loc(a), mk_loc(b)))])
    if fn == 2:
        a, b = args
        return total(lambda: [int(L.location_contains_other(mk_loc(a), mk_loc(b)))])
    if fn == 3:
        a, b, w = args
        return total(lambda: [int(L.get_distance_between_locations(mk_loc(a), mk_loc(b), w))])
    if fn == 4:
        (a,) = args
        return total(lambda: [int(L.location_bridges_origin(mk_loc(a)))])
    if fn == 5:
        (a,) = args

        def go():
            lower, upper = L.split_origin_bridging_location(mk_loc(a))
            enc = lambda ps: enc_loc([(int(p.start), int(p.end), strand_from_py(p.strand)) for p in ps])
            return enc(lower) + enc(upper)
        return result(go)
    if fn == 6:
        locs, w = args
        return result(lambda: enc_pyloc(L.connect_locations([mk_loc(l) for l in locs], w)))
    if fn == 7:
        a, off, w = args
        return result(lambda: enc_pyloc(L.offset_location(mk_loc(a), off, wrap_point=w)))
    if fn == 8:
        a, d, m, circ = args

        def go():
            from antismash.common.secmet import Record
            rec = Record("A" * m)
            if circ:
                rec.add_annotation("topology", "circular")
            return enc_pyloc(rec.extend_location(mk_loc(a), d))
        return result(go)
    if fn == 9:
        (a,) = args
        return total(lambda: enc_pyloc(L.make_forwards(mk_loc(a))))
    if fn == 10:
        (a,) = args
        return total(lambda: enc_pyloc(L.remove_redundant_exons(mk_loc(a))))
    if fn == 11:
        a, s, undo = args
        return result(lambda: enc_pyloc(L.frameshift_location_by_qualifier(mk_loc(a), s, undo=bool(undo))))
    raise ValueError(fn)


def encode(fn, args):
    if fn in (1, 2):
        return enc_loc(args[0]) + enc_loc(args[1])
    if fn == 3:
        return enc_loc(args[0]) + enc_loc(args[1]) + enc_wrap(args[2])
    if fn in (4, 5, 9, 10):
        return enc_loc(args[0])
    if fn == 6:
        out = [len(args[0])]
        for l in args[0]:
            out += enc_loc(l)
        return out + enc_wrap(args[1])
    if fn == 7:
        return enc_loc(args[0]) + [args[1]] + enc_wrap(args[2])
    if fn == 8:
        return enc_loc(args[0]) + [args[1], args[2], int(args[3])]
    if fn == 11:
        return enc_loc(args[0]) + [args[1], int(args[2])]
    raise ValueError(fn)


FN_NAMES = {1: "locations_overlap", 2: "location_contains_other", 3: "get_distance_between_locations",
            4: "location_bridges_origin", 5: "split_origin_bridging_location", 6: "connect_locations",
            7: "offset_location", 8: "Record.extend_location", 9: "make_forwards", 10: "remove_redundant_exons",
            11: "frameshift_location_by_qualifier"}


def gen_case(rng):
    n = gen_n(rng)
    fn = rng.choice([1, 1, 2, 2, 3, 3, 3, 4, 5, 6, 6, 6, 6, 7, 7, 7, 8, 8, 8, 9, 10, 11])
    if fn in (1, 2):
        return fn, (gen_loc(rng, n), gen_loc(rng, n)), n
    if fn == 3:
        w = rng.choice([None, n, n, n])
        a, b = gen_loc(rng, n, w is not None), gen_loc(rng, n, w is not None)
        return fn, (a, b, w), n
    if fn in (4, 5):
        return fn, (gen_loc(rng, n),), n
    if fn == 6:
        w = rng.choice([None, n, n, n])
        k = rng.choice([1, 2, 2, 2, 3, 3, 4, 5])
        return fn, ([gen_loc(rng, n, True) for _ in range(k)], w), n
    if fn == 7:
        w = rng.choice([None, n, n, n, n])
        a = gen_loc(rng, n, w is not None)
        off = rng.randint(-2 * n, 2 * n) if w else rng.randint(-3, n)
        return fn, (a, off, w), n
    if fn == 8:
        circ = rng.random() < 0.7
        a = gen_loc(rng, n, circ)
        d = rng.choice([0, 1, 2, rng.randint(0, n + 1), rng.randint(0, n + 1)])
        return fn, (a, d, n, circ), n
    if fn in (9, 10):
        return fn, (gen_loc(rng, n),), n
    a = gen_loc(rng, n)
    return 11, (a, rng.choice([1, 2, 3, 1, 2, 3, 0, 4]), rng.random() < 0.5), n


def describe(flat):
    return {"function": FN_NAMES.get(flat[1], flat[1]), "flat_payload": flat[2:]}


def nontrivial(fn, args):
    locs = [a for a in args if isinstance(a, list) and a and isinstance(a[0], tuple)]
    if fn == 6:
        locs = args[0]
    return any(len(l) > 1 for l in locs) or fn in (6, 7, 8)


RULE = ("random structured locations (simple / multi-exon / origin-spanning, strands +,-,0,None) on records of "
        "length 2..60 (and a few large), for each public function of secmet.locations and Record.extend_location; "
        "non-trivial = a compound location is involved or the function is connect/offset/extend; distinct by flat encoding")


def run(chk):
    if not chk.build_and_audit():
        return chk.finish(RULE)
    total = 30000 if chk.tier == "quick" else 600000
    cases, impl_outs = [], []
    for _ in range(total):
        fn, args, n = gen_case(chk.rng)
        flat = [PROP, fn] + encode(fn, args)
        out = impl(fn, args)
        cases.append(flat)
        impl_outs.append(out)
        chk.count(FN_NAMES[fn])
        if out[:1] == [1] and fn in (5, 6, 7, 8, 11):
            chk.count("error_kind_" + common.ERR_NAME.get(out[1], str(out[1])))
        chk.note_case(flat, nontrivial(fn, args),
                      {"function": FN_NAMES[fn], "args": args, "record_length": n, "implementation": out})
    model_outs = common.correspondence(chk, cases, impl_outs, spec_fn_offset=None, describe=describe)
    chk.crosscheck_vm(cases, model_outs)
    return chk.finish(RULE)


def replay(chk, path):
    import json
    doc = json.load(open(path))
    flat = doc["flat"]
    model = common.run_driver([flat])[0]
    print("model:", model, "recorded implementation:", doc.get("implementation"))
    return 0
