"""C16: correspondence for the identifier part of input pre-processing (pre_process_sequences,
fix_record_name_id, generate_unique_id), _sanitise_id_value and Record.add_cds_feature's duplicate
name/location handling; the property itself is evaluated (Gallina spec_flags) on every output of the
implementation."""
import json
import os
import sys

import common

PROP = 16
E_INPUT = 12  # AntismashInputError (not in common.ERR)
SPEC_OFFSET = 10
FN_NAMES = {1: "pre_process_sequences", 2: "generate_unique_id", 3: "fix_record_name_id", 4: "_sanitise_id_value",
            5: "add_cds_feature history", 6: "_shorten_ids contig number"}


def err(exc):
    if type(exc).__name__ == "AntismashInputError":
        return E_INPUT
    return common.err_code(exc)


def enc_str(text):
    return [len(text)] + [ord(c) for c in text]


def enc_opt_str(text):
    return [0] if text is None else [1] + enc_str(text)


def dec_str(flat, pos):
    n = flat[pos]
    return "".join(chr(c) for c in flat[pos + 1:pos + 1 + n]), pos + 1 + n


# ---------------------------------------------------------------- implementation adapters

class Impl:
    """ drives the real functions; pre_process_sequences runs unmodified apart from parallel_function being
        replaced by a serial map (no worker processes) and a gene finding stub; every record carries one CDS """
    def __init__(self):
        from antismash import config
        from antismash.common import record_processing
        from antismash.common.secmet import Record
        from antismash.common.secmet.features import CDSFeature, Gene
        from antismash.common.secmet.features import cds_feature as cds_module
        from antismash.common.secmet import record as record_module
        from antismash.common.secmet.locations import FeatureLocation
        self.config = config
        self.rp = record_processing
        self.Record = Record
        self.CDSFeature = CDSFeature
        self.Gene = Gene
        self.cds_module = cds_module
        self.record_module = record_module
        self.FeatureLocation = FeatureLocation

        class Genefinding:
            def get_arguments(self):
                args = config.args.ModuleArgs("genefinding", "genefinding")
                args.add_option("gff3", default="", type=str, help="dummy", dest="gff3")
                args.add_option("tool", default="", type=str, help="dummy", dest="tool")
                return args

            def run_on_record(self, _record, _options):
                return None
        self.genefinding = Genefinding()
        config.destroy_config()
        self.options = config.build_config(["--cpus", "1"], isolated=True, modules=[self.genefinding])
        config.update_config({"triggered_limit": False, "minlength": 0})

        def serial(function, argsets, cpus=None, timeout=None):  # pylint: disable=unused-argument
            return [function(*args) for args in argsets]
        record_processing.parallel_function = serial

    def make_record(self, rid, name):
        record = self.Record("ACGTACGTAC")
        record.id = rid
        record.name = name
        record.add_cds_feature(self.CDSFeature(self.FeatureLocation(0, 9, 1), translation="MAA", locus_tag="a"))
        return record

    def pipeline(self, allow, pairs):
        self.config.update_config({"allow_long_headers": bool(allow)})
        records = [self.make_record(rid, name) for rid, name in pairs]
        try:
            outs = self.rp.pre_process_sequences(records, self.options, self.genefinding)
        except Exception as exc:  # pylint: disable=broad-except
            return [1, err(exc)], None
        if len(outs) != len(records) or any(a is not b for a, b in zip(outs, records)):
            return [1, 98], None
        result = [(r.id, r.name, r.original_id) for r in outs]
        flat = [0, len(result)]
        for rid, name, orig in result:
            flat += enc_str(rid) + enc_str(name) + enc_opt_str(orig)
        return flat, result

    def generate_unique_id(self, prefix, existing, start, max_length):
        try:
            name, counter = self.rp.generate_unique_id(prefix, set(existing), start, max_length)
        except Exception as exc:  # pylint: disable=broad-except
            return [1, err(exc)]
        return [0] + enc_str(name) + [counter]

    def fix_record_name_id(self, allow, idx, rid, name, orig, existing):
        record = self.Record("ACGT")
        record.id = rid
        record.name = name
        record.original_id = orig
        record.record_index = idx
        ids = set(existing)
        try:
            self.rp.fix_record_name_id(record, ids, bool(allow))
        except Exception as exc:  # pylint: disable=broad-except
            return [1, err(exc)]
        return [0] + enc_str(record.id) + enc_str(record.name) + enc_opt_str(record.original_id) + \
            [len(ids), int(record.id in ids)]

    def sanitise(self, text):
        return enc_str(self.cds_module._sanitise_id_value(text))  # pylint: disable=protected-access

    def contig_number(self, idx, text):
        """ observed through fix_record_name_id: the number inside the shortened *name* of a record
            (a number of 13 or more digits is not kept in the name; contig_case does not generate one) """
        record = self.Record("ACGT")
        record.id = "x"
        record.name = text
        record.record_index = idx
        self.rp.fix_record_name_id(record, {"x"}, False)
        name = record.name
        assert name.startswith("c") and "_" in name, name
        return [int(name[1:name.index("_")])]

    def cds_history(self, genes, calls):
        """ genes: [(start, end, name)], calls: [(start, end, strand, locus_tag, gene, protein_id)].
            Returns (flat model input, implementation output) """
        record = self.Record("A" * 150)
        for start, end, name in genes:
            record.add_gene(self.Gene(self.FeatureLocation(start, end, 1), locus_tag=name))
        numbers = {}

        def number(text):
            return numbers.setdefault(text, len(numbers) + 1)
        flat_calls = []
        outcomes = []
        features = []
        for start, end, strand, locus, gene, protein in calls:
            feature = self.CDSFeature(self.FeatureLocation(start, end, strand), translation="M", locus_tag=locus,
                                      gene=gene, protein_id=protein)
            name = feature.get_name()
            existing = record._cds_by_name.get(name)  # pylint: disable=protected-access
            overlaps = 0
            if existing is not None:
                overlaps = int(feature.overlaps_with(existing) or
                               any(map(feature.overlaps_with, record.get_genes_by_name(name))))
            renamed = f"{feature.locus_tag}_{self.record_module._location_checksum(feature)}"  # pylint: disable=protected-access
            flat_calls += [number(str(feature.location)), number(name), int(bool(feature.locus_tag)), overlaps,
                           number(renamed)]
            before = [(str(c.location), c.get_name()) for c in record.get_cds_features()]
            try:
                record.add_cds_feature(feature)
                outcomes.append(0)
                features.append(feature)
            except Exception as exc:  # pylint: disable=broad-except
                outcomes.append(err(exc))
                after = [(str(c.location), c.get_name()) for c in record.get_cds_features()]
                if after != before:
                    outcomes[-1] = 97  # a rejected call changed the record
        present = {id(c) for c in record.get_cds_features()}
        kept = [f for f in features if id(f) in present]
        if len(kept) != len(record.get_cds_features()):
            return [len(calls)] + flat_calls, [-1]
        # what the record can look up must be what it holds
        for feature in kept:
            if record.get_cds_by_name(feature.get_name()) is not feature:
                return [len(calls)] + flat_calls, [-2]
        out = [len(kept)] + [number(str(f.location)) for f in kept] + [len(kept)] + [number(f.get_name()) for f in kept]
        out += [len(outcomes)] + outcomes
        return [len(calls)] + flat_calls, out


# ---------------------------------------------------------------- generators

ILLEGAL = '''!"#$%&()*+,:;=>?@[]^`'{|}/ '''
LETTERS = "abcdgnotfl"
STEMS = ["contig12", "scaffold3 x", "NZ_ABCDEFGH012345.1", "NZ_AMZN01000079.1", "c7 ", "abcdefghijklmnopqrst", "ab", "a:b",
         "x_0", "x", "", ":", "my contig1234567 of a long name", "scaf12345", "caffold007", "ontg5", "onti6.", "x c99999 y",
         "x c100000 y", "contig99999", "contig100000", "Contig_12",
         "contig123456789012 and more", "contig1234567890123 and more", "scaffold0000000000000000012 x", "abcdefghijklmnopq", "abcdefghijklmnop",
         "abcdefghijkl:mnopqrs", "NC_0123456789ABCDE.12", "a.b.1", "abcdefghijklmnopqrs.1", "abcdefghijklmnopqr..1"]


class Gen:
    def __init__(self, rng):
        self.rng = rng

    def word(self, lo=0, hi=22):
        rng = self.rng
        alpha = rng.choice(["ab", "ab:", "ab:. 1_", "ab:. 1_cdefgh", LETTERS + "0123456789._ :;|", "a"])
        return "".join(rng.choice(alpha) for _ in range(rng.randint(lo, hi)))

    def ident(self):
        rng = self.rng
        r = rng.random()
        if r < 0.35:
            return rng.choice(STEMS) + self.word(0, 3)
        if r < 0.45:
            # a contig/scaffold pattern with a number of 1-14 digits, possibly followed by a word character
            number = str(rng.choice([0, 7, 42, 99999, 100000, 123456, 1234567, rng.randint(0, 10 ** rng.randint(1, 7)),
                                     10 ** 11, 10 ** 12 - 1, 10 ** 12, rng.randint(0, 10 ** rng.randint(8, 14))]))
            if rng.random() < 0.3:
                number = "0" * rng.randint(1, 3) + number
            core = rng.choice(["contig", "cont", "ctg", "ont", "ontg", "onti", "scaffold", "scaf", "caff", "cafold", " c", "c", "xc",
                               "Contig", "scafold"]) + number
            return self.word(0, 6) + core + rng.choice(["", " ", "_", ".", "a", ":"]) + self.word(0, 12)
        if r < 0.55:
            # versioned accessions around the 16 character boundary
            head = self.word(13, 18).replace(".", "x")
            return head + "." + rng.choice(["1", "2", "12", ""]) + rng.choice(["", "", ".", "a"])
        return self.word(0, 24)

    def derive(self, other, idx):
        """ an identifier that is likely to collide with what `other` (record number idx) becomes """
        rng = self.rng
        r = rng.random()
        clean = "".join(c for c in other if c not in ILLEGAL)
        if r < 0.15:
            return other
        if r < 0.3:
            pos = rng.randint(0, len(other))
            return other[:pos] + rng.choice(ILLEGAL) + other[pos:]
        if r < 0.4:
            return clean
        if r < 0.5:
            return other[:16] + self.word(1, 4) if len(other) >= 16 else other + self.word(1, 3)
        if r < 0.6:
            return f"c{rng.choice([idx, idx + 1, 1, 12]):05d}_{other[:7]}.."
        if r < 0.7:
            return rng.choice([other, clean, other[:12], clean[:12]]) + "_" + str(rng.choice([0, 0, 1, 2]))
        if r < 0.8:
            return other.partition(".")[0]
        if r < 0.9:
            return other + "_0_0"
        return clean + rng.choice(ILLEGAL)

    def id_list(self):
        rng = self.rng
        n = rng.choice([1, 1, 2, 2, 2, 3, 3, 4, 5, 6, 8])
        ids = []
        for i in range(n):
            if ids and rng.random() < 0.5:
                ids.append(self.derive(rng.choice(ids), i + 1))
            else:
                ids.append(self.ident())
        if rng.random() < 0.1:
            rng.shuffle(ids)
        pairs = []
        for rid in ids:
            r = rng.random()
            if r < 0.6:
                name = rid
            elif r < 0.8:
                name = self.ident()
            else:
                name = rid.partition(".")[0]
            pairs.append((rid, name))
        return pairs

    def unique_id_case(self):
        rng = self.rng
        prefix = rng.choice(["x", "ab", "", "abcdefghijkl", "seq", "a_0", self.word(0, 14)])
        start = rng.choice([0, 0, 0, 1, 2, 5, 9, 10, 99])
        taken = rng.choice([0, 1, 2, 3, 11, rng.randint(0, 30)])
        existing = [f"{prefix}_{i}" for i in range(start, start + taken)]
        if existing and rng.random() < 0.3:
            existing.pop(rng.randrange(len(existing)))
        if rng.random() < 0.4:
            existing += [f"{prefix}_{i}" for i in range(0, start)]
        existing += [self.word(0, 6) for _ in range(rng.randint(0, 3))]
        if rng.random() < 0.2:
            existing += [prefix, prefix + "_", prefix + "_00", prefix + "_01"]
        if rng.random() < 0.2:
            existing += existing[:2]
        rng.shuffle(existing)
        expected = len(prefix) + 1 + len(str(start + taken))
        max_length = rng.choice([-1, -1, 0, 16, expected - 1, expected, expected + 1, 1])
        return prefix, existing, start, max_length

    def fix_case(self):
        rng = self.rng
        rid = self.ident()
        idx = rng.choice([1, 1, 2, 3, 12, 99999, 100000, 1234567, 10 ** 12 - 1, 10 ** 12, 10 ** 15])
        r = rng.random()
        name = rid if r < 0.5 else (self.ident() if r < 0.8 else rid[:10])
        orig = rng.choice([None, None, None, "", "old", rid])
        existing = [rid] if rng.random() < 0.9 else []
        for _ in range(rng.choice([0, 0, 1, 2, 3, 5])):
            existing.append(self.derive(rid, idx) if rng.random() < 0.8 else self.ident())
        if rng.random() < 0.3:
            clean = "".join(c for c in rid if c not in ILLEGAL)
            existing += [f"{base}_{i}" for base in sorted({rid[:12], clean[:12], clean}) for i in range(rng.choice([1, 2, 11]))]
        return bool(rng.random() < 0.3), idx, rid, name, orig, existing

    def sanitise_case(self):
        rng = self.rng
        alpha = rng.choice(["ab_", "ab:\t\r\n _", ILLEGAL + "ab\t\r\n_<\\~.-", "a;"])
        return "".join(rng.choice(alpha) for _ in range(rng.randint(0, 14)))

    def contig_case(self):
        rng = self.rng
        while True:
            text = self.ident() if rng.random() < 0.7 else self.word(0, 8) + rng.choice(["contig", "scaffold", " c", "ontig"]) + self.word(0, 8)
            if longest_digit_run(text) <= 12:   # a longer number cannot be read back from the shortened name
                break
        return rng.choice([1, 2, 17, 99999, 100000, 123456789012]), text + "x" * max(0, 17 - len(text))

    def cds_case(self, impl):
        rng = self.rng
        names = ["g1", "g2", "g3", "p1"]
        n = rng.choice([1, 2, 3, 3, 4, 5, 6, 8])
        genes = []
        for _ in range(rng.choice([0, 0, 1, 2])):
            start = rng.randrange(0, 100, 3)
            genes.append((start, start + rng.choice([3, 6, 30]), rng.choice(names)))
        calls = []
        for _ in range(n):
            if calls and rng.random() < 0.15:
                start, end, strand = calls[-1][:3] if rng.random() < 0.7 else rng.choice(calls)[:3]
                if rng.random() < 0.3:
                    strand = -strand
            else:
                start = rng.randrange(0, 100, 3)
                end = start + rng.choice([3, 6, 9, 30])
                strand = rng.choice([1, 1, -1])
            r = rng.random()
            locus = gene = protein = None
            if r < 0.7:
                locus = rng.choice(names)
                if rng.random() < 0.2:
                    gene = rng.choice(names)
            elif r < 0.85:
                gene = rng.choice(names)
            else:
                protein = rng.choice(names)
            if rng.random() < 0.1 and calls:
                # a name equal to what a later splice variant of an earlier gene would be renamed to
                other = rng.choice(calls)
                if other[3]:
                    s2 = rng.randrange(0, 100, 3)
                    probe = impl.CDSFeature(impl.FeatureLocation(s2, s2 + 6, 1), translation="M", locus_tag=other[3])
                    crc = impl.record_module._location_checksum(probe)  # pylint: disable=protected-access
                    calls.append((start, end, strand, f"{other[3]}_{crc}", None, None))
                    # and the variant itself, overlapping the earlier gene when possible
                    start, end, strand, locus, gene, protein = s2, s2 + 6, 1, other[3], None, None
            calls.append((start, end, strand, locus, gene, protein))
        return genes, calls


def longest_digit_run(text):
    best = run = 0
    for char in text:
        run = run + 1 if char.isdigit() else 0
        best = max(best, run)
    return best


def count_shortened(chk, where, before, after):
    """ which shape of _shorten_ids an over-long id or name ended in (the repaired class contig_number_overflow) """
    if len(before) <= 16 or len(after) < 3 or not after.endswith(".."):
        return
    head = after[1:after.index("_")] if after.startswith("c") and "_" in after else ""
    if head.isdigit() and len(head) > 5:
        chk.count(f"{where}_shortened_number_of_6_to_12_digits")
    elif head.isdigit():
        chk.count(f"{where}_shortened_number_of_5_digits")
    elif after[:-2] == "".join(c for c in before[:14] if c not in ILLEGAL):
        chk.count(f"{where}_shortened_number_dropped")


def describe(flat):
    fn = flat[1]
    try:
        if fn in (1, 1 + SPEC_OFFSET):
            pos = 3
            n = flat[pos]
            pos += 1
            pairs = []
            for _ in range(n):
                rid, pos = dec_str(flat, pos)
                name, pos = dec_str(flat, pos)
                pairs.append((rid, name))
            return {"function": FN_NAMES[1], "allow_long_headers": bool(flat[2]), "records (id, name)": pairs}
    except Exception:  # pylint: disable=broad-except
        pass
    return {"function": FN_NAMES.get(fn, fn), "payload": flat[2:]}


RULE = ("fn1: lists of 1-8 (id, name) pairs through the real pre_process_sequences (serial, gene finding stubbed, both "
        "allow_long_headers): ids from stems/random words over small alphabets with illegal characters, contig/scaffold/cNNN "
        "patterns with 1-14 digit numbers, versioned accessions around 16 characters, and ids derived from an earlier id of the "
        "same list (duplicate, illegal character inserted, stripped form, differing beyond the 16th character, its shortened "
        "c%05d form, its _0/_1 forms, its accession head); fn2 generate_unique_id with partly taken counters and max_length at the "
        "boundary; fn3 fix_record_name_id with sets holding the derived forms; fn4 _sanitise_id_value; fn5 histories of "
        "add_cds_feature calls with colliding names/locations, splice variants and pre-taken renamed names; fn6 contig numbers; "
        "plus every list of at most 2 (quick) / 3 (thorough) ids of length <= 2 over {a : _ 0}. "
        "The Gallina specification is evaluated on every implementation output of fn1 and fn5. ASCII only. "
        "non-trivial = fn1 with at least one identifier changed or a rejection, fn2 with a taken counter, fn3 with a changed id, "
        "fn4 with a replaced character, fn5 with a rejected or renamed call, fn6 with a parsed number; distinct by flat encoding")


def enumerated(tier):
    """ every list of at most 2 (quick) / 3 (thorough) ids of length <= 2 over {a : _ 0}, name = id, short headers """
    import itertools
    words = [""] + ["".join(w) for n in (1, 2) for w in itertools.product("a:_0", repeat=n)]
    out = []
    for n in range(1, 3 if tier == "quick" else 4):
        for ids in itertools.product(words, repeat=n):
            out.append((1, (0, [(rid, rid) for rid in ids])))
    return out


def generate(chk, impl, total):
    gen = Gen(chk.rng)
    cases, impl_outs, spec_idx = [], [], []
    corpus = [
        (1, (0, [("a:b", "a:b"), ("ab", "ab")])),                       # F25 (fixed): strip_after_unique
        (1, (0, [("ab", "ab"), ("a:b", "a:b")])),
        # F26 (fixed): contig_number_overflow - contig numbers / record indices of six and more digits, id and name
        (1, (0, [("my contig1234567 of a long name", "n")])),
        (1, (0, [("n", "my contig1234567 of a long name")])),
        (1, (0, [("contig100000 xxxxxxxxxx", "contig100000 xxxxxxxxxx")])),
        (1, (0, [("contig123456789012 and more", "scaffold1234567890123 and more")])),
        (1, (0, [("contig1234567890123 and more", "x c99999999999999999999 y")])),
        (1, (0, [("my contig1234567 of a long name", "n"), ("c1234567_my co..", "n"), ("my contig1234567 of", "n")])),
        (3, (False, 100000, "abcdefghijklmnopqrstu", "abcdefghijklmnopqrstu", None, ["abcdefghijklmnopqrstu"])),
        (3, (False, 10 ** 12 - 1, "abcdefghijklmnopqrstu", "abcdefghijklmnopqrstu", None, ["abcdefghijklmnopqrstu"])),
        (3, (False, 10 ** 12, "abcdefghijklmnopqrstu", "abcdefghijklmnopqrstu", None, ["abcdefghijklmnopqrstu"])),
        (3, (False, 10 ** 12, "abcdefghijklmnopqrstu", "n", None, ["abcdefghijklmnopqrstu", "abcdefghijklmn.."])),
        (1, (0, [("x", "x"), ("x", "x"), ("x_0", "x_0")])),
        (1, (0, [("abcdefghijklmnopqrstu", "a"), ("abcdefghijklmnopqrstv", "a"), ("c00001_abcdefg..", "a")])),
        (1, (0, [("::", "n")])),
        # the RuntimeError of the collision fallback: shortened form taken and 1000 counters taken
        (3, (False, 1, "abcdefghijklmnopqrstu", "n", None,
             ["abcdefghijklmnopqrstu", "c00001_abcdefg.."] + [f"abcdefghijkl_{i}" for i in range(1000)])),
        (3, (False, 1, "abcdefghijklmnopqrstu", "n", None,
             ["abcdefghijklmnopqrstu", "c00001_abcdefg.."] + [f"abcdefghijkl_{i}" for i in range(999)])),
    ]
    exhaustive = enumerated(chk.tier)
    chk.count("fn1_enumerated_small_lists", len(exhaustive))
    corpus += exhaustive
    total += len(corpus)
    for i in range(total):
        r = chk.rng.random()
        if i < len(corpus):
            fn, args = corpus[i]
        elif r < 0.55:
            fn, args = 1, (int(chk.rng.random() < 0.25), gen.id_list())
        elif r < 0.65:
            fn, args = 2, gen.unique_id_case()
        elif r < 0.8:
            fn, args = 3, gen.fix_case()
        elif r < 0.85:
            fn, args = 4, (gen.sanitise_case(),)
        elif r < 0.95:
            fn, args = 5, gen.cds_case(impl)
        else:
            fn, args = 6, gen.contig_case()
        chk.count(FN_NAMES[fn])
        nontrivial = False
        sample = None
        if fn == 1:
            allow, pairs = args
            flat = [PROP, 1, allow, len(pairs)]
            for rid, name in pairs:
                flat += enc_str(rid) + enc_str(name)
            out, result = impl.pipeline(allow, pairs)
            chk.count(f"fn1_records_{len(pairs)}")
            chk.count("fn1_allow_long" if allow else "fn1_short_headers")
            if result is None:
                chk.count("fn1_error_" + ("AntismashInputError" if out[1] == E_INPUT else common.ERR_NAME.get(out[1], str(out[1]))))
                nontrivial = True
            else:
                changed = sum(1 for (rid, _), (oid, _, _) in zip(pairs, result) if rid != oid)
                chk.count("fn1_ids_changed", changed)
                nontrivial = changed > 0
                if len({rid for rid, _ in pairs}) < len(pairs):
                    chk.count("fn1_duplicate_input_ids")
                if any(set(rid) & set(ILLEGAL) for rid, _ in pairs):
                    chk.count("fn1_illegal_characters_in_input")
                if any(len(rid) > 16 for rid, _ in pairs):
                    chk.count("fn1_long_input_id")
                if not allow:
                    for (rid, name), (oid, oname, _) in zip(pairs, result):
                        count_shortened(chk, "fn1", rid, oid)
                        count_shortened(chk, "fn1", name, oname)
            spec_idx.append(len(cases))
            sample = {"function": FN_NAMES[1], "allow_long_headers": bool(allow), "records": pairs, "implementation": result or out}
        elif fn == 2:
            prefix, existing, start, max_length = args
            flat = [PROP, 2] + enc_str(prefix) + [len(existing)] + [x for e in existing for x in enc_str(e)] + [start, max_length]
            out = impl.generate_unique_id(prefix, existing, start, max_length)
            nontrivial = f"{prefix}_{start}" in existing
            if out[0] == 1:
                chk.count("fn2_error_" + common.ERR_NAME.get(out[1], str(out[1])))
        elif fn == 3:
            allow, idx, rid, name, orig, existing = args
            flat = [PROP, 3, int(allow), idx] + enc_str(rid) + enc_str(name) + enc_opt_str(orig) + [len(existing)] + \
                [x for e in existing for x in enc_str(e)]
            out = impl.fix_record_name_id(allow, idx, rid, name, orig, existing)
            if out[0] == 1:
                chk.count("fn3_error_" + common.ERR_NAME.get(out[1], str(out[1])))
                nontrivial = True
            else:
                new_id, _ = dec_str(out, 1)
                nontrivial = new_id != rid
                if nontrivial:
                    chk.count("fn3_id_changed")
                if not allow:
                    count_shortened(chk, "fn3", rid, new_id)
        elif fn == 4:
            flat = [PROP, 4] + enc_str(args[0])
            out = impl.sanitise(args[0])
            nontrivial = out != enc_str(args[0])
        elif fn == 5:
            genes, calls = args
            payload, out = impl.cds_history(genes, calls)
            flat = [PROP, 5] + payload
            if len(out) > 1:
                outcomes = out[-len(calls):]
                for code in outcomes:
                    chk.count("fn5_call_" + ("added" if code == 0 else common.ERR_NAME.get(code, str(code))))
                renamed = sum(1 for j, code in enumerate(outcomes) if code == 0 and payload[1 + 5 * j + 3])
                chk.count("fn5_renamed_splice_variant", renamed)
                nontrivial = renamed > 0 or any(outcomes)
            spec_idx.append(len(cases))
            sample = {"function": FN_NAMES[5], "genes": genes, "calls": calls, "implementation": out}
        else:
            idx, text = args
            flat = [PROP, 6, idx] + enc_str(text)
            try:
                out = impl.contig_number(idx, text)
            except Exception as exc:  # pylint: disable=broad-except
                out = [-1000 - err(exc)]
            nontrivial = out[0] != idx
            if out[0] >= 100000:
                chk.count("fn6_six_or_more_digit_number")
        cases.append(flat)
        impl_outs.append(out)
        chk.note_case(flat, nontrivial, sample)
    return cases, impl_outs, spec_idx


def check_spec(chk, cases, impl_outs, spec_idx):
    """ the property itself, evaluated in Gallina on the implementation's outputs """
    spec_cases = [[PROP, cases[i][1] + SPEC_OFFSET] + cases[i][2:] + impl_outs[i] for i in spec_idx]
    verdicts = common.run_driver(spec_cases)
    names = ["all", "unique", "safe characters", "at most 16 characters", "original id", "has a name"]
    for i, verdict in zip(spec_idx, verdicts):
        if verdict and verdict[0] == 1:
            chk.count("spec_holds")
            continue
        fn = cases[i][1]
        if fn == 5:
            failed = ["names and locations pairwise distinct"]
        else:
            failed = [n for n, v in zip(names, verdict) if v == 0] if len(verdict) == 6 else ["decode"]
        chk.violation("counterexample", f"{FN_NAMES[fn]}: the implementation's output violates the property ({', '.join(failed)})",
                      {"theorem_or_correspondence": "spec_flags on the implementation's output", "function": fn,
                       "flat": cases[i], "implementation": impl_outs[i], "spec_verdict": verdict,
                       "input": describe(cases[i])})


def run(chk):
    if not chk.build_and_audit():
        return chk.finish(RULE)
    impl = Impl()
    total = 26000 if chk.tier == "quick" else 400000
    cases, impl_outs, spec_idx = generate(chk, impl, total)
    model_outs = common.correspondence(chk, cases, impl_outs, describe=describe)
    check_spec(chk, cases, impl_outs, spec_idx)
    chk.crosscheck_vm(cases, model_outs)
    return chk.finish(RULE)


def replay(chk, path):
    doc = json.load(open(path))
    flat = doc["flat"]
    print("input:", describe(flat))
    print("model:", common.run_driver([flat])[0])
    print("recorded implementation:", doc.get("implementation"))
    if flat[1] in (1, 5) and doc.get("implementation"):
        print("spec on recorded implementation output:",
              common.run_driver([[PROP, flat[1] + SPEC_OFFSET] + flat[2:] + doc["implementation"]])[0])
    if flat[1] == 1:
        impl = Impl()
        n = flat[3]
        pos = 4
        pairs = []
        for _ in range(n):
            rid, pos = dec_str(flat, pos)
            name, pos = dec_str(flat, pos)
            pairs.append((rid, name))
        print("implementation now:", impl.pipeline(flat[2], pairs))
    return 0
