"""C05: correspondence for candidate cluster formation.
   fn 1: Record.add_protocluster* ; Record.create_candidate_clusters() ; Record.get_candidate_clusters()
         (every protocluster carries its class: rule-based Protocluster or SideloadedProtocluster, both built by their
         real constructors; the defining genes come out of the real add_cds path of Record.add_protocluster)
   fn 2: create_candidates_from_protoclusters(list in a given order, wrap point)
   fn 3: _merge_sets(groups)
   fn 101/102/103: the decidable specification evaluated on the implementation's output of fn 1/2/3
   (101/102: six structural clauses + ten clauses about the meaning of the kinds, among them "every chemical hybrid
   has two members sharing a defining gene as reported by the public definition_cdses" and "every transitive group of
   hybrids / protoclusters with overlapping (joint) cores lies in one interleaved candidate", overlap on the ring for
   circular records; 103: _merge_sets returns the transitive groups); fn 21/22: class information for the REPAIRED findings candidate_index_window /
   neighbouring_singles_not_linked (would the old bisect window / the old restriction to hit-less singles change the
   model's result on this input; used only to label a violation if a defect returns); fn 11/12: class of the
   repaired finding joint_core_wraps_assert.
   Order independence is also observed on the implementation alone (Record level vs direct call, two orders); the
   witness of the repaired finding supply_order_same_key_groups is run first in two supply orders.
   No finding of C05 is recorded as known: nothing is suppressed."""
import itertools
import json

import common
from common import err_code

PROP = 5
KIND = {"SINGLE": 0, "INTERLEAVED": 1, "NEIGHBOURING": 2, "CHEMICAL_HYBRID": 3}
STRAND = {1: 1, -1: -1, 0: 0, None: 2}
STRAND_BACK = {1: 1, -1: -1, 0: 0, 2: None}
MAX_PROTOS = 8   # protocluster ids are 0..7: they hash to their id, so Python sets iterate in ascending id

_CLS = {}
STATS = {}


def classes():
    """ real antiSMASH classes; the Protocluster subclass only pins the hash (= set iteration order) """
    if _CLS:
        return _CLS
    from antismash.common.secmet.features import Protocluster
    from antismash.common.secmet.features.protocluster import SideloadedProtocluster
    from antismash.common.secmet.features.candidate_cluster import formation
    from antismash.common.secmet.locations import FeatureLocation, CompoundLocation
    from antismash.common.secmet.qualifiers.gene_functions import GeneFunction
    from antismash.common.secmet.test.helpers import DummyCDS, DummyRecord

    class HashedProtocluster(Protocluster):  # pylint: disable=too-few-public-methods
        """ a Protocluster whose hash is its number in the generated configuration """
        __slots__ = ["vid"]

        def __hash__(self):
            return self.vid

    class HashedSideloaded(SideloadedProtocluster):  # pylint: disable=too-few-public-methods
        """ the same for the only other class of protocluster in the code base (externally annotated) """
        __slots__ = ["vid"]

        def __hash__(self):
            return self.vid

    _CLS.update(P=HashedProtocluster, S=HashedSideloaded, formation=formation, FL=FeatureLocation, CL=CompoundLocation,
                GF=GeneFunction, CDS=DummyCDS, Record=DummyRecord)
    return _CLS


def product_name(i):
    return f"p{i:02d}"


def mk_loc(parts):
    cls = classes()
    locs = [cls["FL"](s, e, STRAND_BACK[st]) for s, e, st in parts]
    return locs[0] if len(locs) == 1 else cls["CL"](locs)


def enc_loc(parts):
    out = [len(parts)]
    for part in parts:
        out += list(part)
    return out


def loc_parts(location):
    return [(int(p.start), int(p.end), STRAND[p.strand]) for p in location.parts]


def build_record(config):
    """ config = dict(n, circular, genes=[(gid, parts, [products])], protos=[(pid, extent, core, product)])
        -> (record, [protocluster objects in config order], genes by id); protoclusters NOT yet added """
    cls = classes()
    record = cls["Record"](seq="A" * config["n"], circular=config["circular"])
    genes = {}
    for gid, parts, products in config["genes"]:
        cds = cls["CDS"](location=mk_loc(parts), locus_tag=f"g{gid}")
        for prod in products:
            cds.gene_functions.add(cls["GF"].CORE, "tool", "desc", product_name(prod))
        record.add_cds_feature(cds)
        genes[gid] = cds
    protos = []
    side = config.get("side", ())
    for pid, extent, core, prod in config["protos"]:
        if pid in side:
            # a SideloadedProtocluster, through its real constructor; Record.add_protocluster -> add_cds fills its
            # private set of defining genes like for any protocluster, its public definition_cdses stays empty
            proto = cls["S"](mk_loc(core), mk_loc(extent), "ext", product_name(prod))
        else:
            proto = cls["P"](mk_loc(core), mk_loc(extent), tool="t", product=product_name(prod), cutoff=1,
                             neighbourhood_range=0, detection_rule="r")
        proto.vid = pid
        protos.append(proto)
    return record, protos, genes


def enc_cands(cands):
    out = [0, len(cands)]
    for cand in cands:
        members = [p.vid for p in cand.protoclusters]
        out += [KIND[cand.kind.name], len(members)] + members + enc_loc(loc_parts(cand.location))
    return out


def impl_record(config, order):
    """ fn 1 """
    try:
        record, protos, _ = build_record(config)
    except Exception as exc:  # pylint: disable=broad-except
        return None, repr(exc)
    try:
        for i in order:
            record.add_protocluster(protos[i])
    except Exception as exc:  # pylint: disable=broad-except
        return None, repr(exc)
    try:
        common.call_with_timeout(record.create_candidate_clusters, 10)
        return enc_cands(record.get_candidate_clusters()), None
    except Exception as exc:  # pylint: disable=broad-except
        return [1, err_code(exc)], None


def impl_direct(config, order):
    """ fn 2: returns (output, defs per protocluster in config order) """
    cls = classes()
    try:
        record, protos, genes = build_record(config)
        for proto in protos:
            record.add_protocluster(proto)
    except Exception as exc:  # pylint: disable=broad-except
        return None, repr(exc)
    gid_of = {id(cds): gid for gid, cds in genes.items()}
    # the defining genes as the PUBLIC property reports them (always none for a sideloaded protocluster)
    defs = [sorted(gid_of[id(cds)] for cds in proto.definition_cdses) for proto in protos]
    if config.get("side"):
        # statistics only: what add_cds recorded in the private set of the sideloaded protoclusters
        private = [set(proto._definition_cdses) for proto in protos]  # pylint: disable=protected-access
        for i, proto in enumerate(protos):
            if proto.vid not in config["side"]:
                continue
            STATS["sideloaded_protoclusters"] = STATS.get("sideloaded_protoclusters", 0) + 1
            assert not defs[i]
            if private[i]:
                STATS["sideloaded_whose_product_is_a_CORE_annotation_in_their_core"] = \
                    STATS.get("sideloaded_whose_product_is_a_CORE_annotation_in_their_core", 0) + 1
                if any(j != i and private[i] & private[j] for j in range(len(protos))):
                    STATS["sideloaded_sharing_that_gene_with_another_protocluster"] = \
                        STATS.get("sideloaded_sharing_that_gene_with_another_protocluster", 0) + 1
    wrap = config["n"] if config["circular"] else None
    try:
        cands = common.call_with_timeout(
            lambda: cls["formation"].create_candidates_from_protoclusters([protos[i] for i in order],
                                                                          circular_wrap_point=wrap), 10)
        return enc_cands(cands), defs
    except Exception as exc:  # pylint: disable=broad-except
        return [1, err_code(exc)], defs


def impl_merge(config, groups):
    """ fn 3 """
    cls = classes()
    _record, protos, _ = build_record(config)
    try:
        merged = cls["formation"]._merge_sets([{protos[i] for i in group} for group in groups])  # pylint: disable=protected-access
    except Exception as exc:  # pylint: disable=broad-except
        return [1, err_code(exc)]
    out = [len(merged)]
    for group in merged:
        out += [len(group)] + [p.vid for p in group]
    return out


def enc_proto(proto, defs=None):
    pid, extent, core, prod = proto
    out = [pid] + enc_loc(extent) + enc_loc(core) + [prod]
    if defs is not None:
        out += [len(defs)] + list(defs)
    return out


def flat_record(config, order):
    out = [PROP, 1, config["n"], int(config["circular"]), len(config["genes"])]
    for gid, parts, products in config["genes"]:
        out += [gid] + enc_loc(parts) + [len(products)] + list(products)
    out += [len(order)]
    side = config.get("side", ())
    for i in order:
        # class flag: 1 = rule-based Protocluster (contributes defining genes), 0 = SideloadedProtocluster
        out += enc_proto(config["protos"][i]) + [0 if config["protos"][i][0] in side else 1]
    return out


def flat_direct(config, order, defs):
    out = [PROP, 2] + ([1, config["n"]] if config["circular"] else [0]) + [len(order)]
    for i in order:
        out += enc_proto(config["protos"][i], defs[i])
    return out


def flat_merge(config, groups):
    out = [PROP, 3, len(config["protos"])]
    for proto in config["protos"]:
        out += enc_proto(proto, [])
    out += [len(groups)]
    for group in groups:
        out += [len(group)] + list(group)
    return out


# ------------------------------------------------------------------ generation

class Gen:
    """ structured configurations: disjoint genes, protoclusters built around anchor genes so that defining
        genes, shared defining genes, nested / identical / chained cores and extents are frequent """
    def __init__(self, rng):
        self.rng = rng

    def interval(self, n, lo=0, maxlen=None):
        rng = self.rng
        maxlen = maxlen or n
        start = rng.randrange(lo, n - 1)
        end = min(n, start + rng.randint(1, maxlen))
        return start, end

    def config(self, circular=None, wrapping=False):
        rng = self.rng
        grid = rng.choice([1, 5, 10])
        units = rng.randint(12, 40)
        n = units * grid
        if circular is None:
            circular = rng.random() < 0.35
        # disjoint genes on the grid
        n_genes = rng.randint(1, 6)
        cuts = sorted(rng.sample(range(0, units + 1), min(units + 1, 2 * n_genes)))
        genes = []
        for i in range(0, len(cuts) - 1, 2):
            if cuts[i + 1] > cuts[i]:
                genes.append([len(genes), [(cuts[i] * grid, cuts[i + 1] * grid, rng.choice([1, 1, -1]))], []])
        n_protos = rng.choice([1, 2, 2, 3, 3, 3, 4, 4, 4, 5, 5, 6, 7, MAX_PROTOS])
        protos = []
        for pid in range(n_protos):
            r = rng.random()
            if protos and r < 0.12:
                # identical coordinates (extent and/or core) as an earlier protocluster
                _, extent, core, _ = rng.choice(protos)
                if rng.random() < 0.4:
                    core = self.sub_interval(extent, grid)
                protos.append((pid, extent, core, pid))
                continue
            if protos and r < 0.22:
                # nested inside / chained to an earlier one
                _, extent0, core0, _ = rng.choice(protos)
                if len(extent0) == 1 and extent0[0][1] - extent0[0][0] >= 2 * grid:
                    core = self.sub_interval(extent0, grid)
                    extent = self.extend(core, n, grid, circular and wrapping)
                    protos.append((pid, extent, core, pid))
                    continue
            if genes and r < 0.85:
                k = rng.choice([1, 1, 1, 2, 2, 3])
                first = rng.randrange(len(genes))
                anchors = genes[first:first + k]
                if wrapping and circular and rng.random() < 0.3 and len(genes) >= 2:
                    # anchors around the origin: last gene(s) + first gene(s)
                    a = rng.randint(1, min(2, len(genes) - 1))
                    b = rng.randint(1, min(2, len(genes) - a))
                    lo_genes, hi_genes = genes[:b], genes[-a:]
                    anchors = hi_genes + lo_genes
                    s = min(g[1][0][0] for g in hi_genes)
                    e = max(g[1][0][1] for g in lo_genes)
                    if e < s:
                        core = [(s, n, 1), (0, e, 1)]
                    else:
                        core = [(0, n, 1)]
                else:
                    s = min(g[1][0][0] for g in anchors)
                    e = max(g[1][0][1] for g in anchors)
                    if rng.random() < 0.2:
                        s = max(0, s - grid * rng.randint(0, 2))
                        e = min(n, e + grid * rng.randint(0, 2))
                    core = [(s, e, 1)]
                for g in anchors:
                    if rng.random() < 0.9 and pid not in g[2]:
                        g[2].append(pid)
            else:
                s, e = self.interval(units, maxlen=max(1, units // 3))
                core = [(s * grid, e * grid, 1)]
            if len(core) == 1 and core[0][0] == 0 and core[0][1] == n and circular:
                core = [(0, max(grid, n - grid), 1)]
            extent = self.extend(core, n, grid, circular and wrapping)
            if wrapping and len(extent) == 1 and extent[0][0] == 0 and extent[0][1] == n:
                # a whole-record extent next to origin-crossing ones makes CDSCollection.__lt__ cyclic
                # (containment shortcut against the negative start of wrapped locations); Python's sort
                # result then depends on Timsort internals, which the model does not transcribe
                extent = list(core)
            protos.append((pid, extent, core, pid))
        # non-defining decorations: some genes carry products of other protoclusters
        for g in genes:
            if rng.random() < 0.25 and protos:
                prod = rng.randrange(len(protos))
                if prod not in g[2]:
                    g[2].append(prod)
        # occasionally other strands on simple locations
        if rng.random() < 0.15:
            fixed = []
            for pid, extent, core, prod in protos:
                if len(extent) == 1 and len(core) == 1:
                    st = rng.choice([1, -1, 2, 0])
                    extent = [(extent[0][0], extent[0][1], st)]
                    core = [(core[0][0], core[0][1], rng.choice([1, st]))]
                fixed.append((pid, extent, core, prod))
            protos = fixed
        # product numbers need not follow ids: permute them
        perm = list(range(len(protos)))
        rng.shuffle(perm)
        protos = [(pid, extent, core, perm[prod]) for pid, extent, core, prod in protos]
        genes = [(gid, parts, sorted(perm[p] for p in prods if p < len(perm))) for gid, parts, prods in genes]
        return {"n": n, "circular": circular, "genes": genes, "protos": protos}

    def layout(self, circular=None):
        """ structured layouts: cores are placed independently of the extents.  Several hybrid groups (2-3
            protoclusters around one shared gene), loose protoclusters whose core is put in a chosen relation
            (overlapping the left / right end, inside, containing, touching, elsewhere) to an earlier core, and
            neighbourhoods that are wide, reach the record ends, or are made to cover the whole extent of an
            earlier protocluster (nested extents, equal extent starts / ends), so that the order of the
            candidates by extent is unrelated to the order of their cores """
        rng = self.rng
        grid = rng.choice([1, 5, 10, 10])
        units = rng.randint(24, 90)
        n = units * grid
        if circular is None:
            circular = rng.random() < 0.25
        n_groups = rng.choice([1, 2, 2, 2, 3])
        n_loose = rng.choice([0, 1, 1, 1, 2, 2, 3])
        sizes = [rng.choice([2, 2, 2, 3]) for _ in range(n_groups)]
        while sum(sizes) + n_loose > MAX_PROTOS:
            if n_loose > 1:
                n_loose -= 1
            elif len(sizes) > 1 and sizes[-1] == 2:
                sizes.pop()
            else:
                sizes[-1] -= 1
        n_genes = len(sizes) + rng.choice([0, 0, 1, 2])
        cuts = sorted(rng.sample(range(1, units), min(units - 1, 2 * n_genes)))
        slots = []
        for i in range(0, len(cuts) - 1, 2):
            slots.append((cuts[i], min(cuts[i + 1], cuts[i] + rng.choice([1, 1, 2, 3]))))
        rng.shuffle(slots)
        genes = []
        protos = []   # (pid, extent, core, product) in units
        pads = [0, 0, 0, 1, 1, 2, 4]

        def clip(s, e):
            return max(0, s), min(units, e)

        def extent_for(core):
            s, e = core
            r = rng.random()
            if protos and r < 0.40:
                # cover the whole extent of one or two earlier protoclusters (nesting by extent)
                for _ in range(rng.choice([1, 1, 2])):
                    other = rng.choice(protos)[1]
                    s, e = min(s, other[0]), max(e, other[1])
                s -= rng.choice([0, 0, 0, 1, 3])
                e += rng.choice([0, 0, 0, 1, 3])
            elif protos and r < 0.50:
                # same extent start or end as an earlier one
                other = rng.choice(protos)[1]
                if rng.random() < 0.5:
                    s, e = min(s, other[0]), e + rng.choice([0, 1, 2, 5, 10, 20])
                else:
                    s, e = s - rng.choice([0, 1, 2, 5, 10, 20]), max(e, other[1])
            else:
                wide = [0, 0, 1, 2, 3, 5, 8, 12, 20, 40, units]
                s -= rng.choice(wide)
                e += rng.choice(wide)
            return clip(s, e)

        for gi, size in enumerate(sizes):
            if gi >= len(slots):
                break
            gs, ge = slots[gi]
            gid = len(genes)
            genes.append([gid, [(gs * grid, ge * grid, rng.choice([1, 1, -1]))], []])
            for _ in range(size):
                pid = len(protos)
                core = clip(gs - rng.choice(pads), ge + rng.choice(pads))
                protos.append((pid, extent_for(core), core, pid))
                genes[gid][2].append(pid)
        for gs, ge in slots[len(sizes):]:
            # genes without any CORE function of their own protocluster (decorated below)
            genes.append([len(genes), [(gs * grid, ge * grid, rng.choice([1, 1, -1]))], []])
        for _ in range(n_loose):
            pid = len(protos)
            core = None
            if protos:
                os_, oe = rng.choice(protos)[2]
                rel = rng.choice(["left", "right", "inside", "contain", "touch_l", "touch_r", "same", "free"])
                a, b = rng.choice([1, 1, 2, 3, 6]), rng.choice([1, 1, 2, 3])
                if rel == "left":
                    core = (os_ - a, os_ + b)
                elif rel == "right":
                    core = (oe - b, oe + a)
                elif rel == "inside" and oe - os_ >= 2:
                    s = rng.randint(os_, oe - 1)
                    core = (s, rng.randint(s + 1, oe))
                elif rel == "contain":
                    core = (os_ - rng.choice(pads), oe + rng.choice(pads))
                elif rel == "touch_l":
                    core = (os_ - a, os_)
                elif rel == "touch_r":
                    core = (oe, oe + a)
                elif rel == "same":
                    core = (os_, oe)
            if core is None:
                s = rng.randrange(0, units - 1)
                core = (s, s + rng.randint(1, max(1, units // 6)))
            core = clip(*core)
            if core[1] <= core[0]:
                core = (min(core[0], units - 1), min(core[0], units - 1) + 1)
            protos.append((pid, extent_for(core), core, pid))
        # foreign products on genes: not defining unless the gene lies in that protocluster's core as well,
        # in which case it links the protocluster into a hybrid (both are wanted)
        for g in genes:
            if rng.random() < 0.2 and protos:
                prod = rng.randrange(len(protos))
                if prod not in g[2]:
                    g[2].append(prod)
        if circular:
            # no location may cover the whole circular record (see the note on cyclic __lt__)
            fixed = []
            for pid, ext, core, prod in protos:
                if ext == (0, units):
                    if core[1] < units:
                        ext = (0, units - 1)
                    elif core[0] > 0:
                        ext = (1, units)
                    else:
                        core = ext = (0, units - 1)
                fixed.append((pid, ext, core, prod))
            protos = fixed
        order = list(range(len(protos)))
        rng.shuffle(order)          # ids (= set iteration order) unrelated to the position
        renum = {old: new for new, old in enumerate(order)}
        perm = list(range(len(protos)))
        rng.shuffle(perm)
        out = sorted((renum[pid], [(ext[0] * grid, ext[1] * grid, 1)], [(core[0] * grid, core[1] * grid, 1)], perm[prod])
                     for pid, ext, core, prod in protos)
        genes = [(gid, parts, sorted(perm[p] for p in prods)) for gid, parts, prods in genes]
        return {"n": n, "circular": circular, "genes": genes, "protos": out}

    def ring(self):
        """ dense CIRCULAR records built around the origin, in unrolled coordinates (negative = before the origin):
            three or four chemical hybrids (two protoclusters around one shared gene each) and loose protoclusters.
            Hybrid X sits on the origin (its extent always crosses it, its joint core mostly), so its candidate sorts
            first and its .end is the end of its post-origin part.  Hybrid Y is placed in a chosen relation to the
            core of X: overlapping / touching / just clear of its pre-origin side, crossing the origin too, or
            overlapping its post-origin side.  The remaining hybrids are nested in the (widened) neighbourhood of Y -
            they sort after Y, which then is neither the first nor the last candidate -, or lie before Y, after the
            origin, or far away.  Loose protoclusters get a core in a chosen relation to an earlier core. """
        rng = self.rng
        grid = rng.choice([1, 5, 10, 10])
        units = rng.randint(64, 150)
        n = units * grid
        half = units // 2 - 2

        def to_parts(iv):
            s, e = iv
            if s >= 0:
                return [(s * grid, e * grid, 1)]
            if e <= 0:
                return [((units + s) * grid, (units + e) * grid, 1)]
            return [((units + s) * grid, n, 1), (0, e * grid, 1)]

        def clamp(iv):
            s, e = max(-half, iv[0]), min(half, iv[1])
            return (s, e) if s < e else (s, s + 1) if s < half else (s - 1, s)

        pads = [0, 0, 1, 1, 2, 3, 5]
        nbh = [0, 0, 1, 2, 3, 5, 8, 12]
        n_hyb = rng.choice([3, 3, 3, 4])
        n_loose = rng.randint(0, MAX_PROTOS - 2 * n_hyb)
        genes = []     # (interval, [pids])
        protos = []    # [ext, core] in unrolled units

        def add_hybrid(gene, cores, exts=None):
            pids = []
            for k, core in enumerate(cores):
                core = clamp(core)
                ext = exts[k] if exts else (core[0] - rng.choice(nbh), core[1] + rng.choice(nbh))
                ext = clamp((min(ext[0], core[0]), max(ext[1], core[1])))
                pids.append(len(protos))
                protos.append([ext, core])
            genes.append((gene, pids))
            return pids

        # X, on the origin
        if rng.random() < 0.5:
            ge = -rng.choice([0, 0, 1, 2])
            gene_x = (ge - rng.choice([1, 1, 2]), ge)
        else:
            gs = rng.choice([0, 0, 1, 2])
            gene_x = (gs, gs + rng.choice([1, 1, 2]))
        crossing_core = rng.random() < 0.65
        cores = []
        for k in range(2):
            s, e = gene_x[0] - rng.choice(pads), gene_x[1] + rng.choice(pads)
            if crossing_core and k == 0:
                s, e = min(s, -rng.choice([1, 1, 2, 4])), max(e, rng.choice([1, 1, 2, 4]))
            if not crossing_core:
                s, e = (s, min(e, 0)) if gene_x[1] <= 0 else (max(s, 0), e)
            cores.append((s, e))
        exts = []
        for k, (s, e) in enumerate(cores):
            s, e = s - rng.choice(nbh), e + rng.choice(nbh)
            if k == 0 or rng.random() < 0.7:
                s, e = min(s, -rng.choice([1, 2, 3, 6])), max(e, rng.choice([1, 2, 3, 6]))
            exts.append((s, e))
        x_ids = add_hybrid(gene_x, cores, exts)
        left = min(protos[i][1][0] for i in x_ids)     # pre-origin end of the joint core of X
        right = max(protos[i][1][1] for i in x_ids)
        leftmost = min(left, gene_x[0])                # everything placed further left stays clear of X's gene
        rightmost = max(right, gene_x[1])

        # Y, in a chosen relation to the core of X
        rel = rng.choice(["overlap_pre"] * 9 + ["touch_pre"] * 2 + ["gap_pre"] * 2 + ["cross_too"] * 3 + ["overlap_post"] * 4)
        if rel == "overlap_post":
            gs = rightmost + rng.choice([0, 1, 2])
            gene_y = (gs, gs + rng.choice([1, 1, 2]))
            reach = right - rng.choice([1, 1, 2])
            cores = [(min(reach, gene_y[0]), gene_y[1] + rng.choice(pads)),
                     (gene_y[0] - rng.choice([0, 0, 1]), gene_y[1] + rng.choice(pads))]
            y_edge = max(c[1] for c in cores)
        else:
            ge = min(leftmost, 0) - rng.choice([0, 1, 2, 3])
            gene_y = (ge - rng.choice([1, 1, 2]), ge)
            if rel == "overlap_pre":
                reach = left + rng.choice([1, 1, 2])
            elif rel == "touch_pre":
                reach = left
            elif rel == "gap_pre":
                reach = left - rng.choice([1, 2])
            else:
                reach = rng.choice([1, 1, 2, 3])   # the core of Y crosses the origin as well
            cores = [(gene_y[0] - rng.choice(pads), max(reach, gene_y[1])),
                     (gene_y[0] - rng.choice(pads), gene_y[1] + rng.choice([0, 0, 1]))]
            y_edge = min(c[0] for c in cores)
        rng.shuffle(cores)
        y_ids = add_hybrid(gene_y, cores)

        # further hybrids
        pre_edge = min(y_edge, leftmost, gene_y[0]) if rel != "overlap_post" else min(leftmost, 0)
        post_edge = max(y_edge, rightmost, gene_y[1]) if rel == "overlap_post" else max(rightmost, 0)
        for _ in range(n_hyb - 2):
            mode = rng.choice(["nested"] * 5 + ["before"] * 2 + ["post"] * 2 + ["far"])
            width = rng.choice([1, 1, 2])
            if mode in ("nested", "before") and pre_edge - width - 8 > -half:
                ge = pre_edge - rng.choice([1, 2, 3] if mode == "nested" else [3, 6, 10])
                ge = max(ge, -half + width + 4)
                gene = (ge - width, ge)
                cores = [(gene[0] - rng.choice([0, 0, 1]), gene[1] + rng.choice([0, 0, 1])) for _ in range(2)]
                ids = add_hybrid(gene, cores, [(c[0] - rng.choice([0, 1, 2]), c[1] + rng.choice([0, 1, 2])) for c in cores]
                                 if mode == "nested" else None)
                pre_edge = min(pre_edge, min(protos[i][0][0] for i in ids) if mode == "before" else gene[0] - 1)
                if mode == "nested":
                    # the neighbourhood of a member of Y (or X) is widened to hold the new hybrid: it sorts after Y
                    host = rng.choice(y_ids if rel != "overlap_post" or rng.random() < 0.5 else x_ids)
                    lo = min(protos[i][0][0] for i in ids) - rng.choice([0, 1, 2])
                    protos[host][0] = clamp((min(protos[host][0][0], lo), protos[host][0][1]))
                    pre_edge = min(pre_edge, lo)
            elif mode == "far" and -half + 6 < pre_edge - 12:
                ge = rng.randint(-half + 4, pre_edge - 10)
                gene = (ge - width, ge)
                add_hybrid(gene, [(gene[0] - rng.choice([0, 0, 1]), gene[1] + rng.choice([0, 0, 1])) for _ in range(2)])
                pre_edge = min(pre_edge, gene[0] - 4)
            elif post_edge + width + 8 < half:
                gs = post_edge + rng.choice([1, 2, 3, 6])
                gene = (gs, gs + width)
                ids = add_hybrid(gene, [(gene[0] - rng.choice([0, 0, 1]), gene[1] + rng.choice([0, 0, 1])) for _ in range(2)])
                post_edge = max(post_edge, gene[1] + 1)
        # loose protoclusters: core in a chosen relation to an earlier core
        for _ in range(n_loose):
            os_, oe = rng.choice(protos)[1]
            kind = rng.choice(["left", "right", "inside", "contain", "touch_l", "touch_r", "same", "free"])
            a, b = rng.choice([1, 1, 2, 3, 6]), rng.choice([1, 1, 2, 3])
            if kind == "left":
                core = (os_ - a, os_ + b)
            elif kind == "right":
                core = (oe - b, oe + a)
            elif kind == "inside" and oe - os_ >= 2:
                s = rng.randint(os_, oe - 1)
                core = (s, rng.randint(s + 1, oe))
            elif kind == "contain":
                core = (os_ - rng.choice(pads), oe + rng.choice(pads))
            elif kind == "touch_l":
                core = (os_ - a, os_)
            elif kind == "touch_r":
                core = (oe, oe + a)
            elif kind == "same":
                core = (os_, oe)
            else:
                s = rng.randint(-half, half - 1)
                core = (s, s + rng.randint(1, 4))
            core = clamp(core)
            if rng.random() < 0.3:
                other = rng.choice(protos)[0]
                ext = (min(core[0], other[0]) - rng.choice([0, 0, 1]), max(core[1], other[1]) + rng.choice([0, 0, 1]))
            else:
                ext = (core[0] - rng.choice(nbh), core[1] + rng.choice(nbh))
            protos.append([clamp(ext), core])
        # ids (= set iteration order) and products unrelated to the position
        order = list(range(len(protos)))
        rng.shuffle(order)
        renum = {old: new for new, old in enumerate(order)}
        perm = list(range(len(protos)))
        rng.shuffle(perm)
        out = sorted((renum[i], to_parts(ext), to_parts(core), perm[i]) for i, (ext, core) in enumerate(protos))
        gene_list = []
        for gid, (iv, pids) in enumerate(sorted(genes)):
            prods = sorted(perm[i] for i in pids)
            if rng.random() < 0.15:
                extra = rng.randrange(len(protos))
                if perm[extra] not in prods:
                    prods = sorted(prods + [perm[extra]])
            gene_list.append((gid, [(to_parts(iv)[0][0], to_parts(iv)[0][1], rng.choice([1, 1, -1]))], prods))
        return {"n": n, "circular": True, "genes": gene_list, "protos": out}

    def sideload(self, config):
        """ turns some protoclusters of a configuration into SideloadedProtoclusters (externally annotated): the
            same coordinates and product, so that the product of a sideloaded protocluster coincides with the CORE
            annotation of a gene in its core wherever the rule-based one had a defining gene (and does not where it
            had none) """
        rng = self.rng
        p = rng.choice([0.15, 0.3, 0.5])
        side = sorted(proto[0] for proto in config["protos"] if rng.random() < p)
        if not side:
            side = [rng.choice(config["protos"])[0]]
        config = dict(config)
        config["side"] = side
        return config

    def sub_interval(self, extent, grid):
        rng = self.rng
        s, e, st = extent[0]
        if len(extent) > 1 or e - s < 2 * grid:
            return list(extent)
        a = s + grid * rng.randint(0, (e - s) // grid - 1)
        b = min(e, a + grid * rng.randint(1, max(1, (e - a) // grid)))
        return [(a, b, 1 if st not in (1,) else st)]

    def extend(self, core, n, grid, may_wrap):
        """ neighbourhood around a core """
        rng = self.rng
        left = grid * rng.choice([0, 0, 1, 2, 3, 5, 8])
        right = grid * rng.choice([0, 0, 1, 2, 3, 5, 8])
        if len(core) == 2:
            s = max(core[1][1], core[0][0] - left)
            e = min(core[0][0], core[1][1] + right)
            if e >= s:
                return list(core)
            return [(s, n, 1), (0, e, 1)]
        s, e, _ = core[0]
        if may_wrap and rng.random() < 0.5:
            s2, e2 = s - left, e + right
            if s2 < 0 and e2 <= n and n + s2 > e2:
                return [(n + s2, n, 1), (0, e2, 1)]
            if e2 > n and s2 >= 0 and e2 - n < s2:
                return [(s2, n, 1), (0, e2 - n, 1)]
        return [(max(0, s - left), min(n, e + right), 1)]


RULE = ("structured configurations: record length 12..400 on a grid of 1, 5 or 10 (so that equal starts, equal ends, touching "
        "and identical coordinates are frequent), 1-6 disjoint genes carrying CORE functions, 1-8 protoclusters built "
        "around anchor genes (shared defining genes -> hybrids), nested / identical / chained cores and extents, "
        "non-defining genes with foreign products, occasional reverse/unknown strands; linear and circular records, "
        "circular ones also with origin-crossing cores and neighbourhoods; "
        "every third configuration is a structured LAYOUT instead (record 24..900, 1-3 hybrid groups of 2-3 protoclusters around "
        "a shared gene, 0-3 loose protoclusters whose core is placed in a chosen relation - overlapping either end, inside, "
        "containing, touching, identical, elsewhere - to an earlier core; cores are placed independently of the extents, and "
        "extents are wide (up to the whole record), cover the whole extent of earlier protoclusters (nesting by extent) or share "
        "their start/end, so the order of candidates by extent is unrelated to the order of their cores; ids shuffled); "
        "every sixth configuration is a dense RING layout: circular record of 64..1500 bases, three or four chemical hybrids "
        "(pairs around a shared gene) and 0-2 loose protoclusters placed in unrolled coordinates around the origin: hybrid X on "
        "the origin (extent always crossing, joint core mostly), hybrid Y in a chosen relation to the core of X (overlapping / "
        "touching / clear of its pre-origin side, crossing the origin too, overlapping its post-origin side), further hybrids "
        "nested in the widened neighbourhood of Y (sorting after it), before it, after the origin or far away; "
        "in 30 % of all configurations some protoclusters (15/30/50 % each, at least one) are SideloadedProtoclusters with the "
        "same coordinates and product, so that their product coincides with the CORE annotation of a gene in their core wherever "
        "a rule-based protocluster would have had a defining gene, and does not elsewhere; "
        "every configuration is run through "
        "Record.create_candidate_clusters (protoclusters added in a random order; every order for <= 3 protoclusters "
        "in part of the cases) and through create_candidates_from_protoclusters on a permuted list; _merge_sets on "
        "random chains of pairs.  Real Protocluster objects whose hash is their id (set iteration = ascending id). "
        "non-trivial = at least 2 protoclusters and at least one candidate of a kind other than single; "
        "distinct by flat encoding")


def describe(flat):
    return {"function": {1: "Record.create_candidate_clusters", 2: "create_candidates_from_protoclusters",
                         3: "_merge_sets"}.get(flat[1], flat[1]), "payload": flat[2:]}


def kinds_of(out):
    """ kinds in an encoded candidate list """
    if not out or out[0] != 0:
        return []
    kinds = []
    pos = 2
    for _ in range(out[1]):
        kinds.append(out[pos])
        nmem = out[pos + 1]
        pos += 2 + nmem
        nparts = out[pos]
        pos += 1 + 3 * nparts
    return kinds


def canon_cands(out):
    """ encoded candidate list -> sorted list of (kind, members, location) """
    if not out or out[0] != 0:
        return None
    res = []
    pos = 2
    for _ in range(out[1]):
        kind, nmem = out[pos], out[pos + 1]
        members = tuple(out[pos + 2:pos + 2 + nmem])
        pos += 2 + nmem
        nparts = out[pos]
        res.append((kind, members, tuple(out[pos + 1:pos + 1 + 3 * nparts])))
        pos += 1 + 3 * nparts
    return sorted(res)


def crossing_hybrid_core(flat, out):
    """ class test of the repaired finding `hybrid_member_repeated` (used only to label a violation): circular
        record, and every candidate with a repeated member is a chemical hybrid """
    circular = (flat[1] == 1 and flat[3] == 1) or (flat[1] == 2 and flat[2] == 1)
    if not circular or not out or out[0] != 0:
        return False
    pos = 2
    for _ in range(out[1]):
        kind, nmem = out[pos], out[pos + 1]
        members = out[pos + 2:pos + 2 + nmem]
        pos += 2 + nmem
        pos += 1 + 3 * out[pos]
        if len(set(members)) != len(members) and kind != KIND["CHEMICAL_HYBRID"]:
            return False
    return True


def cyclic_order(config, out):
    """ circular record with a whole-record location and an origin-crossing location among protoclusters and
        candidates: the only inputs on which CDSCollection.__lt__ is cyclic """
    if not config["circular"]:
        return False
    n = config["n"]
    locs = [p[1] for p in config["protos"]]
    if out and out[0] == 0:
        pos = 2
        for _ in range(out[1]):
            pos += 2 + out[pos + 1]
            nparts = out[pos]
            locs.append([tuple(out[pos + 1 + 3 * j:pos + 4 + 3 * j]) for j in range(nparts)])
            pos += 1 + 3 * nparts
    whole = any(len(l) == 1 and l[0][0] == 0 and l[0][1] == n for l in locs)
    crossing = any(len(l) > 1 for l in locs)
    return whole and crossing


# regression corpus, run first: witness of the repaired finding F40 (hybrid_member_repeated), the chain of
# shared defining genes that the single-pass _merge_sets split (F10, fixed), the witness of the repaired finding
# FC05a (joint_core_wraps_assert: two hybrid groups with identical coordinates united, joint core connected across
# the origin although no member core crosses it, protoclusters still unassigned) and a variant of it in which the
# united candidate itself crosses the origin and a later candidate pushes it out of the bisect window (the
# unassigned protocluster is then found only by the walk of _find_cross_origin_interleaved: INTERLEAVED, not
# NEIGHBOURING)
CORPUS = [
    {"n": 12, "circular": True, "genes": [(0, [(2, 4, 1)], []), (1, [(5, 10, -1)], [1, 2])],
     "protos": [(0, [(5, 12, 1), (0, 4, 1)], [(5, 12, 1), (0, 4, 1)], 2),
                (1, [(5, 12, 1), (0, 4, 1)], [(5, 12, 1), (0, 4, 1)], 0),
                (2, [(5, 12, 1)], [(5, 12, 1)], 1)]},
    {"n": 400, "circular": False,
     "genes": [(0, [(100, 110, 1)], [2, 3]), (1, [(200, 210, 1)], [3, 5]), (2, [(300, 310, 1)], [1, 5])],
     "protos": [(0, [(0, 400, 1)], [(300, 310, 1)], 1), (1, [(50, 150, 1)], [(100, 110, 1)], 2),
                (2, [(80, 230, 1)], [(100, 210, 1)], 3), (3, [(190, 320, 1)], [(200, 310, 1)], 5)]},
    {"n": 72, "circular": True, "genes": [(0, [(51, 52, 1)], [1, 5]), (1, [(11, 12, 1)], [3, 4])],
     "protos": [(0, [(0, 71, 1)], [(51, 52, 1)], 5), (1, [(0, 71, 1)], [(11, 16, 1)], 3),
                (2, [(4, 12, 1)], [(7, 12, 1)], 4), (3, [(0, 68, 1)], [(50, 53, 1)], 0),
                (4, [(30, 58, 1)], [(50, 53, 1)], 2), (5, [(0, 68, 1)], [(51, 56, 1)], 1)]},
    {"n": 100, "circular": True,
     "genes": [(0, [(90, 92, 1)], [0, 1]), (1, [(5, 7, 1)], [2, 3]), (2, [(40, 42, 1)], [5, 6])],
     "protos": [(0, [(80, 100, 1), (0, 20, 1)], [(88, 95, 1)], 0), (1, [(80, 100, 1), (0, 20, 1)], [(89, 94, 1)], 1),
                (2, [(80, 100, 1), (0, 20, 1)], [(3, 10, 1)], 2), (3, [(80, 100, 1), (0, 20, 1)], [(4, 9, 1)], 3),
                (4, [(75, 100, 1)], [(95, 99, 1)], 4), (5, [(30, 50, 1)], [(38, 44, 1)], 5),
                (6, [(30, 50, 1)], [(39, 45, 1)], 6)]},
    # regression witnesses of the REPAIRED findings about the MEANING of the kinds (linear records; every clause
    # must hold on them now):
    # candidate_index_window, interleaved: hybrid {0,1} [0:1000] core [100:900], two short hybrids after it in sort
    # order, protocluster 6 whose core overlaps the first hybrid's core was looked up in candidates[bisect-1:] only
    {"n": 1200, "circular": False,
     "genes": [(0, [(100, 110, 1)], [0, 1]), (1, [(12, 14, 1)], [2, 3]), (2, [(32, 34, 1)], [4, 5])],
     "protos": [(0, [(0, 1000, 1)], [(100, 900, 1)], 0), (1, [(0, 1000, 1)], [(100, 120, 1)], 1),
                (2, [(10, 20, 1)], [(12, 14, 1)], 2), (3, [(10, 20, 1)], [(11, 15, 1)], 3),
                (4, [(30, 40, 1)], [(32, 34, 1)], 4), (5, [(30, 40, 1)], [(31, 35, 1)], 5),
                (6, [(880, 1100, 1)], [(890, 950, 1)], 6)]},
    # candidate_index_window, neighbouring: protocluster 6 [50:60] lies inside hybrid {2,3} [6:100] but only the
    # first candidate {0,1} and the one before the insertion point {4,5} were looked at
    {"n": 200, "circular": False,
     "genes": [(0, [(1, 3, 1)], [0, 1]), (1, [(30, 32, 1)], [2, 3]), (2, [(12, 14, 1)], [4, 5])],
     "protos": [(0, [(0, 5, 1)], [(1, 3, 1)], 0), (1, [(0, 5, 1)], [(1, 4, 1)], 1),
                (2, [(6, 100, 1)], [(30, 32, 1)], 2), (3, [(6, 100, 1)], [(29, 33, 1)], 3),
                (4, [(10, 20, 1)], [(12, 14, 1)], 4), (5, [(10, 20, 1)], [(11, 15, 1)], 5),
                (6, [(50, 60, 1)], [(52, 55, 1)], 6)]},
    # neighbouring_singles_not_linked: 4 [5:30] and 5 [25:50] overlap each other, each also overlaps a hybrid
    # ([0:10] and [45:60]); singles that hit a candidate were not compared with each other
    {"n": 200, "circular": False,
     "genes": [(0, [(2, 4, 1)], [0, 1]), (1, [(50, 52, 1)], [2, 3])],
     "protos": [(0, [(0, 10, 1)], [(2, 4, 1)], 0), (1, [(0, 10, 1)], [(1, 5, 1)], 1),
                (2, [(45, 60, 1)], [(50, 52, 1)], 2), (3, [(45, 60, 1)], [(49, 53, 1)], 3),
                (4, [(5, 30, 1)], [(12, 14, 1)], 4), (5, [(25, 50, 1)], [(31, 35, 1)], 5)]},
    # classes of protocluster: gene 0 carries CORE functions for the products of 0 (rule-based) and 1 (SIDELOADED, its
    # core holds the gene too: add_cds records it in the private set, the public definition_cdses stays empty); 0 and 1
    # share no defining gene: no chemical hybrid, INTERLEAVED {0,1}; 2 (sideloaded) and 3 without any gene: INTERLEAVED
    {"n": 4000, "circular": False, "genes": [(0, [(300, 400, 1)], [0, 1])], "side": [1, 2],
     "protos": [(0, [(50, 600, 1)], [(100, 500, 1)], 0), (1, [(200, 800, 1)], [(250, 700, 1)], 1),
                (2, [(2200, 2700, 1)], [(2250, 2600, 1)], 3), (3, [(2000, 2550, 1)], [(2100, 2500, 1)], 2)]},
    # circular, three chemical hybrids: X = {0,1} crosses the origin (sorts first, its .end is the end of its post-origin
    # part), the core of Y = {2,3} overlaps the pre-origin part of the core of X, Z = {4,5} is nested in the neighbourhood
    # of Y and sorts after it (Y is neither the first nor the last candidate): INTERLEAVED {0,1,2,3}
    {"n": 20000, "circular": True,
     "genes": [(0, [(19085, 19095, 1)], [4, 5]), (1, [(19310, 19390, 1)], [2, 3]), (2, [(19920, 19980, 1)], [0, 1])],
     "protos": [(0, [(19500, 20000, 1), (0, 400, 1)], [(19800, 20000, 1), (0, 100, 1)], 0),
                (1, [(19600, 20000, 1), (0, 500, 1)], [(19900, 20000, 1), (0, 200, 1)], 1),
                (2, [(19000, 19950, 1)], [(19300, 19850, 1)], 2), (3, [(18900, 19600, 1)], [(19200, 19400, 1)], 3),
                (4, [(19000, 19150, 1)], [(19050, 19100, 1)], 4), (5, [(19020, 19180, 1)], [(19080, 19140, 1)], 5),
                (6, [(18000, 19000, 1)], [(18100, 18200, 1)], 6), (7, [(9000, 11000, 1)], [(10000, 10100, 1)], 7)]},
]


# regression witness of the REPAIRED finding supply_order_same_key_groups: protoclusters 2 and 3 share coordinates and
# core, the two hybrid groups {0,2} and {1,3} both span [5:165]; before the repair supply order 2,3 gave a single for 1,
# supply order 3,2 a single for 0; `_ordered(protoclusters)` now gives a single for 0 in both orders
ORDER_WITNESS = ({"n": 165, "circular": False, "genes": [(0, [(25, 110, 1)], [3, 4]), (1, [(115, 160, 1)], [2, 7])],
                  "protos": [(0, [(105, 165, 1)], [(105, 160, 1)], 2), (1, [(25, 150, 1)], [(25, 110, 1)], 4),
                             (2, [(5, 165, 1)], [(20, 160, 1)], 7), (3, [(5, 165, 1)], [(20, 160, 1)], 3)]},
                 [0, 1, 2, 3], [0, 1, 3, 2])


def run(chk):
    if not chk.build_and_audit():
        return chk.finish(RULE)
    import time
    phases = {"build_and_audit": round(time.time() - chk.t0, 1)}
    t_phase = time.time()
    gen = Gen(chk.rng)
    rng = chk.rng
    total = 8400 if chk.tier == "quick" else 120000
    cases, impl_outs, specs = [], [], []
    skipped = 0

    def add(flat, out, spec_fn, sample):
        if spec_fn is not None and "config" in sample and cyclic_order(sample["config"], out):
            # CDSCollection.__lt__ is not a strict weak order here (a whole-record location is "less" than an
            # origin-crossing one by the containment shortcut and "greater" by the negative wrapped start):
            # the result of Python's sort then depends on the sort algorithm, which the model does not transcribe
            chk.count("not_compared_cyclic_lt_whole_record_vs_origin_crossing")
            return None
        cases.append(flat)
        impl_outs.append(out)
        if spec_fn is not None:
            specs.append((len(cases) - 1, [PROP, spec_fn] + flat[2:] + out))
        kinds = kinds_of(out)
        nontrivial = flat[1] == 3 or (len(sample.get("protos", [])) >= 2 and any(k != 0 for k in kinds))
        for k in kinds:
            chk.count("candidates_" + {0: "single", 1: "interleaved", 2: "neighbouring", 3: "hybrid"}[k])
        if out and out[0] == 1 and flat[1] != 3:
            chk.count("error_" + common.ERR_NAME.get(out[1], str(out[1])))
        chk.note_case(flat, nontrivial, sample)
        return len(cases) - 1

    order_pairs = []   # (case index a, case index b, exact?, config, [order a, order b]): outputs to be compared

    # regression witness of the repaired finding supply_order_same_key_groups, run first in two supply orders
    for order in ORDER_WITNESS[1:]:
        out, defs = impl_direct(ORDER_WITNESS[0], order)
        idx = add(flat_direct(ORDER_WITNESS[0], order, defs), out, 102,
                  {"function": 2, "config": ORDER_WITNESS[0], "order": order, "protos": ORDER_WITNESS[0]["protos"],
                   "implementation": out})
        if order is not ORDER_WITNESS[1]:
            order_pairs.append((idx - 1, idx, True, ORDER_WITNESS[0], list(ORDER_WITNESS[1:])))

    def ring_singles():
        """ CIRCULAR record without shared genes and without overlapping cores (no hybrid, no interleaved candidate):
            protocluster X with a wide extent over the origin (it sorts first), two to four small protoclusters inside
            the PRE-origin part of X's extent that do not overlap each other (they sort last), zero to two inside its
            post-origin part, and one to three that overlap nothing of X, between them in start order.  All of those
            that overlap X form ONE neighbouring group with it, wherever they sort. """
        grid = rng.choice([1, 5, 10])
        units = rng.randint(90, 150)
        n = units * grid

        def to_parts(iv):
            s, e = iv
            if s >= 0:
                return [(s * grid, e * grid, 1)]
            if e <= 0:
                return [((units + s) * grid, (units + e) * grid, 1)]
            return [((units + s) * grid, n, 1), (0, e * grid, 1)]
        pre, post = rng.randint(14, 30), rng.randint(3, 12)
        xc = rng.choice([-2, -1, 0, 1])
        protos = [[(-pre, post), (xc, xc + 1) if rng.random() < 0.6 else (-1, 1)]]
        pos = -pre + rng.choice([-2, -1, 0, 1])                 # the first small one may stick out of X's extent
        for _ in range(rng.choice([2, 2, 3, 4])):
            width = rng.choice([2, 3, 4])
            if pos + width >= xc - 1 or len(protos) >= MAX_PROTOS - 2:
                break
            protos.append([(pos, pos + width), (pos + 1, pos + 2)])
            pos += width + rng.choice([0, 1, 2])                # touching or apart, never overlapping
        pos = max(xc + 3, 2)
        for _ in range(rng.choice([0, 1, 2])):
            if pos + 2 >= post or len(protos) >= MAX_PROTOS - 1:
                break
            protos.append([(pos, pos + 2), (pos, pos + 1)])
            pos += 3
        pos = post + rng.choice([0, 1, 4])                       # touching X's end or clear of it: no overlap with X
        for _ in range(rng.choice([1, 1, 2, 3])):
            width = rng.choice([2, 3, 5])
            if pos + width >= units - pre - 4 or len(protos) >= MAX_PROTOS:
                break
            protos.append([(pos, pos + width), (pos + 1, pos + 2)])
            pos += width + rng.choice([1, 3, 10])
        order = list(range(len(protos)))
        rng.shuffle(order)
        renum = {old: new for new, old in enumerate(order)}
        out = sorted((renum[i], to_parts(ext), to_parts(core), renum[i]) for i, (ext, core) in enumerate(protos))
        return {"n": n, "circular": True, "genes": [], "protos": out}

    for i in range(total):
        r = rng.random()
        wrapping = r < 0.25
        if i < len(CORPUS):
            config = CORPUS[i]
        elif i % 12 == 10:
            config = ring_singles()
            chk.count("ring_singles_configurations")
        elif i % 3 == 2:
            config = gen.layout()
            chk.count("layout_configurations")
        elif i % 6 == 4:
            config = gen.ring()
            chk.count("ring_configurations")
        else:
            config = gen.config(circular=True if wrapping else None, wrapping=wrapping)
        if i >= len(CORPUS) and rng.random() < 0.3:
            config = gen.sideload(config)
        if config.get("side"):
            chk.count("configurations_with_sideloaded_protoclusters")
        nprot = len(config["protos"])
        chk.count(f"protoclusters_{nprot}")
        chk.count("circular" if config["circular"] else "linear")
        if any(len(p[1]) > 1 for p in config["protos"]):
            chk.count("with_origin_crossing_protocluster")
        orders = [list(range(nprot))]
        rng.shuffle(orders[0])
        if nprot <= 3 and rng.random() < 0.3:
            orders = [list(o) for o in itertools.permutations(range(nprot))]
        rec_idx, rec_order = None, None
        for order in orders:
            out, problem = impl_record(config, order)
            if out is None:
                skipped += 1
                chk.count("skipped_invalid_configuration")
                break
            idx = add(flat_record(config, order), out, 101, {"function": 1, "config": config, "order": order,
                                                               "protos": config["protos"], "implementation": out})
            if idx is not None and rec_idx is not None:
                order_pairs.append((rec_idx, idx, False, config, [rec_order, order]))
            rec_idx, rec_order = idx, order
        else:
            order = list(range(nprot))
            rng.shuffle(order)
            out, defs = impl_direct(config, order)
            if out is not None:
                idx = add(flat_direct(config, order, defs), out, 102, {"function": 2, "config": config, "order": order,
                                                                         "protos": config["protos"], "implementation": out})
                # order independence, observed on the implementation alone: the Record-level result (another supply
                # order) has the same candidates, and a second direct call on yet another order returns the same list
                if idx is not None and rec_idx is not None:
                    order_pairs.append((rec_idx, idx, False, config, [rec_order, order]))
                if idx is not None and i % 4 == 1 and nprot >= 2:
                    order2 = list(range(nprot))
                    rng.shuffle(order2)
                    out2, _ = impl_direct(config, order2)
                    idx2 = add(flat_direct(config, order2, defs), out2, 102,
                               {"function": 2, "config": config, "order": order2, "protos": config["protos"],
                                "implementation": out2})
                    if idx2 is not None:
                        order_pairs.append((idx, idx2, True, config, [order, order2]))
            if i % 4 == 0 and nprot >= 3:
                groups = []
                for _ in range(rng.randint(1, 7)):
                    groups.append(sorted(rng.sample(range(nprot), rng.choice([1, 2, 2, 2, 3]))))
                add(flat_merge(config, groups), impl_merge(config, groups), 103,
                    {"function": 3, "groups": groups})
                chk.count("merge_sets")
    chk.extra["skipped_invalid_configurations"] = skipped
    chk.extra["classes_of_protocluster (direct calls)"] = dict(STATS)

    phases["generate_and_run_implementation"] = round(time.time() - t_phase, 1)
    t_phase = time.time()
    model_outs = common.correspondence(chk, cases, impl_outs, spec_fn_offset=None, describe=describe)
    # the decidable specification on every implementation output
    verdicts = common.run_driver([s for _, s in specs])
    known = {f["class"]: f for f in common.load_known_findings("C05") if f.get("status") == "known"}
    # order independence observed on the implementation: same candidates for two supply orders (the identical list
    # for two direct calls).  Proved for every generated input (products are pairwise different:
    # C05_order_independent_prekeys).  The repaired finding supply_order_same_key_groups is only used as a label: two
    # protoclusters of the configuration have identical coordinates (the inputs on which sorted() alone kept the
    # supply order).  Nothing is suppressed.
    chk.extra["order_independence_pairs"] = len(order_pairs)
    chk.extra["order_independence_pairs_with_equal_coordinates"] = 0
    for idx_a, idx_b, exact, config, pair_orders in order_pairs:
        out_a, out_b = impl_outs[idx_a], impl_outs[idx_b]
        same = (out_a == out_b) if exact else (out_a[0] != 0 or out_b[0] != 0 or canon_cands(out_a) == canon_cands(out_b))
        coords = [tuple((a, b) for a, b, _ in p[1]) for p in config["protos"]]
        tie = len(set(coords)) < len(coords)
        if tie:
            chk.extra["order_independence_pairs_with_equal_coordinates"] += 1
        if same:
            continue
        chk.count("order_dependent_outputs")
        chk.violation("counterexample", "the candidates depend on the order in which the protoclusters were supplied"
                      + (" (class supply_order_same_key_groups, repaired in the code: the defect is back)" if tie else ""),
                      {"theorem_or_correspondence": "C05 order independence (observed on the implementation)",
                       "config": config, "orders": pair_orders, "outputs": [out_a, out_b],
                       "flat": cases[idx_b], "implementation": out_b, "model": model_outs[idx_b]})
    raised = 0
    base_names = ["every protocluster covered", "members are protoclusters of the record", "no repeated member",
                  "group sizes fit the kind", "location = connect_locations(members)", "unique coordinates+membership"]
    kind_names = ["every transitive group sharing defining genes lies in one chemical hybrid",
                  "every transitive group of overlapping cores lies in one interleaved (or hybrid) candidate",
                  "every transitive group of overlapping extents lies in one candidate",
                  "a neighbouring candidate is exactly one transitive group of overlapping extents",
                  "an interleaved candidate is connected by overlapping cores",
                  "a protocluster outside hybrid/interleaved candidates has its single (or a same-coordinate parent)",
                  "every chemical hybrid has two members sharing a defining gene (public definition_cdses)",
                  "every other member of a chemical hybrid has its core inside the joint core of a sharing group",
                  "a protocluster sharing with nobody whose core lies inside the joint core of a sharing group is a member of "
                  "the chemical hybrid of that group",
                  "every transitive group of hybrids/protoclusters with overlapping (joint) cores lies in one "
                  "interleaved (or hybrid) candidate, overlap on the ring"]
    clause_names = base_names + kind_names
    nverdict = 1 + len(clause_names)
    # class test of the repaired finding `joint_core_wraps_assert`, computed by the model (fn 11 / 12) for the
    # cases on which the implementation raised (labels a violation if the defect returns)
    # ... and for every circular case, to show that the class is exercised (it no longer raises)
    raised_idx = [idx for (idx, _c), verdict in zip(specs, verdicts)
                  if verdict == [2] or (cases[idx][1] == 1 and cases[idx][3] == 1) or (cases[idx][1] == 2 and cases[idx][2] == 1)]
    class_flags = dict(zip(raised_idx, common.run_driver([[PROP, cases[i][1] + 10] + cases[i][2:] for i in raised_idx])))
    chk.extra["cases_in_class_joint_core_wraps_assert"] = sum(1 for flag in class_flags.values() if flag == [1])
    # classes of the REPAIRED findings about the meaning of the kinds (fn 21 / 22), for the cases on which only kind
    # clauses fail: [the old bisect window / early break would change the model's result, the old restriction of the
    # single/single comparison to hit-less singles would change it, the model meets every clause]; labels only
    kind_idx = [idx for (idx, _c), verdict in zip(specs, verdicts)
                if len(verdict) == nverdict and verdict[0] == 0 and all(verdict[1:1 + len(base_names)])]
    kind_info = dict(zip(kind_idx, common.run_driver([[PROP, cases[i][1] + 20] + cases[i][2:] for i in kind_idx])))
    KIND_CLASSES = ["candidate_index_window", "neighbouring_singles_not_linked"]
    for (idx, _spec_case), verdict in zip(specs, verdicts):
        if cases[idx][1] == 3:
            # _merge_sets: the returned groups must be exactly the transitive groups of the supplied sets
            if verdict != [1]:
                chk.count("spec_failed: _merge_sets")
                chk.violation("counterexample", "_merge_sets does not return the transitive groups of the supplied sets "
                              "(disjoint, complete, nothing merged that is not linked by shared members)",
                              {"theorem_or_correspondence": "C05_merge_sets_components as a decidable check (fn 103)",
                               "flat": cases[idx], "implementation": impl_outs[idx], "model": model_outs[idx],
                               "input": describe(cases[idx]), "spec_verdict": verdict})
            continue
        if verdict and verdict[0] == 1 and len(verdict) == nverdict:
            continue
        if verdict == [2]:
            raised += 1
            # repaired finding: AssertionError (`assert core_group`) when two hybrid groups with the same coordinates
            # were united and the joint core is connected the short way across the origin.  Would be suppressed only if
            # the class were recorded as known again, the input is in the class, and implementation == model.
            in_class = class_flags.get(idx) == [1]
            if "joint_core_wraps_assert" in known and in_class \
                    and impl_outs[idx] == [1, common.ERR["AssertionError"]] and model_outs[idx] == impl_outs[idx]:
                chk.known(known["joint_core_wraps_assert"]["what_fails"])
                chk.count("known_joint_core_wraps_assert")
                continue
            chk.violation("counterexample", "candidate cluster formation raises on a valid set of protoclusters"
                          + (" (the input is in the class of the repaired finding joint_core_wraps_assert)" if in_class else ""),
                          {"theorem_or_correspondence": "C05 spec_ok (formation must cover every protocluster)",
                           "flat": cases[idx], "implementation": impl_outs[idx], "model": model_outs[idx],
                           "input": describe(cases[idx])})
            continue
        failed = [name for name, ok in zip(clause_names, verdict[1:]) if not ok] if len(verdict) == nverdict else ["undecodable"]
        chk.count("spec_failed: " + "; ".join(failed))
        # repaired findings about the meaning of interleaved / neighbouring (candidate_index_window,
        # neighbouring_singles_not_linked): never suppressed; if only kind clauses fail and the input is in the class
        # of one of them (the old code would give another result than the model here) the violation is labelled
        info = kind_info.get(idx)
        if info is not None and len(info) >= 3:
            in_classes = [name for name, flag in zip(KIND_CLASSES, info[:2]) if flag]
            if in_classes:
                chk.count("in_class_of_repaired_finding: " + "+".join(in_classes))
                failed = failed + ["(class " + "+".join(in_classes) + ", repaired in the code: the defect is back)"]
        # repaired finding: a hybrid whose joint core crosses the origin listed a contained protocluster twice.
        # Would be suppressed only if exactly that clause fails, the class is recorded as known again and
        # implementation == model.
        if failed == ["no repeated member"] and "hybrid_member_repeated" in known \
                and model_outs[idx] == impl_outs[idx] and crossing_hybrid_core(cases[idx], impl_outs[idx]):
            chk.known(known["hybrid_member_repeated"]["what_fails"])
            continue
        if failed == ["no repeated member"] and crossing_hybrid_core(cases[idx], impl_outs[idx]):
            failed = ["no repeated member (class hybrid_member_repeated, repaired in the code: the defect is back)"]
        chk.violation("counterexample", "implementation output violates the C05 specification: " + "; ".join(failed),
                      {"theorem_or_correspondence": "C05 spec_ok", "flat": cases[idx], "implementation": impl_outs[idx],
                       "model": model_outs[idx], "input": describe(cases[idx]), "spec_verdict": verdict,
                       "failed_clauses": failed, "class_info": info})
    chk.extra["spec_evaluated"] = len(specs)
    phases["model_and_specification"] = round(time.time() - t_phase, 1)
    t_phase = time.time()
    chk.extra["implementation_raised"] = raised
    chk.crosscheck_vm(cases, model_outs)
    phases["vm_compute_crosscheck"] = round(time.time() - t_phase, 1)
    chk.extra["phase_seconds"] = phases
    return chk.finish(RULE)


def replay(chk, path):
    doc = json.load(open(path))
    flat = doc["flat"]
    model = common.run_driver([flat])[0]
    print("model:", model, "recorded implementation:", doc.get("implementation"))
    if flat[1] in (1, 2) and doc.get("implementation"):
        print("spec verdict on the recorded implementation output:",
              common.run_driver([[PROP, flat[1] + 100] + flat[2:] + doc["implementation"]])[0])
    return 0 if model == doc.get("implementation") else 1
