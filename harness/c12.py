"""C12: per-region GenBank files are faithful, self-consistent extracts.

Two streams go through the same Coq model (fn 2 = helpers.write_to_genbank over the bio-level view: sequence, features
and the parent's annotations as nested dicts shared by reference):
 * synthetic: Bio SeqRecords with antiSMASH location objects and stand-in RegionData, written by the real
   region.helpers.write_to_genbank into a text handle and read back with SeqIO.parse (bulk correspondence);
 * real: secmet Records (genes, protoclusters -> candidate clusters, sub-regions, prepeptides, regions) on linear and
   circular sequences; every Region.write_to_genbank(file, record=bio) -> SeqIO.parse (compared with the model) ->
   Record.from_genbank (real reload, compared with the region's content on the implementation side); the bio record
   is shared between the regions of a record as in main.write_outputs.
The decidable specification (fn 102: sequence, features inside, numbering 1..k with consistent references,
motif/core locations inside, parent features unchanged, the three antiSMASH-Data entries, the file's whole structured
comment, parent annotations unchanged) is evaluated in Coq on every implementation output.
A third stream (implementation only) follows the real output path of antismash.main.write_outputs: to_biopython ->
add_antismash_comments -> region GenBank files -> summary GenBank; the summary written after the region files must be
the one written before them (in memory for every real record; through main.write_outputs itself for a sample)."""
import io
import json
import os
import shutil
import tempfile

import common
from common import err_code

PROP = 12
TYPES = {"region": 1, "cand_cluster": 2, "protocluster": 3, "proto_core": 4, "subregion": 5, "CDS_motif": 6,
         "CDS": 7, "gene": 8, "misc_feature": 9}
TYPE_NAMES = {v: k for k, v in TYPES.items()}
BASES = "ACGT"

FLAG_NAMES = ["sequence", "features_inside_extract", "numbering", "motif_and_core_locations_inside",
              "parent_unchanged", "annotations", "file_structured_comment", "parent_annotations_unchanged"]
NF = len(FLAG_NAMES)
FN = 2            # write_to_genbank_rec (features + annotations); the specification is FN + 100
# class of a failed flag whose guard is false (index = flag): none is left.  Every guard is constantly true since the
# repair of wrapped_region_partial_feature / wrapped_region_motif_offset / wrapped_region_parent_qualifiers /
# subregion_refs_not_renumbered / whole_ring_region / wrapped_region_numbering, except the numbering guard, which asks
# for distinct area numbers per type in the parent (always the case in a secmet Record: they are list positions; only
# synthetic 'chaos' cases break it, and those are not decided).  The two classes still recorded are recognised by the
# message and the shape of the case in decide(): multi_exon_spans_extract (a refusal of the loader) and
# whole_ring_cut_in_intron (a gene missing after the reload of a whole-ring region whose cut point lies in its intron)
CLASS_OF_FLAG = {}


# ------------------------------------------------------------------ encoding

def strand_code(strand):
    return 2 if strand is None else int(strand)


def loc_parts(location):
    return [(int(p.start), int(p.end), strand_code(p.strand)) for p in location.parts]


def str_parts(text):
    from antismash.common.secmet.locations import location_from_string
    return loc_parts(location_from_string(text))


def enc_loc(parts):
    out = [len(parts)]
    for part in parts:
        out += list(part)
    return out


def enc_opt_loc(parts):
    return [0] if parts is None else [1] + enc_loc(parts)


def feat_tuple(feature, tag_of):
    """ the model's view of a Bio SeqFeature """
    kind = TYPES.get(feature.type, 0)
    quals = feature.qualifiers

    def ints(key):
        return [int(x) for x in quals.get(key, [])]

    def sloc(key):
        vals = quals.get(key)
        return str_parts(vals[0]) if vals else None
    q1, q2, l1, l2 = [], [], None, None
    if kind == 1:
        q1, q2 = ints("candidate_cluster_numbers"), ints("subregion_numbers")
    elif kind == 2:
        q1, q2 = ints("candidate_cluster_number"), ints("protoclusters")
    elif kind == 3:
        q1, l1 = ints("protocluster_number"), sloc("core_location")
    elif kind == 4:
        q1 = ints("protocluster_number")
    elif kind == 5:
        q1 = ints("subregion_number")
    elif kind == 6:
        l1, l2 = sloc("leader_location"), sloc("tail_location")
    return (kind, tag_of(feature), loc_parts(feature.location), q1, q2, l1, l2)


def enc_feat(ft):
    kind, tag, parts, q1, q2, l1, l2 = ft
    return [kind, tag] + enc_loc(parts) + [len(q1)] + q1 + [len(q2)] + q2 + enc_opt_loc(l1) + enc_opt_loc(l2)


def enc_feats(fts):
    out = [len(fts)]
    for ft in fts:
        out += enc_feat(ft)
    return out


def enc_region(start, end, cands, subs):
    out = [start, end, len(cands)]
    for num, protos in cands:
        out += [num, len(protos)]
        for pnum, core in protos:
            out += [pnum] + enc_loc(core)
    return out + [len(subs)] + list(subs)


def enc_seq(text):
    return [len(text)] + [BASES.index(c) if c in BASES else 4 for c in text.upper()]


def enc_output(seq_text, fts, annot, parent_fts):
    return [0] + enc_seq(seq_text) + enc_feats(fts) + list(annot) + enc_feats(parent_fts)


def read_annotations(bio):
    comment = bio.annotations.get("structured_comment", {}).get("antiSMASH-Data", {})
    note = comment.get("NOTE", "")
    if note == "This is a single region extracted from a cross-origin section of a larger, circular record.":
        kind = 1
    elif note == "This is a single region extracted from a larger record!":
        kind = 0
    else:
        kind = -1
    try:
        return [kind, int(comment.get("Orig. start", -1)), int(comment.get("Orig. end", -1))]
    except ValueError:
        return [kind, -2, -2]


NOTE_TEXTS = {"This is a single region extracted from a larger record!": 0,
              "This is a single region extracted from a cross-origin section of a larger, circular record.": 1}
FIXED_KEYS = {"structured_comment": 1, "antiSMASH-Data": 2, "NOTE": 3, "Orig. start": 4, "Orig. end": 5}


class Interner:
    """ strings of one case -> codes >= 10 (first occurrence first); the five keys the code writes are fixed """
    def __init__(self):
        self.codes = {}

    def key(self, text):
        if text in FIXED_KEYS:
            return FIXED_KEYS[text]
        return self.codes.setdefault("k:" + text, 10 + len(self.codes))

    def opaque(self, text):
        return self.codes.setdefault("v:" + text, 10 + len(self.codes))

    def value(self, text):
        """ a string of a structured-comment table -> (tag, n) """
        if text in NOTE_TEXTS:
            return [1, NOTE_TEXTS[text]]
        try:
            if str(int(text)) == text:
                return [2, int(text)]
        except ValueError:
            pass
        return [0, self.opaque(text)]


def is_structured_comment(value):
    return isinstance(value, dict) and all(
        isinstance(k, str) and isinstance(t, dict) and all(isinstance(a, str) and isinstance(b, str) for a, b in t.items())
        for k, t in value.items())


def enc_sc(comment, interner):
    out = [len(comment)]
    for name, table in comment.items():
        out += [interner.key(name), len(table)]
        for key, val in table.items():
            out += [interner.key(key)] + interner.value(val)
    return out


def enc_annots(annotations, interner):
    """ the model's view of SeqRecord.annotations: an ordered dict; a dict of dicts of strings is a structured
        comment, every other value is opaque (identified by its repr) """
    out = [len(annotations)]
    for key, value in annotations.items():
        out.append(interner.key(key))
        if is_structured_comment(value):
            out += [1] + enc_sc(value, interner)
        else:
            out += [0, interner.opaque(repr(value))]
    return out


def enc_file_sc(bio, interner):
    """ the structured comment read back from a written file (always present: the code adds antiSMASH-Data) """
    comment = bio.annotations.get("structured_comment")
    if comment is None or not is_structured_comment(dict(comment)):
        return [0]
    return [1] + enc_sc({k: dict(v) for k, v in comment.items()}, interner)


# ------------------------------------------------------------------ synthetic stream

class _Proto:
    def __init__(self, number, core):
        self.number = number
        self.core_location = core

    def get_protocluster_number(self):
        return self.number


class _Cand:
    def __init__(self, number, protoclusters):
        self.number = number
        self.protoclusters = tuple(protoclusters)

    def get_candidate_cluster_number(self):
        return self.number


class _Sub:
    def __init__(self, number):
        self.number = number

    def get_subregion_number(self):
        return self.number


def mk_location(parts):
    from antismash.common.secmet.locations import FeatureLocation, CompoundLocation
    locs = [FeatureLocation(s, e, st) for s, e, st in parts]
    return locs[0] if len(locs) == 1 else CompoundLocation(locs)


def loc_str(parts):
    return str(mk_location(parts))


def tag_by_locus(feature):
    vals = feature.qualifiers.get("locus_tag")
    if vals and vals[0].startswith("t") and vals[0][1:].isdigit():
        return int(vals[0][1:])
    return 0


class Synth:
    """ generator of bio-level records with a region description """
    def __init__(self, rng):
        self.rng = rng

    def span_parts(self, n, s, e, strand):
        """ [s, e) on the ring as one or two parts in transcription order """
        if s < e:
            return [(s, e, strand)]
        if strand == -1:
            return [(0, e, strand), (s, n, strand)]
        return [(s, n, strand), (0, e, strand)]

    def inside_span(self, n, start, end, crossing, minlen=1):
        """ a (s, e) span inside the region (ring coordinates; may cross the origin when the region does),
            biased to the boundaries """
        rng = self.rng
        length = (n - start + end) if crossing else (end - start)
        r = rng.random()
        if r < 0.15:
            a = 0
        else:
            a = rng.randint(0, max(0, length - minlen))
        if rng.random() < 0.15:
            b = length
        else:
            b = rng.randint(min(length, a + minlen), length)
        if b <= a:
            b = min(length, a + 1)
            if b <= a:
                a = max(0, b - 1)
        s = (start + a) % n
        e = (start + b - 1) % n + 1
        return s, e

    def exons(self, s, e, strand):
        """ splits a non-crossing span into 1-3 exons in transcription order """
        rng = self.rng
        if e - s < 6 or rng.random() < 0.6:
            return [(s, e, strand)]
        cuts = sorted(rng.sample(range(s + 1, e), min(e - s - 1, rng.choice([2, 2, 4]))))
        parts = [(s, cuts[0], strand)]
        for i in range(1, len(cuts) - 1, 2):
            parts.append((cuts[i], cuts[i + 1], strand))
        if len(cuts) % 2 == 0:
            parts.append((cuts[-1], e, strand))
        if rng.random() < 0.15 and len(parts) >= 2:
            # adjacent exons: merged by offset_location / build_location_from_others in some branches
            s0, e0, _ = parts[0]
            parts[1] = (e0, parts[1][1], strand)
        if strand == -1:
            parts.reverse()
        return parts

    def feature_location(self, n, start, end, crossing, circular):
        """ location of a generic feature: mostly inside the region, sometimes on its edge, partly or fully outside """
        rng = self.rng
        strand = rng.choice([1, 1, -1])
        r = rng.random()
        if r < 0.7:
            s, e = self.inside_span(n, start, end, crossing)
        elif r < 0.85:
            # around a region boundary
            edge = rng.choice([start, end])
            s = (edge - rng.randint(0, 6)) % n
            e = (edge + rng.randint(0, 6) - 1) % n + 1
            if s == e:
                e = s % n + 1
        else:
            s = rng.randint(0, n - 1)
            e = rng.randint(1, n)
            if s == e:
                e = s % n + 1
        if s >= e and not circular:
            s, e = (e - 1, s + 1) if e - 1 < s + 1 else (0, 1)
            s, e = max(0, min(s, n - 1)), min(n, max(e, 1))
            if s >= e:
                s, e = 0, 1
        if s < e:
            return self.exons(s, e, strand)
        # crossing the origin: each half may be split further
        if rng.random() < 0.7:
            return self.span_parts(n, s, e, strand)
        first = self.exons(s, n, strand)
        second = self.exons(0, e, strand)
        return first + second if strand == 1 else second + first

    def case(self):
        rng = self.rng
        n = rng.choice([12, 20, 30, 60, 100, 150, 300])
        circular = rng.random() < 0.6
        crossing = circular and rng.random() < 0.6
        if crossing and rng.random() < 0.12:
            # the whole ring, cut at start (start == end): whole_ring_region, repaired
            start = end = rng.randint(1, n - 1)
        elif crossing:
            end = rng.randint(1, n - 2)
            start = rng.randint(end + 1, n - 1)
        else:
            start = rng.choice([0, 0, rng.randint(0, n - 2), rng.randint(0, n - 2)])
            end = rng.choice([n, rng.randint(start + 1, n), rng.randint(start + 1, n)])
        chaos = rng.random() < 0.15
        seq = "".join(rng.choice(BASES) for _ in range(n))
        feats = []   # (type name, parts, qualifiers)

        # the region's areas
        k = rng.choice([0, 1, 1, 2, 2, 3])
        base_cc = rng.choice([1, 1, 2, 3, 7])
        base_pc = rng.choice([1, 1, 2, 4, 9])
        cand_numbers = [base_cc + i for i in range(k)]
        if k >= 2 and rng.random() < 0.15:
            cand_numbers[-1] += rng.choice([1, 2])          # a gap (wrapped_region_numbering shape)
        if k >= 2 and rng.random() < 0.2:
            rng.shuffle(cand_numbers)
        cands = []
        pnum = base_pc
        shared = None
        for num in cand_numbers:
            protos = []
            for _ in range(rng.choice([1, 1, 2])):
                cs, ce = self.inside_span(n, start, end, crossing)
                core = self.span_parts(n, cs, ce, 1)
                if shared is not None and rng.random() < 0.3:
                    protos.append(shared)                   # a protocluster in two candidates
                    continue
                if rng.random() < 0.1 and k >= 2:
                    pnum += 1                               # gap in protocluster numbers
                protos.append((pnum, core))
                shared = (pnum, core)
                pnum += 1
            cands.append((num, protos))
        nsubs = rng.choice([0, 0, 0, 1, 2])
        base_sub = rng.choice([1, 1, 2, 5])
        subs = [base_sub + i for i in range(nsubs)]
        if nsubs == 2 and rng.random() < 0.2:
            subs[1] += 1
        if k == 0 and nsubs == 0 and not chaos:
            subs = [base_sub]
            nsubs = 1

        region_parts = self.span_parts(n, start, end % n if end == n and crossing else end, 1)
        quals = {"candidate_cluster_numbers": [str(c) for c in cand_numbers], "subregion_numbers": [str(s) for s in subs],
                 "region_number": [str(rng.randint(1, 4))]}
        if not cand_numbers:
            del quals["candidate_cluster_numbers"]
        if not subs:
            del quals["subregion_numbers"]
        feats.append(("region", region_parts, quals))
        seen = set()
        for num, protos in cands:
            spans = []
            for pn, core in protos:
                if pn in seen:
                    continue
                seen.add(pn)
                # protocluster extent: the core, widened inside the region where that is simple
                feats.append(("protocluster", core, {"protocluster_number": [str(pn)], "core_location": [loc_str(core)],
                                                     "product": ["p"]}))
                feats.append(("proto_core", core, {"protocluster_number": [str(pn)], "product": ["p"]}))
                spans.append(core)
            feats.append(("cand_cluster", region_parts if rng.random() < 0.5 or not spans else spans[0],
                          {"candidate_cluster_number": [str(num)], "protoclusters": [str(p[0]) for p in protos],
                           "kind": ["single"]}))
        for sub in subs:
            s, e = self.inside_span(n, start, end, crossing)
            feats.append(("subregion", self.span_parts(n, s, e, 1), {"subregion_number": [str(sub)], "label": ["x"]}))

        # genes, motifs, other features
        for _ in range(rng.choice([1, 2, 3, 4, 6])):
            parts = self.feature_location(n, start, end, crossing, circular)
            r = rng.random()
            if r < 0.6:
                feats.append((rng.choice(["CDS", "CDS", "gene", "misc_feature", "aSDomain"]), parts, {}))
            else:
                quals = {"prepeptide": ["core"]}
                strand = parts[0][2]
                lo = min(p[0] for p in parts)
                hi = max(p[1] for p in parts)
                if rng.random() < 0.8:
                    quals["leader_location"] = [loc_str(self.motif_sub(n, lo, hi, strand))]
                if rng.random() < 0.6:
                    quals["tail_location"] = [loc_str(self.motif_sub(n, lo, hi, strand))]
                feats.append(("CDS_motif", parts, quals))

        if chaos:
            # things the public API would not build: references to areas of other regions, unknown protoclusters
            for _ in range(rng.choice([1, 2])):
                r = rng.random()
                parts = self.feature_location(n, start, end, crossing, circular)
                if r < 0.3:
                    feats.append(("protocluster", parts, {"protocluster_number": [str(rng.randint(1, 12))],
                                                          "core_location": [loc_str(parts)]}))
                elif r < 0.5:
                    feats.append(("proto_core", parts, {"protocluster_number": [str(rng.randint(1, 12))]}))
                elif r < 0.7:
                    feats.append(("cand_cluster", parts, {"candidate_cluster_number": [str(rng.randint(1, 9))],
                                                          "protoclusters": [str(rng.randint(1, 9))]}))
                elif r < 0.85:
                    feats.append(("subregion", parts, {"subregion_number": [str(rng.randint(1, 9))]}))
                else:
                    feats.append(("region", parts, {"candidate_cluster_numbers": [str(rng.randint(1, 9))]}))
        order = rng.random()
        if order < 0.5:
            feats.sort(key=lambda f: (min(p[0] for p in f[1]), -max(p[1] for p in f[1])))
        elif order < 0.8:
            rng.shuffle(feats)
        return {"n": n, "circular": circular, "start": start, "end": end, "seq": seq, "feats": feats,
                "cands": cands, "subs": subs, "consistent": not chaos, "annotations": parent_annotations(rng)}

    def motif_sub(self, n, lo, hi, strand):
        rng = self.rng
        s = rng.randint(lo, max(lo, hi - 1))
        e = rng.randint(s + 1, max(s + 1, hi))
        r = rng.random()
        if r < 0.25 and e - s >= 2:
            mid = rng.randint(s + 1, e - 1)
            parts = [(s, mid, strand), (mid, e, strand)]        # adjacent: merged by build_location_from_others
            return parts
        if r < 0.4 and e - s >= 3:
            a = rng.randint(s + 1, e - 2)
            b = rng.randint(a + 1, e - 1)
            parts = [(s, a, strand), (b, e, strand)]
            return parts if strand == 1 else parts[::-1]
        return [(s, e, strand)]


def parent_annotations(rng, allow_missing=True):
    """ extra annotations of the parent SeqRecord, in insertion order: what a GenBank parser, add_antismash_comments
        (Version, Run date, Original ID, the --start/--end NOTE) or an earlier antiSMASH run (a region file used as
        input: NOTE, Orig. start, Orig. end already there) leave behind """
    annotations = {}
    if rng.random() < 0.5:
        annotations["source"] = "Streptomyces sp."
    if rng.random() < 0.3:
        annotations["taxonomy"] = ["Bacteria", "Actinomycetota"]
    r = rng.random()
    if allow_missing and r < 0.25:
        pass                                        # no structured comment at all
    elif allow_missing and r < 0.3:
        annotations["structured_comment"] = {}      # ... or an empty one
    else:
        comment = {}
        if rng.random() < 0.3:
            comment["Genome-Assembly-Data"] = {"Assembly Method": "SPAdes v. 3.15", "Coverage": str(rng.randint(5, 90))}
        r = rng.random()
        if allow_missing and r < 0.1:
            pass                                    # structured comments, but none from antiSMASH
        elif allow_missing and r < 0.15:
            comment["antiSMASH-Data"] = {}
        else:
            table = {"Version": rng.choice(["7.1.0", "8.0.0-abc"]), "Run date": "2026-01-0%d 10:00:00" % rng.randint(1, 9)}
            if rng.random() < 0.3:
                table["Original ID"] = "some_long_record_identifier_%d" % rng.randint(1, 9)
            r = rng.random()
            if r < 0.25:
                table.update({"NOTE": "This is an extract from the original record!",
                              "Starting at": str(rng.randint(1, 50)), "Ending at": str(rng.randint(60, 900))})
            elif r < 0.5:
                # an earlier region file as input
                table["NOTE"] = rng.choice(list(NOTE_TEXTS))
                if rng.random() < 0.5:
                    table["Orig. end"] = str(rng.randint(1, 300))
                table["Orig. start"] = str(rng.randint(0, 300))
                if rng.random() < 0.5:
                    table["Orig. end"] = str(rng.randint(1, 300))
            if rng.random() < 0.2:
                items = list(table.items())
                rng.shuffle(items)
                table = dict(items)
            comment["antiSMASH-Data"] = table
        if rng.random() < 0.2:
            comment["FluData"] = {"serotype": "x"}
        annotations["structured_comment"] = comment
    if rng.random() < 0.3:
        annotations["organism"] = "Streptomyces sp."
    return annotations


def deep_plain(value):
    """ an independent plain copy of an annotations value (dicts and lists rebuilt, strings shared) """
    if isinstance(value, dict):
        return {k: deep_plain(v) for k, v in value.items()}
    if isinstance(value, list):
        return [deep_plain(v) for v in value]
    return value


def build_bio(case):
    from Bio.Seq import Seq
    from Bio.SeqFeature import SeqFeature
    from Bio.SeqRecord import SeqRecord
    bio = SeqRecord(Seq(case["seq"]), id="rec", name="rec", description="d")
    bio.annotations["molecule_type"] = "DNA"
    bio.annotations["topology"] = "circular" if case["circular"] else "linear"
    for key, value in case.get("annotations", {}).items():
        bio.annotations[key] = deep_plain(value)
    for idx, (kind, parts, quals) in enumerate(case["feats"]):
        feature = SeqFeature(mk_location(parts), type=kind)
        for key, val in quals.items():
            feature.qualifiers[key] = list(val)
        feature.qualifiers["locus_tag"] = [f"t{idx + 1}"]
        bio.features.append(feature)
    return bio


def synth_region_data(case):
    from antismash.common.secmet.features.region.helpers import RegionData
    protos = {}
    cands = []
    for num, plist in case["cands"]:
        objs = []
        for pn, core in plist:
            if pn not in protos:
                protos[pn] = _Proto(pn, mk_location(core))
            objs.append(protos[pn])
        cands.append(_Cand(num, objs))
    return RegionData(start=case["start"], end=case["end"], candidate_clusters=tuple(cands),
                      subregions=tuple(_Sub(s) for s in case["subs"]))


def run_synth(case):
    """ -> (flat case, implementation output) """
    from Bio import SeqIO
    from antismash.common.secmet.features.region import helpers
    bio = build_bio(case)
    interner = Interner()
    before = [feat_tuple(f, tag_by_locus) for f in bio.features]
    flat = [PROP, FN] + enc_region(case["start"], case["end"], case["cands"], case["subs"]) + enc_seq(case["seq"]) \
        + enc_feats(before) + enc_annots(bio.annotations, interner)
    data = synth_region_data(case)
    handle = io.StringIO()
    try:
        helpers.write_to_genbank(data, bio, handle)
    except Exception as exc:  # pylint: disable=broad-except
        return flat, [1, err_code(exc)]
    handle.seek(0)
    parsed = list(SeqIO.parse(handle, "genbank"))
    assert len(parsed) == 1
    out = enc_output(str(parsed[0].seq), [feat_tuple(f, tag_by_locus) for f in parsed[0].features],
                     read_annotations(parsed[0]), [feat_tuple(f, tag_by_locus) for f in bio.features]) \
        + enc_file_sc(parsed[0], interner) + [1] + enc_annots(bio.annotations, interner)
    return flat, out


# ------------------------------------------------------------------ real records

class RealGen:
    def __init__(self, rng):
        self.rng = rng

    def record(self):
        """ description of a record: genes, protoclusters, sub-regions, prepeptides """
        rng = self.rng
        n = rng.choice([600, 900, 1500, 3000])
        circular = rng.random() < 0.6
        genes = []
        pos = rng.randint(0, 40)
        while pos < n - 40 and len(genes) < 16:
            length = 3 * rng.randint(5, 30)
            if pos + length > n:
                break
            strand = rng.choice([1, -1])
            parts = [(pos, pos + length, strand)]
            if length >= 30 and rng.random() < 0.2:
                # two exons, total length a multiple of three
                cut = pos + 3 * rng.randint(2, length // 3 - 2)
                gap = rng.randint(1, 20)
                parts = [(pos, cut, strand), (cut + gap, pos + length + gap, strand)]
                if parts[-1][1] > n:
                    parts = [(pos, pos + length, strand)]
                elif strand == -1:
                    parts.reverse()
            genes.append(parts)
            pos = max(p[1] for p in parts) + rng.choice([0, 1, 5, 20, 60, 150])
        cross_gene = None
        if circular and genes and rng.random() < 0.4:
            first_start = min(p[0] for p in genes[0])
            last_end = max(max(p[1] for p in g) for g in genes)
            a = rng.randint(0, min(first_start, 30))
            b = rng.randint(0, min(n - last_end, 30))
            total = a + b
            total -= total % 3
            if total >= 9 and a >= 1 and n - last_end >= 1:
                b = total - a
                if 1 <= b <= n - last_end:
                    strand = rng.choice([1, -1])
                    cross_gene = [(n - b, n, strand), (0, a, strand)] if strand == 1 else [(0, a, strand), (n - b, n, strand)]
        if cross_gene:
            genes.append(cross_gene)
        return n, circular, genes

    def areas(self, n, circular, genes):
        """ protoclusters as (core (s, e), extent (s, e), product) and sub-regions (s, e), ring spans """
        rng = self.rng
        protos, subs = [], []
        spans = [(min(p[0] for p in g), max(p[1] for p in g)) for g in genes if not (len(g) > 1 and g[0][0] == 0 and g[-1][1] == n)
                 and not (len(g) > 1 and g[-1][0] == 0 and g[0][1] == n)]
        if not spans:
            return protos, subs
        for i in range(rng.choice([1, 2, 2, 3, 4, 5])):
            j = rng.randrange(len(spans))
            k = min(len(spans) - 1, j + rng.choice([0, 0, 1, 2]))
            cs, ce = spans[j][0], spans[k][1]
            ext = rng.choice([0, 5, 20, 60, 200])
            s, e = cs - ext, ce + ext
            if circular and rng.random() < 0.7:
                if e - s >= n:
                    s, e = cs, ce
                s, e = s % n, (e - 1) % n + 1
            else:
                s, e = max(0, s), min(n, e)
            protos.append(((cs, ce), (s, e), f"prod{i % 3}"))
        if circular and rng.random() < 0.35:
            # a protocluster whose core itself crosses the origin: last gene .. first gene
            cs, ce = spans[-1][0], spans[0][1]
            if ce < cs:
                ext = rng.choice([0, 10, 40])
                s, e = cs - ext, ce + ext
                if s > e + 1:
                    protos.append(((cs, ce), (s, e), "prodx"))
        if circular and rng.random() < 0.15:
            # a protocluster whose extent is the whole ring, cut just before its core (whole_ring_region, repaired)
            j = rng.randrange(len(spans))
            k = min(len(spans) - 1, j + rng.choice([0, 1, 2]))
            s = spans[j][0] - rng.choice([0, 5, 20])
            if s > 0:
                protos.append(((spans[j][0], spans[k][1]), (s, s), "prodw"))
        for _ in range(rng.choice([0, 0, 1, 1, 2])):
            j = rng.randrange(len(spans))
            k = min(len(spans) - 1, j + rng.choice([0, 1]))
            s = max(0, spans[j][0] - rng.choice([0, 3, 30]))
            e = min(n, spans[k][1] + rng.choice([0, 3, 30]))
            subs.append((s, e))
        return protos, subs


def ring_loc(n, s, e, strand=1):
    from antismash.common.secmet.locations import FeatureLocation, CompoundLocation
    if s < e:
        return FeatureLocation(s, e, strand)
    return CompoundLocation([FeatureLocation(s, n, strand), FeatureLocation(0, e, strand)])


def build_real(peps, n, circular, genes, protos, subs, seq):
    from antismash.common.secmet import Record
    from antismash.common.secmet.features import Protocluster, SubRegion, Prepeptide
    from antismash.common.secmet.test.helpers import DummyCDS
    record = Record(seq)
    record.id = "rec"
    record.name = "rec"
    record.add_annotation("topology", "circular" if circular else "linear")
    record.add_annotation("molecule_type", "DNA")
    peptides = 0
    for i, parts in enumerate(genes):
        location = mk_location(parts)
        aa = sum(e - s for s, e, _ in parts) // 3
        record.add_cds_feature(DummyCDS(location=location, locus_tag=f"t{i + 1}", translation="M" * aa))
    for (cs, ce), (s, e), product in protos:
        record.add_protocluster(Protocluster(ring_loc(n, cs, ce), ring_loc(n, s, e), tool="t", product=product, cutoff=1,
                                             neighbourhood_range=0, detection_rule="r"))
    for s, e in subs:
        record.add_subregion(SubRegion(ring_loc(n, s, e), tool="x", label=f"s{s}"))
    record.create_candidate_clusters()
    record.create_regions()
    region_spans = [loc_parts(region.location) for region in record.get_regions()]
    for i, parts in enumerate(genes):
        location = mk_location(parts)
        aa = sum(e - s for s, e, _ in parts) // 3
        crossing = len(parts) > 1 and location.crosses_origin()
        # prepeptides are annotated on genes of a region (a gene straddling a region boundary never carries one);
        # origin-crossing genes are excluded: their sub-locations are the recorded C09 finding F14
        inside = any(all(any(rs <= s and e <= re_ for rs, re_, _ in rparts) for s, e, _ in parts) for rparts in region_spans)
        if i in peps and aa >= 6 and not crossing and inside:
            lead, tail = peps[i]
            core = aa - lead - tail
            record.add_cds_motif(Prepeptide(location, "lanthipeptide", "C" * core, f"t{i + 1}", "lanthi",
                                            leader="L" * lead, tail="T" * tail))
            peptides += 1
    return record, peptides


def geometrically_inside(inner, outer):
    """ every part of inner lies in one part of outer (independent of the implementation's containment test) """
    return all(any(int(o.start) <= int(p.start) and int(p.end) <= int(o.end) for o in outer.parts) for p in inner.parts)


def region_content(record, region):
    """ what a reload must find again, in coordinates-free form """
    seq = record.seq

    def bases(feature):
        return str(feature.location.extract(seq))
    content = {
        "cds": sorted((c.get_name(), bases(c), c.translation) for c in record.get_cds_features()
                      if geometrically_inside(c.location, region.location)),
        "protoclusters": sorted((p.product, bases(p), str(p.core_location.extract(seq))) for p in region.get_unique_protoclusters()),
        "candidates": sorted((str(c.kind), bases(c), tuple(sorted(p.product for p in c.protoclusters)))
                             for c in region.candidate_clusters),
        "subregions": sorted((s.label, bases(s)) for s in region.subregions),
        "prepeptides": sorted((m.get_name(), m.leader, m.core, m.tail, bases(m)) for m in record.get_cds_motifs()
                              if hasattr(m, "core") and geometrically_inside(m.location, region.location)),
    }
    return content


def reload_check(record, region, path):
    """ real reload of the written file; returns None or the description of the first difference """
    from antismash.common.secmet import Record
    expected_seq = str(region.location.extract(record.seq))
    try:
        loaded = Record.from_genbank(path)
    except Exception as exc:  # pylint: disable=broad-except
        return f"reload raised {type(exc).__name__}: {str(exc)[:120]}"
    if len(loaded) != 1:
        return f"{len(loaded)} records in the file"
    new = loaded[0]
    if str(new.seq) != expected_seq:
        return "sequence of the reloaded record differs from the region's bases"
    regions = new.get_regions()
    if len(regions) != 1:
        return f"reloaded record has {len(regions)} regions"
    if (int(regions[0].location.start), int(regions[0].location.end)) != (0, len(expected_seq)) \
            or len(regions[0].location.parts) != 1:
        return f"reloaded region is {regions[0].location}, extract has {len(expected_seq)} bases"
    want = region_content(record, region)
    got = region_content(new, regions[0])
    for key in want:
        if want[key] != got[key]:
            return f"{key} differ after reload: expected {want[key]!r:.300}, found {got[key]!r:.300}"
    if len(new.get_cds_features()) != len(want["cds"]):
        return "reloaded record has genes outside its region"
    return None


def tag_real(feature):
    return tag_by_locus(feature)


def run_real_region(record, region, bio, tmp):
    """ -> (flat, impl output, reload verdict or None when the write failed) """
    from Bio import SeqIO
    interner = Interner()
    before = [feat_tuple(f, tag_real) for f in bio.features]
    cands = [(cc.get_candidate_cluster_number(),
              [(p.get_protocluster_number(), loc_parts(p.core_location)) for p in cc.protoclusters])
             for cc in region.candidate_clusters]
    subs = [s.get_subregion_number() for s in region.subregions]
    flat = [PROP, FN] + enc_region(int(region.start), int(region.end), cands, subs) + enc_seq(str(record.seq)) \
        + enc_feats(before) + enc_annots(bio.annotations, interner)
    path = os.path.join(tmp, f"r{region.get_region_number()}.gbk")
    try:
        region.write_to_genbank(filename=path, record=bio)
    except Exception as exc:  # pylint: disable=broad-except
        return flat, [1, err_code(exc)], None
    parsed = list(SeqIO.parse(path, "genbank"))
    assert len(parsed) == 1
    out = enc_output(str(parsed[0].seq), [feat_tuple(f, tag_real) for f in parsed[0].features],
                     read_annotations(parsed[0]), [feat_tuple(f, tag_real) for f in bio.features]) \
        + enc_file_sc(parsed[0], interner) + [1] + enc_annots(bio.annotations, interner)
    return flat, out, reload_check(record, region, path)


# ------------------------------------------------------------------ the real output path (main.write_outputs)

def genbank_text(bio):
    from Bio import SeqIO
    handle = io.StringIO()
    SeqIO.write([bio], handle, "genbank")
    return handle.getvalue()


def output_options(rng, n, **extra):
    """ the options add_antismash_comments / write_outputs read; --start/--end in one run out of five """
    from types import SimpleNamespace
    start, end = -1, -1
    if rng.random() < 0.2:
        start, end = rng.choice([(1, n), (-1, n), (1, -1), (5, n - 3)])
    return SimpleNamespace(version=rng.choice(["7.1.0", "8.dev-abc123"]), start=start, end=end, **extra)


def start_output_path(record, input_comment, original_id, options):
    """ the first half of main.write_outputs for one Record -> (bio record, summary GenBank text, annotations) """
    from antismash.main import add_antismash_comments
    if input_comment is not None:
        record.annotations["structured_comment"] = deep_plain(input_comment)
    if original_id:
        record.original_id = original_id
    bio = record.to_biopython()
    add_antismash_comments([(record, bio)], options)
    return bio, genbank_text(bio), deep_plain(dict(bio.annotations))


def first_difference(a, b):
    la, lb = a.splitlines(), b.splitlines()
    for i, (x, y) in enumerate(zip(la, lb)):
        if x != y:
            return f"line {i + 1}: {x.strip()!r:.90} -> {y.strip()!r:.90}"
    return f"{len(la)} lines -> {len(lb)} lines"


RUN_DATE = "Run date"


def mask_run_date(text):
    """ add_antismash_comments stamps datetime.now(): two runs of write_outputs may differ in that one line """
    return "\n".join(("<run date>" if line.strip().startswith(RUN_DATE) else line) for line in text.splitlines())


def call_write_outputs(record, base_options, tmp):
    """ antismash.main.write_outputs itself, three times on the same Record: without region files, with region files,
        without again.  The summary GenBank must be the same in all three (apart from the time stamp) and every region
        must have its file.  Returns None or a description of the difference """
    from types import SimpleNamespace
    from antismash import main
    from antismash.common import serialiser
    texts = []
    for step, region_gbks in enumerate([False, True, False]):
        out_dir = os.path.join(tmp, f"wo{step}")
        shutil.rmtree(out_dir, ignore_errors=True)
        os.makedirs(out_dir)
        options = SimpleNamespace(version=base_options.version, start=base_options.start, end=base_options.end,
                                  html_enabled=False, minimal=True, region_gbks=region_gbks, output_dir=out_dir,
                                  summary_gbk=True, zip_output=False, output_basename="summary")
        results = serialiser.AntismashResults("input.gbk", [record], [{}], options.version)
        try:
            main.write_outputs(results, options)
        except Exception as exc:  # pylint: disable=broad-except
            return f"write_outputs(region_gbks={region_gbks}) raised {type(exc).__name__}: {str(exc)[:120]}"
        with open(os.path.join(out_dir, "summary.gbk"), encoding="utf-8") as handle:
            texts.append(mask_run_date(handle.read()))
        files = sorted(name for name in os.listdir(out_dir) if name != "summary.gbk")
        expected = sorted(f"{record.id}.region{r.get_region_number():03d}.gbk" for r in record.get_regions()) \
            if region_gbks else []
        if files != expected:
            return f"write_outputs(region_gbks={region_gbks}) left the files {files}, expected {expected}"
    if texts[1] != texts[0]:
        return ("the summary GenBank written by write_outputs after the region files differs from the one written "
                "without region files: " + first_difference(texts[0], texts[1]))
    if texts[2] != texts[0]:
        return ("a later write_outputs of the same Record gives another summary GenBank (the secmet Record kept "
                "something from the region files): " + first_difference(texts[0], texts[2]))
    return None


# ------------------------------------------------------------------ known findings

def _g(s, e, strand=1):
    return [(s, e, strand)]


# regression corpus, run first in the real stream (n, circular, genes, protoclusters (core, extent, product), sub-regions,
# prepeptides): the witnesses of the repaired findings (nothing is suppressed for them: a failure is a VIOLATION) and of
# the finding that is still recorded (F50, a refusal of the loader)
CORPUS = [
    # F18 region_type_compare (fixed): three regions with candidate clusters on a linear record
    (1000, False, [_g(12, 42), _g(216, 246), _g(600, 630)],
     [((20, 30), (10, 50), "a"), ((220, 230), (200, 250), "b"), ((600, 640), (580, 700), "c")], [], {}),
    # F46 subregion_refs_not_renumbered (fixed): regions 2 and 3 hold sub-regions 2 and 3, 4
    (1000, False, [_g(110, 140), _g(420, 450), _g(700, 760)], [], [(100, 200), (400, 500), (690, 800), (700, 790)], {}),
    # F49 wrapped_region_parent_qualifiers (fixed) (+ a second region; the origin-crossing gene is inside the region)
    (1000, True, [_g(960, 990), _g(60, 90), _g(420, 450), [(995, 1000, 1), (0, 10, 1)]],
     [((950, 20), (900, 120), "a"), ((420, 460), (400, 500), "d")], [], {}),
    # F47 wrapped_region_motif_offset (fixed): prepeptide after the origin in an origin-crossing region
    (1000, True, [_g(960, 990), _g(60, 90), _g(420, 450)],
     [((950, 20), (900, 120), "a"), ((420, 460), (400, 500), "d")], [], {1: (1, 1)}),
    # F48 wrapped_region_partial_feature (fixed): origin-crossing gene only partly inside the origin-crossing region
    (1000, True, [_g(960, 990), _g(60, 90), _g(420, 450), [(800, 1000, 1), (0, 10, 1)]],
     [((950, 20), (900, 120), "a"), ((420, 460), (400, 500), "d")], [], {}),
    # F50 multi_exon_spans_extract (known)
    (600, False, [_g(24, 42), _g(254, 332), [(373, 406, -1), (337, 364, -1)], _g(406, 427)], [((337, 406), (337, 406), "a")], [], {}),
    # F51 whole_ring_region (fixed): the whole ring from an offset, start == end
    (600, True, [_g(6, 57), _g(106, 136), _g(196, 256), _g(399, 462)], [((196, 462), (196, 196), "a")], [], {}),
    # F51 + F19: a whole-ring region holding protoclusters before, across and after the origin
    (600, True, [_g(6, 57), _g(106, 136), _g(196, 256), _g(399, 462), _g(540, 570)],
     [((196, 256), (150, 150), "a"), ((540, 57), (520, 80), "b"), ((106, 136), (100, 140), "c"), ((399, 462), (380, 470), "d")],
     [(190, 260), (90, 140)], {}),
    # FC12a whole_ring_cut_in_intron (known): the cut point 262 of the whole-ring region lies in the intron of gene 2
    (600, True, [_g(5, 56), [(236, 254, 1), (269, 281, 1)], _g(282, 306, -1), _g(306, 396, -1)],
     [((282, 396), (262, 262), "a")], [], {}),
    # F19 wrapped_region_numbering (fixed; DESIGN finding 19): protoclusters 1, 2, 4 of 4 in the origin-crossing region
    (1000, True, [_g(960, 990), _g(60, 90), _g(860, 890), _g(420, 450)],
     [((950, 20), (900, 50), "a"), ((60, 100), (30, 120), "b"), ((860, 900), (850, 920), "c"),
      ((420, 460), (400, 500), "d")], [], {}),
]

def known_classes():
    return {f["class"]: f for f in common.load_known_findings("C12") if f.get("status") == "known"}


CLASS_CODON_EDGE = "codon_start_gene_on_region_edge"      # finding FC12b


def witness_codon_start_edge():
    """ a CDS read with /codon_start=2 (GenBank 201..291, kept by secmet as [201:291]) and a region that starts exactly
        at 201: the gene is a child of the region but is missing from the region file (to_biopython writes it as
        [200:291], which the slice of the converted record at 201 leaves out); with the region starting at 200 it is kept """
    import random
    import tempfile
    from Bio.Seq import Seq
    from Bio.SeqFeature import SeqFeature
    from antismash.common.secmet import Record
    from antismash.common.secmet.features import CDSFeature, SubRegion
    from antismash.common.secmet.locations import FeatureLocation as FL
    rnd = random.Random(3)
    kept = []
    for edge in (0, -1):
        rec = Record(Seq("".join(rnd.choice("ACGT") for _ in range(1000))))
        rec.id = rec.name = "X"
        bio_cds = SeqFeature(FL(200, 291, 1), type="CDS", qualifiers={"locus_tag": ["shifted"], "codon_start": ["2"]})
        cds = CDSFeature.from_biopython(bio_cds, record=rec)
        rec.add_cds_feature(cds)
        rec.add_subregion(SubRegion(FL(int(cds.location.start) + edge, 600), "tool"))
        rec.create_regions()
        region = rec.get_regions()[0]
        with tempfile.TemporaryDirectory() as tmp:
            region.write_to_genbank(directory=tmp)
            new = Record.from_genbank(os.path.join(tmp, "X.region001.gbk"))[0]
        kept.append(([c.get_name() for c in region.cds_children], [c.get_name() for c in new.get_cds_features()]))
    return kept[0] == (["shifted"], []) and kept[1] == (["shifted"], ["shifted"])


# ------------------------------------------------------------------ the run

RULE = ("synthetic stream: bio-level records of 12-300 bases, linear/circular, a region inside / touching the record ends / "
        "crossing the origin / covering the whole ring from an offset (start == end), 0-3 candidate clusters (contiguous, gapped or shuffled numbers, shared protoclusters), 0-2 "
        "sub-regions, genes and CDS_motifs (1-3 exons, both strands, adjacent exons, crossing the origin, inside / on the "
        "edge of / partly outside the region), 15% 'chaos' cases with area features the public API would not build (unknown "
        "protocluster numbers -> KeyError); real stream: secmet Records of 600-3000 bases with up to 16 genes (two-exon and "
        "origin-crossing genes, prepeptides with leader/tail), 1-6 protoclusters (overlapping, origin-crossing extents and "
        "cores, 15% of the circular records with a whole-ring extent cut before the core) and 0-2 sub-regions, create_candidate_clusters + create_regions, every region written with the shared bio "
        "record, parsed, reloaded; parent annotations (both streams): with / without structured_comment, empty one, "
        "structured comments without antiSMASH-Data, empty antiSMASH-Data, Version / Run date / Original ID, the --start/--end "
        "NOTE with Starting at / Ending at, NOTE / Orig. start / Orig. end of an earlier region file in any order, other "
        "tables before and after, other top-level annotations; real stream as in main.write_outputs: to_biopython -> "
        "add_antismash_comments (options.version / start / end, original_id, 30% with structured comments of the input) -> "
        "all region files with the shared bio record -> summary GenBank text compared with the text before the region "
        "files; for the first 40 (quick) / 600 (thorough) records with regions antismash.main.write_outputs itself is run "
        "with region_gbks off / on / off and the three summary files compared (time stamp masked); "
        "non-trivial = the extract keeps at least two features and either the region does not "
        "start at 0 or it crosses the origin; distinct by flat encoding")


def decide(chk, idx, flat, out, verdict, consistent, reload_msg, known, describe):
    """ decision rule for one case: verdict = [all, NF flags, NF guards] from fn 102 """
    if verdict is None or len(verdict) != 1 + 2 * NF:
        if out[0] == 0:
            chk.violation("broken-correspondence", "specification function did not decode the implementation's output",
                          {"theorem_or_correspondence": "C12 fn 102", "flat": flat, "implementation": out})
        return
    flags, guards = verdict[1:1 + NF], verdict[1 + NF:1 + 2 * NF]
    failed = [i for i in range(NF) if not flags[i]]
    classes = []
    for i in failed:
        if guards[i]:
            classes.append((i, None))
        else:
            classes.append((i, CLASS_OF_FLAG.get(i)))
    for i, cls in classes:
        chk.count(describe["stream"] + "_spec_fail_" + FLAG_NAMES[i] + ("" if cls is None else f"[{cls}]"))
        if not consistent and i not in (6, 7):
            # synthetic cases: only the two annotation flags are decided (the annotations are realistic in every case)
            continue
        if cls is not None and cls in known:
            chk.known(known[cls]["what_fails"])
            continue
        chk.violation("counterexample", f"written region file violates the property: {FLAG_NAMES[i]}"
                      + (f" (class {cls}, not recorded as known)" if cls else ""),
                      {"theorem_or_correspondence": "C12 specification fn 102", "flat": flat, "implementation": out,
                       "input": describe, "flags": dict(zip(FLAG_NAMES, flags)), "guards": dict(zip(FLAG_NAMES, guards))})
    if reload_msg:
        bad_guards = [i for i in range(NF) if not guards[i]]
        cls = None
        if bad_guards:
            cls = CLASS_OF_FLAG.get(bad_guards[0])
        if cls is None and describe.get("spanning_multi_exon") and "origin spanning exon while in a linear record" in reload_msg:
            cls = "multi_exon_spans_extract"
        if cls is None and describe.get("cut_in_intron") and reload_msg.startswith("cds differ after reload"):
            cls = "whole_ring_cut_in_intron"
        chk.count("reload_fail" + ("" if cls is None else f"[{cls}]"))
        if cls is not None and cls in known:
            chk.known(known[cls]["what_fails"])
        else:
            chk.violation("counterexample", "a written region file cannot be loaded again with the same content: " + reload_msg,
                          {"theorem_or_correspondence": "Region.write_to_genbank -> Record.from_genbank", "flat": flat,
                           "implementation": out, "input": describe, "reload": reload_msg,
                           "guards": dict(zip(FLAG_NAMES, guards))})


def describe_flat(flat):
    return {"function": flat[1], "region_start": flat[2], "region_end": flat[3], "payload_ints": len(flat) - 2}


def run(chk):
    if not chk.build_and_audit():
        return chk.finish(RULE)
    known = known_classes()
    quick = chk.tier == "quick"
    n_synth = 9000 if quick else 120000
    n_real = 350 if quick else 5000
    cases, impl_outs, meta = [], [], []

    synth = Synth(chk.rng)
    for _ in range(n_synth):
        case = synth.case()
        flat, out = run_synth(case)
        cases.append(flat)
        impl_outs.append(out)
        crossing = case["end"] <= case["start"]
        # the decision rule is applied to the real stream only (synthetic numbering gaps etc. are not reachable
        # through the public API); synthetic outputs are histogrammed
        meta.append({"consistent": False, "reload": None,
                     "describe": {"stream": "synthetic", "length": case["n"], "circular": case["circular"],
                                  "region": [case["start"], case["end"]], "candidates": case["cands"], "subs": case["subs"],
                                  "features": [(k, loc_str(p), q) for k, p, q in case["feats"]],
                                  "parent_annotations": case["annotations"]}})
        chk.count("synthetic")
        comment = case["annotations"].get("structured_comment")
        chk.count("synthetic_parent_" + ("without_structured_comment" if comment is None else
                                         "with_antiSMASH-Data" if "antiSMASH-Data" in comment else
                                         "with_structured_comment_only"))
        chk.count("synthetic_crossing" if crossing else "synthetic_linear_region")
        if case["end"] == case["start"]:
            chk.count("synthetic_whole_ring")
        if out[0] == 1:
            chk.count("error_" + common.ERR_NAME.get(out[1], str(out[1])))
        kept = out[1 + 1 + case_len(out)] if out[0] == 0 else 0
        chk.note_case(flat, out[0] == 0 and kept >= 2 and (case["start"] != 0 or crossing),
                      meta[-1]["describe"] if len(chk.samples) < 3 else None)

    real = RealGen(chk.rng)
    corpus = list(CORPUS)
    tmp = tempfile.mkdtemp(prefix="asv_c12_")
    n_write_outputs = 40 if quick else 600
    wo_done = 0
    late = []     # violations of the output-path stream: reported after the per-region ones (those carry a flat case)
    try:
        built = 0
        for _ in range(n_real):
            if corpus:
                n, circular, genes, protos, subs, peps = corpus.pop(0)
                chk.count("real_corpus_records")
            else:
                n, circular, genes = real.record()
                protos, subs = real.areas(n, circular, genes)
                peps = {i: (chk.rng.choice([0, 1, 2]), chk.rng.choice([0, 1, 2])) for i in range(len(genes))
                        if chk.rng.random() < 0.25}
            seq = "".join(chk.rng.choice(BASES) for _ in range(n))
            try:
                record, peptides = build_real(peps, n, circular, genes, protos, subs, seq)
            except Exception as exc:  # pylint: disable=broad-except
                # record construction is the business of C05/C06 (origin-spanning areas are a recorded C06 finding)
                chk.count("real_record_not_built_" + type(exc).__name__)
                continue
            built += 1
            chk.count("real_records")
            # as in main.write_outputs: one bio record per Record, the antiSMASH comment added to it, then every region
            # file written with that shared bio record, then the summary GenBank of the full record
            input_comment = None
            if chk.rng.random() < 0.3:
                # structured comments of the input file, as the GenBank parser leaves them
                input_comment = parent_annotations(chk.rng, False)["structured_comment"]
            original_id = "an_original_identifier_that_was_too_long" if chk.rng.random() < 0.3 else None
            options = output_options(chk.rng, n)
            bio, summary_before, annotations_before = start_output_path(record, input_comment, original_id, options)
            record_desc = {"stream": "real output path", "length": n, "circular": circular,
                           "genes": [loc_str(g) for g in genes], "protoclusters (core, extent, product)": protos,
                           "subregions": subs, "regions": [str(r.location) for r in record.get_regions()],
                           "options": {"version": options.version, "start": options.start, "end": options.end},
                           "annotations_before": annotations_before,
                           "rebuild": {"n": n, "circular": circular, "genes": genes, "protos": protos, "subs": subs,
                                       "peps": sorted(peps.items()), "seq": seq, "input_comment": input_comment,
                                       "original_id": original_id}}
            for region in record.get_regions():
                flat, out, reload_msg = run_real_region(record, region, bio, tmp)
                cases.append(flat)
                impl_outs.append(out)
                crossing = region.crosses_origin()
                desc = {"stream": "real", "length": n, "circular": circular, "genes": [loc_str(g) for g in genes],
                        "protoclusters (core, extent, product)": protos, "subregions": subs,
                        "region": str(region.location), "region_number": region.get_region_number(),
                        "subs": [s.get_subregion_number() for s in region.subregions],
                        "candidates": [c.get_candidate_cluster_number() for c in region.candidate_clusters]}
                if out[0] == 0:
                    # a spliced feature reaching from the first to the last base of the extract of a linear record
                    length = out[1]
                    desc["spanning_multi_exon"] = (not circular) and any(
                        len(f.location.parts) > 1 and int(f.location.start) - int(region.start) == 0
                        and int(f.location.end) - int(region.start) == length for f in bio.features
                        if int(region.start) <= int(f.location.start) and int(f.location.end) <= int(region.end))
                if int(region.start) == int(region.end):
                    # a spliced gene of the region with exons on both sides of the cut point of a whole-ring region
                    cut = int(region.start)
                    desc["cut_in_intron"] = any(
                        len(c.location.parts) > 1 and not c.location.crosses_origin()
                        and geometrically_inside(c.location, region.location)
                        and any(int(p.end) <= cut for p in c.location.parts)
                        and any(int(p.start) >= cut for p in c.location.parts)
                        for c in record.get_cds_features())
                if reload_msg and circular and len(region.location) == n and not crossing and any(
                        area.location.crosses_origin() for area in list(record.get_protoclusters())
                        + list(record.get_candidate_clusters()) + list(record.get_subregions())):
                    # the extract is the whole circular record and still holds origin-crossing areas: how the
                    # reload orders an origin-crossing area against the area containing it is the business of C10
                    # (CDSCollection.__lt__ is not a consistent order there); not compared here
                    chk.count("reload_not_compared_whole_record_with_crossing_areas")
                    reload_msg = None
                meta.append({"consistent": True, "reload": reload_msg, "describe": desc})
                chk.count("real_regions")
                chk.count("real_region_crossing" if crossing else "real_region_linear")
                if int(region.start) == int(region.end):
                    chk.count("real_region_whole_ring")
                if crossing and len(region.get_unique_protoclusters()) + len(region.subregions) >= 2:
                    chk.count("real_region_crossing_with_several_areas")
                if region.get_region_number() > 1:
                    chk.count("real_region_not_first")
                if out[0] == 1:
                    chk.count("real_error_" + common.ERR_NAME.get(out[1], str(out[1])))
                kept = out[1 + 1 + case_len(out)] if out[0] == 0 else 0
                chk.note_case(flat, out[0] == 0 and kept >= 2 and (int(region.start) != 0 or crossing),
                              desc if 3 <= len(chk.samples) < 6 else None)
            # the summary GenBank written now must be the one that would have been written before the region files
            chk.count("output_path_records")
            summary_after = genbank_text(bio)
            if summary_after != summary_before or deep_plain(dict(bio.annotations)) != annotations_before:
                record_desc["annotations_after"] = deep_plain(dict(bio.annotations))
                record_desc["first_difference"] = first_difference(summary_before, summary_after)
                chk.count("output_path_summary_changed")
                late.append(("counterexample", "writing the region files changed the full record: the summary GenBank "
                             "written afterwards differs from the one written before (" + record_desc["first_difference"] + ")",
                             {"theorem_or_correspondence": "main.write_outputs order: add_antismash_comments -> "
                              "Region.write_to_genbank (all regions) -> SeqIO.write(full record)", "input": record_desc}))
            if record.get_regions() and wo_done < n_write_outputs:
                wo_done += 1
                chk.count("write_outputs_runs")
                message = call_write_outputs(record, options, tmp)
                if message:
                    chk.count("write_outputs_failed")
                    late.append(("counterexample", message, {"theorem_or_correspondence": "antismash.main.write_outputs "
                                 "(region_gbks off / on / off, summary_gbk on)", "input": record_desc}))
    finally:
        shutil.rmtree(tmp, ignore_errors=True)

    for i, m in enumerate(meta):
        if "subs" not in m["describe"]:
            m["describe"]["subs"] = m["describe"].get("subs", [])
    by_case = {tuple(c): m["describe"] for c, m in zip(cases, meta)}
    model_outs = common.correspondence(chk, cases, impl_outs, spec_fn_offset=100,
                                       describe=lambda flat: dict(describe_flat(flat), **by_case.get(tuple(flat), {})))
    # the decidable specification on every implementation output
    ok_idx = [i for i, out in enumerate(impl_outs) if out[0] == 0]
    spec_cases = [[PROP, FN + 100] + cases[i][2:] + impl_outs[i] for i in ok_idx]
    verdicts = common.run_driver(spec_cases)
    for i, verdict in zip(ok_idx, verdicts):
        decide(chk, i, cases[i], impl_outs[i], verdict, meta[i]["consistent"], meta[i]["reload"], known, meta[i]["describe"])
    for i, out in enumerate(impl_outs):
        if out[0] == 1 and meta[i]["describe"]["stream"] == "real":
            chk.violation("counterexample", "write_to_genbank raised on a well-formed region",
                          {"theorem_or_correspondence": "write_to_genbank", "flat": cases[i], "implementation": out,
                           "input": meta[i]["describe"]})
    for kind, what, doc in late:
        chk.violation(kind, what, doc)
    # finding FC12b (codon_start_gene_on_region_edge): the generators keep regions off the frameshifted start / end of a
    # gene with codon_start 2 or 3; the recorded witness is replayed on every run
    chk.evaluations += 1
    try:
        reproduced = witness_codon_start_edge()
    except Exception:  # pylint: disable=broad-except
        reproduced = False
    if reproduced:
        if CLASS_CODON_EDGE in known:
            chk.known(known[CLASS_CODON_EDGE]["what_fails"])
        else:
            chk.violation("counterexample", f"class {CLASS_CODON_EDGE} (not listed as known): "
                          + " ".join((witness_codon_start_edge.__doc__ or "").split()),
                          {"theorem_or_correspondence": "Region.write_to_genbank -> Record.from_genbank, witness",
                           "input": " ".join((witness_codon_start_edge.__doc__ or "").split())})
    chk.crosscheck_vm(cases, model_outs, k=60 if quick else 400)
    return chk.finish(RULE, trusted_extra=[
        "Biopython 1.81 SeqRecord slicing/addition, GenBank writer and parser: transcribed (slicing) or not modelled "
        "(text round trip); covered by the correspondence run only",
        "Record.from_genbank reload of the written files is checked on the implementation side (harness/c12.py "
        "reload_check), not against a Coq model",
        "copy.deepcopy / dict.setdefault / item assignment on the annotations are modelled as operations on a heap of "
        "dict objects (three levels: annotations -> structured_comment -> tables); other annotation values are opaque "
        "and assumed immutable; the structure is assumed to be a tree (no dict reachable twice), as the GenBank parser "
        "and add_antismash_comments build it",
        "the output path stream (add_antismash_comments -> region files -> summary GenBank; main.write_outputs with "
        "region_gbks off/on/off) is checked on the implementation side only; Record.to_biopython, SeqIO.write and "
        "main.write_outputs are not modelled"])


def case_len(out):
    """ number of ints of the encoded sequence in an output (out[1] = length) """
    return out[1]


def replay(chk, path):
    doc = json.load(open(path))
    if "flat" not in doc:
        return replay_output_path(doc)
    flat = doc["flat"]
    model = common.run_driver([flat])[0]
    print("model:", model)
    print("recorded implementation:", doc.get("implementation"))
    if doc.get("implementation") and doc["implementation"][0] == 0:
        print("specification verdict [all, flags, guards] (flags: " + ", ".join(FLAG_NAMES) + "):",
              common.run_driver([[PROP, flat[1] + 100] + flat[2:] + doc["implementation"]])[0])
    return 0


def replay_output_path(doc):
    """ a violation of the output-path stream: the Record is rebuilt and taken through the same steps again """
    from types import SimpleNamespace
    info = doc["input"]["rebuild"]

    def tup(x):
        return tuple(tup(y) for y in x) if isinstance(x, list) else x
    genes = [[tup(p) for p in g] for g in info["genes"]]
    record, _ = build_real({int(k): tup(v) for k, v in info["peps"]}, info["n"], info["circular"], genes,
                           [tup(p) for p in info["protos"]], [tup(x) for x in info["subs"]], info["seq"])
    options = SimpleNamespace(**doc["input"]["options"])
    bio, before, annotations = start_output_path(record, info["input_comment"], info["original_id"], options)
    tmp = tempfile.mkdtemp(prefix="asv_c12_")
    try:
        for region in record.get_regions():
            region.write_to_genbank(directory=tmp, record=bio)
        after = genbank_text(bio)
        print("annotations before the region files:", annotations)
        print("annotations after the region files: ", deep_plain(dict(bio.annotations)))
        print("summary GenBank unchanged by the region files:", after == before,
              "" if after == before else "(" + first_difference(before, after) + ")")
        print("main.write_outputs off/on/off:", call_write_outputs(record, options, tmp) or "same summary")
    finally:
        shutil.rmtree(tmp, ignore_errors=True)
    return 0
