"""C01: correspondence for rule-condition evaluation: DetectionRule.detect on condition trees built with the
class constructors, for every gene of generated layouts (line and ring, gaps on the cutoff boundary)."""
import types

import common
from unittest import mock
from common import err_code

PROP = 1
NPROF = 6
BIG = 1 << 40           # a "very large" bit score / threshold; 2 * BIG + 1 is still an exact float


def draw_threshold(rng):
    """ minscore thresholds: the boundary values 0 (accepted by the grammar, refuses only negative bit scores) and 1,
        the usual ones, a very large one; thresholds equal to generated scores arise from draw_score2 (scores are drawn
        ON the thresholds) and from retarget() (thresholds moved onto scores that were drawn) """
    return rng.choice([0, 0, 0, 1, 1, 2, 10, 10, 25, 50, BIG])


THRESHOLD_POOL = [0, 0, 1, 2, 10, 10, 25, 50, BIG]


def draw_score2(rng, thresholds=None):
    """ a DOUBLED bit score (half-integers are exact) on the classes the comparison `bitscore >= score` can tell
        apart: negative, exactly 0.0, exactly the threshold, half a point / one point below and above it, very
        large, fractional, far above """
    s = rng.choice(thresholds or THRESHOLD_POOL)
    r = rng.random()
    if r < 0.17:
        return rng.choice([-1, -1, -2, -2, -9, -20, -101, -2 * BIG - 1])
    if r < 0.27:
        return 0
    if r < 0.43:
        return 2 * s
    if r < 0.54:
        return 2 * s - 1
    if r < 0.63:
        return 2 * s + 1
    if r < 0.69:
        return 2 * s - 2
    if r < 0.75:
        return 2 * s + 2
    if r < 0.81:
        return 2 * BIG + rng.choice([-1, 0, 1])
    if r < 0.90:
        return 2 * rng.randint(0, 60) + 1
    return 2 * s + 40


_HIT_CLASSES = None


def mk_hit(gene, prof, s2, flavour="profile"):
    """ the hit object for (gene name, profile number, doubled score).  flavours: ProfileHit with a float score;
        `dynamic`: DynamicHit, a score of 0 being left to its DEFAULT argument; `int`: ProfileHit with a Python int
        where the score is integral """
    global _HIT_CLASSES
    if _HIT_CLASSES is None:
        from antismash.common.hmm_rule_parser.structures import ProfileHit, DynamicHit
        _HIT_CLASSES = (ProfileHit, DynamicHit)
    ProfileHit, DynamicHit = _HIT_CLASSES
    if flavour == "dynamic":
        if s2 == 0:
            return DynamicHit(gene, pname(prof))
        return DynamicHit(gene, pname(prof), bitscore=s2 / 2)
    if flavour == "int" and s2 % 2 == 0:
        return ProfileHit(gene, pname(prof), s2 // 2, 1e-10)
    return ProfileHit(gene, pname(prof), s2 / 2, 1e-10)


def draw_flavour(rng):
    return rng.choice(["profile", "profile", "profile", "dynamic", "int"])


def pname(i):
    return f"p{i}"


class Tree:
    """ condition trees as nested tuples mirroring the Gallina type:
        ("single", neg, p) ("score", neg, p, s) ("minimum", neg, k, opts) ("cds", neg, items) ("group", neg, items)
        items: list of ("c", cond) | ("and", [cond...]) """

    def __init__(self, rng, strict=False):
        self.rng = rng
        self.strict = strict        # only shapes the rule grammar can express (nothing but names/minscore/groups in cds)

    def cond(self, depth, in_cds):
        rng = self.rng
        r = rng.random()
        neg = rng.random() < 0.25
        if depth <= 0 or r < 0.35:
            return ("single", neg, rng.randrange(NPROF))
        if r < 0.47:
            return ("score", neg, rng.randrange(NPROF), draw_threshold(rng))
        if self.strict and in_cds and 0.47 <= r < 0.78:
            r = 0.9
        if r < 0.60 and (not in_cds or rng.random() < 0.1):
            opts = rng.sample(range(NPROF), rng.randint(1, 4))
            # the count on / one above the number of listed profiles (the constructor accepts both), or anything
            count = rng.choice([rng.randint(1, 4), rng.randint(1, 4), 1, len(opts), len(opts) + 1])
            return ("minimum", neg, count, opts)
        if r < 0.78 and (not in_cds or rng.random() < 0.25):
            return ("cds", neg, self.items(depth - 1, True))
        return ("group", neg, self.items(depth - 1, in_cds))

    def items(self, depth, in_cds):
        rng = self.rng
        out = []
        for _ in range(rng.choice([1, 1, 2, 2, 3])):
            if rng.random() < 0.4:
                out.append(("and", [self.cond(depth, in_cds) for _ in range(rng.choice([2, 2, 3]))]))
            else:
                out.append(("c", self.cond(depth, in_cds)))
        return out


def build(tree):
    """ -> rule_parser condition object (raises ValueError for repeated operands etc.) """
    from antismash.common.hmm_rule_parser import rule_parser as rp
    kind = tree[0]
    if kind == "single":
        return rp.SingleCondition(tree[1], pname(tree[2]))
    if kind == "score":
        return rp.ScoreCondition(tree[1], pname(tree[2]), tree[3])
    if kind == "minimum":
        return rp.MinimumCondition(tree[1], tree[2], [pname(o) for o in tree[3]])
    subs = []
    for item in tree[2]:
        if subs:
            subs.append(rp.TokenTypes.OR)
        if item[0] == "c":
            subs.append(build(item[1]))
        else:
            ands = []
            for c in item[1]:
                if ands:
                    ands.append(rp.TokenTypes.AND)
                ands.append(build(c))
            subs.append(rp.AndCondition(ands))
    cls = rp.CDSCondition if kind == "cds" else rp.Conditions
    return cls(tree[1], subs)


def enc_tree(tree):
    kind = tree[0]
    if kind == "single":
        return [0, int(tree[1]), tree[2]]
    if kind == "score":
        return [1, int(tree[1]), tree[2], tree[3]]
    if kind == "minimum":
        return [2, int(tree[1]), tree[2], len(tree[3])] + list(tree[3])
    out = [3 if kind == "cds" else 4, int(tree[1]), len(tree[2])]
    for item in tree[2]:
        if item[0] == "c":
            out += [0] + enc_tree(item[1])
        else:
            out += [1, len(item[1])]
            for c in item[1]:
                out += enc_tree(c)
    return out


def leaves(tree):
    if tree[0] in ("single", "score", "minimum"):
        return 1
    return sum(leaves(i[1]) if i[0] == "c" else sum(leaves(c) for c in i[1]) for i in tree[2])


def gen_layout(rng, cutoff=None, n_genes=None):
    """ genes on a line or ring with gaps on the cutoff boundary; returns (cutoff, circular_origin, [(id, parts)]) """
    if cutoff is None:
        cutoff = rng.choice([1, 5, 20, 20, 50])
    if n_genes is None:
        n_genes = rng.choice([1, 2, 2, 3, 3, 4, 5, 7])
    pos = rng.randint(0, 10)
    genes = []
    for i in range(n_genes):
        length = rng.randint(1, 12)
        genes.append((pos, pos + length))
        gap = rng.choice([-3, 0, 1, cutoff - 1, cutoff, cutoff + 1, cutoff + 30, 2 * cutoff])
        pos = max(0, pos + length + gap)
    end = max(e for _, e in genes)
    circular = rng.random() < 0.5
    out = []
    if not circular:
        for i, (s, e) in enumerate(genes):
            out.append((i, [(s, e, rng.choice([1, -1]))]))
        # circular_origin may be passed as None or (rarely) 0: both mean "no wrap"
        return cutoff, rng.choice([None, None, None, 0]), out
    # ring: the record ends a boundary-gap after the last gene, so that first and last are near across the origin
    tail = rng.choice([0, 1, cutoff - 1, cutoff, cutoff + 1, cutoff + 40])
    first = genes[0][0]
    n = max(end + max(0, tail - first), end)
    if n < end:
        n = end
    n = max(n, 2)
    for i, (s, e) in enumerate(genes):
        strand = rng.choice([1, -1])
        out.append((i, [(s, e, strand)]))
    if rng.random() < 0.25 and n - end >= 0 and first >= 2:
        # add an origin-spanning gene
        hi = rng.randint(max(end, n - 5), n - 1) if n - 1 >= max(end, n - 5) and n > end else None
        lo = rng.randint(1, first - 1)
        if hi is not None and hi < n:
            strand = rng.choice([1, -1])
            parts = [(hi, n, strand), (0, lo, strand)]
            if strand == -1:
                parts.reverse()
            out.append((len(out), parts))
    return cutoff, n, out


def mk_location(parts):
    from antismash.common.secmet.locations import FeatureLocation, CompoundLocation
    fls = [FeatureLocation(s, e, st) for s, e, st in parts]
    return fls[0] if len(fls) == 1 else CompoundLocation(fls)


def gen_hits(rng, genes, thresholds=None, prefer=None):
    """ -> {gene id: [(profile, doubled bitscore)]}; some genes have no entry, some an empty list; scores on the
        boundary classes of draw_score2 relative to `thresholds` (default: the pool all generated thresholds come
        from); a gene may carry SEVERAL hits of one profile, also of mixed sign, the weaker one first or last """
    results = {}
    for gid, _ in genes:
        r = rng.random()
        if r < 0.2:
            continue
        hits = []
        for _ in range(rng.choice([0, 1, 1, 2, 3])):
            prof = rng.choice(prefer) if prefer and rng.random() < 0.8 else rng.randrange(NPROF)
            hits.append((prof, draw_score2(rng, thresholds)))
        if hits and rng.random() < 0.3:
            prof, s2 = rng.choice(hits)
            other = draw_score2(rng, thresholds)
            if (other < 0) == (s2 < 0):
                other = rng.choice([-1, -2, -9]) if s2 >= 0 else rng.choice([0, 0, 1, 2, 20, 2 * rng.choice(thresholds or THRESHOLD_POOL)])
            hits.insert(rng.randint(0, len(hits)), (prof, other))
        results[gid] = hits
    return results


def tree_conds(tree):
    """ every leaf / node of a tree """
    yield tree
    if tree[0] in ("cds", "group"):
        for item in tree[2]:
            for c in ([item[1]] if item[0] == "c" else item[1]):
                yield from tree_conds(c)


def tree_thresholds(tree):
    return [c[3] for c in tree_conds(tree) if c[0] == "score"]


def reach_sets(cutoff, circ, genes):
    """ gene id -> ids of the OTHER genes closer than the cutoff, with the implementation's own distance function
        (used by the generator to aim at boundaries and by the histogram; never by a comparison) -> (near, dist) """
    from antismash.common.secmet.locations import get_distance_between_locations
    locs = {gid: mk_location(parts) for gid, parts in genes}
    wrap = circ if circ else None
    dist = {}
    for g in locs:
        for o in locs:
            if g != o:
                dist[(g, o)] = get_distance_between_locations(locs[g], locs[o], wrap)
    near = {g: [o for o in locs if o != g and dist[(g, o)] < cutoff] for g in locs}
    return near, dist


def retarget(rng, tree, near, hits):
    """ moves thresholds and counts of a generated tree ONTO what was drawn for the layout: a minscore threshold onto
        the score of an existing hit of its profile (0 for a negative score: threshold 0 against negative bit scores;
        the integer just below / above a fractional score), a minimum count onto / one above / one below the number
        of listed profiles available on some gene and the genes in its range """
    kind = tree[0]
    if kind == "score":
        found = [s2 for hs in hits.values() for p, s2 in hs if p == tree[2]]
        if found and rng.random() < 0.4:
            s2 = rng.choice(found)
            return ("score", tree[1], tree[2], max(0, rng.choice([s2 // 2, (s2 + 1) // 2])))
        return tree
    if kind == "minimum":
        if near and rng.random() < 0.5:
            g = rng.choice(sorted(near))
            opts = set(tree[3])
            total = sum(len(opts & {p for p, _ in hits.get(o, [])}) for o in [g] + near[g])
            return ("minimum", tree[1], max(1, total + rng.choice([0, 0, 1, 1, -1])), tree[3])
        return tree
    if kind == "single":
        return tree
    return (kind, tree[1], [("c", retarget(rng, i[1], near, hits)) if i[0] == "c" else
                            ("and", [retarget(rng, c, near, hits) for c in i[1]]) for i in tree[2]])


def boundary_classes(chk, tree, gid, cutoff, near, dist, hits):
    """ histogram of the boundary classes one evaluation (tree, arrangement, gene) lies on: what the comparisons of the
        evaluator (bitscore >= score, hit_count >= count, distance < cutoff) see """
    for (g, _o), d in dist.items():
        if g == gid:
            delta = d - cutoff
            chk.count("bc_distance_" + ("eq_cutoff" if delta == 0 else "cutoff_minus_1" if delta == -1 else
                                        "cutoff_plus_1" if delta == 1 else "closer" if delta < 0 else "farther"))
    reach = [gid] + near[gid]
    for c in tree_conds(tree):
        if c[0] == "score":
            _k, _neg, prof, s = c
            chk.count("bc_threshold_" + ("0" if s == 0 else "1" if s == 1 else "very_large" if s >= BIG else "other"))
            seen = [(o, s2) for o in reach for p, s2 in hits.get(o, []) if p == prof]
            for _o, s2 in seen:
                if s2 < 0:
                    chk.count("bc_score_negative")
                if s2 == 0:
                    chk.count("bc_score_exactly_0")
                if s2 % 2:
                    chk.count("bc_score_fractional")
                if abs(s2) >= 2 * BIG - 1:
                    chk.count("bc_score_very_large")
                delta = s2 - 2 * s
                if -2 <= delta <= 2:
                    chk.count("bc_score_vs_threshold_" + {-2: "one_below", -1: "half_below", 0: "equal",
                                                          1: "half_above", 2: "one_above"}[delta])
            per_gene = {}
            for o, s2 in seen:
                per_gene.setdefault(o, []).append(s2)
            if any(len(v) > 1 for v in per_gene.values()):
                chk.count("bc_score_several_hits_of_profile_on_one_gene")
            if any(min(v) < 0 <= max(v) for v in per_gene.values()):
                chk.count("bc_score_mixed_signs_on_one_gene")
            if any(min(v) < 2 * s <= max(v) for v in per_gene.values()):
                chk.count("bc_score_sufficient_and_insufficient_hit_on_one_gene")
            if seen and all(s2 < 2 * s for _o, s2 in seen):
                chk.count("bc_score_profile_in_reach_none_sufficient")
                if s == 0:
                    chk.count("bc_threshold_0_only_negative_scores_in_reach")
                    if gid in per_gene:
                        chk.count("bc_threshold_0_own_hit_negative")
            if gid not in per_gene and any(s2 >= 2 * s for _o, s2 in seen):
                chk.count("bc_score_decided_by_neighbour")
        elif c[0] == "minimum":
            _k, _neg, k, opts = c
            own = len(set(opts) & {p for p, _ in hits.get(gid, [])})
            total = sum(len(set(opts) & {p for p, _ in hits.get(o, [])}) for o in reach)
            for label, value in (("available_in_reach", total), ("on_gene", own), ("listed", len(opts))):
                if k == value:
                    chk.count(f"bc_minimum_count_eq_{label}")
                elif k == value + 1:
                    chk.count(f"bc_minimum_count_one_above_{label}")
                elif k == value - 1:
                    chk.count(f"bc_minimum_count_one_below_{label}")


def score_directed(rng):
    """ directed at `bitscore >= score`: a rule with an anchoring name q and a [negated] minscore(p, s) (plain, under
        and/or, or inside cds(...)), s on the boundary thresholds, 2-4 genes, the hits of p drawn around s and 0 -
        one or several per gene, also on the evaluated gene itself -> (tree, n_genes, hits builder) """
    q, p, x = rng.sample(range(NPROF), 3)
    s = rng.choice([0, 0, 0, 0, 1, 1, 2, 10, BIG])
    neg = rng.random() < 0.4
    leaf = ("score", neg, p, s)
    shape = rng.random()
    if shape < 0.45:
        tree = ("group", False, [("and", [("single", False, q), leaf])])
    elif shape < 0.6:
        tree = ("group", False, [("c", ("single", False, q)), ("c", leaf)])
    elif shape < 0.75:
        tree = ("group", False, [("and", [("single", False, q), ("cds", rng.random() < 0.3, [("and", [("single", False, x), leaf])])])])
    elif shape < 0.9:
        tree = ("group", False, [("c", leaf)])
    else:
        tree = ("group", False, [("and", [("minimum", False, 1, sorted([q, x])), ("group", rng.random() < 0.3, [("c", leaf), ("c", ("single", False, x))])])])

    def hits_for(genes):
        hits = {}
        for gid, _ in genes:
            hs = []
            if rng.random() < 0.5:
                hs.append((q, draw_score2(rng, [s])))
            if rng.random() < 0.25:
                hs.append((x, draw_score2(rng, [s])))
            if rng.random() < 0.6:
                pool = [-1, -2, -9, -2 * BIG - 1, 0, 2 * s - 2, 2 * s - 1, 2 * s, 2 * s + 1, 2 * s + 2, 1, 2]
                weights = [4, 2, 1, 1, 3, 2, 2, 3, 2, 1, 1, 1]
                for _ in range(rng.choice([1, 1, 1, 2, 2, 3])):
                    hs.insert(rng.randint(0, len(hs)), (p, rng.choices(pool, weights)[0]))
            if hs or rng.random() < 0.3:
                hits[gid] = hs
        return hits
    return tree, rng.choice([2, 2, 3, 3, 4]), hits_for


def enc_result(res, names):
    out = [int(res.met), len(res.matches)] + sorted(names[m] for m in res.matches)
    anc = {k: v for k, v in res.ancillary_hits.items() if v}
    out.append(len(anc))
    for gene in sorted(anc, key=lambda g: int(g[1:])):
        out += [int(gene[1:]), len(anc[gene])] + sorted(names[m] for m in anc[gene])
    return out


RULE = ("random condition trees built through the rule_parser class constructors (all five kinds, negation anywhere, and-chains "
        "under or-lists, mostly parser-shaped, depth <= 4) x 1-7 genes on a line or ring with gaps drawn from {overlap, adjacent, "
        "cutoff-1, cutoff, cutoff+1, far}, incl. across the origin and origin-spanning genes x 0-4 hits per gene; minscore "
        "thresholds from {0, 1, 2, 10, 25, 50, 2^40} or moved onto a drawn score; bit scores (half-integers, exact) on the "
        "classes negative / exactly 0.0 / equal to the threshold / half a point or one point below and above it / very "
        "large / fractional, several hits of one profile on one gene incl. mixed signs, hit objects ProfileHit (float or "
        "int score) or DynamicHit (score 0 = its default argument); minimum counts on / one above / one below the number "
        "of listed profiles and of the profiles available on the gene and in its range; 8 % of the layouts directed at "
        "`bitscore >= score` (q and [not] minscore(p, s), s in {0, 1, 2, 10, 2^40}, hits of p around 0 and s); the number "
        "of evaluations on every boundary class is written to coverage.boundary_classes; detect() evaluated for every gene; every implementation answer is compared with the faithful "
        "model (fn 1) AND with the extracted specification holds/reasons/anc_spec (fn 2: a difference is a counterexample with "
        "its input).  Second stream: apply_cluster_rules on a real secmet Record with one constructor-built rule; the arguments "
        "of every rule.detect call are recorded and given to the model of the promotion loop (fn 3) and to its specification "
        "(fn 4).  HISTORIES: one rule object (parsed once from generated rule text, or built once through the constructors) "
        "is asked about 2-4 arrangements that re-use the gene names (hits of single genes changed / swapped / genes moved, "
        "dropped, re-ordered / fresh layout / identical repeat; same or fresh dict, feature and hit-list objects; genes asked "
        "in position order, reversed, shuffled, one gene, a subset) and EVERY answer is compared with fn 5/6 (model / "
        "specification of that rule, arrangement and gene alone); the same through apply_cluster_rules and "
        "detect_protoclusters_and_signatures over 2-4 records with rules parsed once (fn 5-8), and the cutoff attribute over "
        "parse + Ruleset constructions (fn 9).  Non-trivial = the tree has >= 2 leaves and some gene other than the evaluated "
        "one is within the cutoff (detect), >= 2 genes recorded (apply), the answer for a gene name changed between two "
        "arrangements although the gene's own hits did not (history); distinct by flat encoding")


def enc_ctx(cutoff, circ, genes, hits):
    """ genes: [(gid, parts)] in dict order; hits: {gid: [(profile, doubled score)]} in dict order """
    ctx = [cutoff] + ([0] if circ is None else [1, circ]) + [len(genes)]
    for gid, parts in genes:
        ctx += [gid, len(parts)] + [x for p in parts for x in p]
    ctx.append(len(hits))
    for gid, hs in hits.items():
        ctx += [gid, len(hs)] + [x for h in hs for x in h]
    return ctx


def spec_verdicts(chk, cases, impl_outs, spec_fn, label, describe):
    """ the independent verdict: the extracted specification (written from the property text, no reference to the
        evaluator) is evaluated on the input of EVERY case and the implementation's answer must be that answer.
        A difference is a violation of the property with a concrete failing input. """
    spec_cases = [[c[0], spec_fn] + c[2:] for c in cases]
    spec_outs = common.run_driver(spec_cases)
    bad = [i for i, (s, o) in enumerate(zip(spec_outs, impl_outs)) if s != o]
    chk.extra.setdefault("spec_verdicts", 0)
    chk.extra["spec_verdicts"] += len(cases)
    chk.extra.setdefault("spec_failures", 0)
    chk.extra["spec_failures"] += len(bad)
    if bad:
        bad.sort(key=lambda i: len(cases[i]))
        first = bad[0]
        what = []
        spec, impl = spec_outs[first], impl_outs[first]
        if spec_fn == 2 and spec and impl and impl[0] >= 0:
            if spec[0] != impl[0]:
                what.append("truth value differs from the documented boolean meaning")
            n_s, n_i = spec[1], impl[1]
            if spec[1:2 + n_s] != impl[1:2 + n_i]:
                what.append("reason profiles differ from the rule's profiles hitting the gene (cds/minscore provisos)")
            if spec[2 + n_s:] != impl[2 + n_i:]:
                what.append("ancillary hits differ from the in-range genes supplying a name/minimum")
        chk.violation("counterexample", f"{label}: implementation answer violates the specification on {len(bad)} case(s)"
                      + (": " + "; ".join(what) if what else ""),
                      {"theorem_or_correspondence": label, "function": cases[first][1], "flat": cases[first],
                       "implementation": impl, "specification": spec, "input": describe(first),
                       "failing_cases": len(bad)})
    return spec_outs


WHOLE_RECORD_CASES = []      # filled by apply_rules_stream: one whole-record specification input per case


def apply_rules_stream(chk, rng, trees, names, n_cases):
    """ apply_cluster_rules with one rule on a real Record; the promotion of ancillary hits to rule hits """
    import detect_util
    from antismash.common.hmm_rule_parser import rule_parser as rp, cluster_prediction
    from antismash.common.hmm_rule_parser.structures import ProfileHit
    cases, impl_outs, inputs = [], [], []
    whole_cases = WHOLE_RECORD_CASES
    del whole_cases[:]
    while len(cases) < n_cases:
        if rng.random() < 0.6:
            tree = ("group", False, trees.items(rng.choice([0, 1, 2]), False))
        else:
            tree = trees.cond(rng.choice([1, 2, 3]), False)
        if tree[0] not in ("group", "cds"):
            tree = ("group", False, [("c", tree)])
        try:
            conditions = build(tree)
            cutoff, circ, genes = gen_layout(rng)
            rule = rp.DetectionRule("r", "cat", cutoff, 0, conditions)
        except ValueError:
            chk.count("apply_rejected")
            continue
        hits = gen_hits(rng, genes, tree_thresholds(tree) + THRESHOLD_POOL)
        if rng.random() < 0.25:
            # directed: a chain of genes each in range of its neighbours only, the profiles of an and-chain (or of a
            # minimum) spread over them, so that only inner genes anchor and the outer ones are promoted
            k = rng.choice([3, 3, 4, 5])
            cutoff = rng.choice([5, 20])
            profs = rng.sample(range(NPROF), k)
            if rng.random() < 0.7:
                tree = ("group", False, [("and", [("single", False, p) for p in profs])])
            else:
                tree = ("group", False, [("and", [("single", False, profs[0]), ("minimum", False, k - 1, profs[1:])])])
            conditions = build(tree)
            rule = rp.DetectionRule("r", "cat", cutoff, 0, conditions)
            pos, genes, circ = rng.randint(0, 5), [], None
            for i in range(k):
                length = rng.randint(2, 9)
                genes.append((i, [(pos, pos + length, rng.choice([1, -1]))]))
                pos += length + rng.choice([cutoff - 1, cutoff - 1, cutoff - 2, cutoff])
            order = profs[:]
            rng.shuffle(order)
            hits = {i: [(order[i], 100)] for i in range(k)}
            chk.count("apply_directed_chain")
        elif rng.random() < 0.15:
            # directed: a cds() group without a positive member next to a positive requirement; whether it holds is decided
            # by a gene in range that has NO hit at all (or no entry in the results)
            x, a, b = rng.sample(range(NPROF), 3)
            inner = rng.choice([[("and", [("single", True, a), ("single", True, b)])],
                                [("or", [("single", True, a), ("single", False, b)])],
                                [("c", ("single", True, a))]])
            tree = ("group", False, [("and", [("single", False, x), ("cds", rng.random() < 0.4, inner)])])
            try:
                conditions = build(tree)
                cutoff = rng.choice([5, 20])
                rule = rp.DetectionRule("r", "cat", cutoff, 0, conditions)
            except ValueError:
                chk.count("apply_rejected")
                continue
            pos, genes, circ = rng.randint(0, 5), [], None
            for i in range(3):
                length = rng.randint(2, 9)
                genes.append((i, [(pos, pos + length, rng.choice([1, -1]))]))
                pos += length + rng.choice([1, cutoff - 1, cutoff - 1, cutoff])
            owners = [0, 1, 2]
            rng.shuffle(owners)
            hits = {owners[0]: [(x, 100), (a, 100)], owners[1]: [(b, 100)]}
            if rng.random() < 0.5:
                hits[owners[2]] = []
            chk.count("apply_directed_hitless_neighbour")
        if not hits:
            continue
        end = max(e for _, parts in genes for _, e, _ in parts)
        length = circ if circ else end + rng.choice([0, 1, cutoff, cutoff + 5])
        try:
            record = detect_util.make_record(length, bool(circ), [(f"g{gid}", parts) for gid, parts in genes])
        except Exception:  # pylint: disable=broad-except
            chk.count("apply_record_rejected")
            continue
        flavour = draw_flavour(rng)
        results = {f"g{gid}": [mk_hit(f"g{gid}", p, s2, flavour) for p, s2 in hs] for gid, hs in hits.items()}
        parts_of = dict(genes)
        calls = []
        original = rule.detect

        self_anchors = set()

        def spy(name, feats, res, circular_origin=None, _calls=calls, _orig=original, _self=self_anchors):
            _calls.append((name, list(feats), {k: [(names[h.query_id], int(round(h.bitscore * 2))) for h in v]
                                                 for k, v in res.items()}, circular_origin))
            answer = _orig(name, feats, res, circular_origin=circular_origin)
            if answer.met and answer.matches:
                _self.add(int(name[1:]))
            return answer
        rule.detect = spy
        try:
            domains, type_hits = cluster_prediction.apply_cluster_rules(record, results, [rule])
        except Exception as exc:  # pylint: disable=broad-except
            chk.count("apply_error_" + type(exc).__name__)
            continue
        flat = [PROP, 3, len(calls)]
        for name, feat_names, res, origin in calls:
            gl = [(int(f[1:]), parts_of[int(f[1:])]) for f in feat_names]
            flat += [int(name[1:])] + enc_ctx(cutoff, origin, gl, {int(k[1:]): v for k, v in res.items()})
        flat += enc_tree(tree)
        # the same record WITHOUT looking at what the implementation handed to rule.detect: every gene of the results
        # dictionary is evaluated against ALL genes and ALL hits of the record (the evaluator's own range test sorts out
        # the genes beyond the cutoff); the specification of the property on this input must give what was recorded
        origin = length if circ else 0
        whole = [PROP, 3, len(results)]
        for gname in sorted(results, key=lambda g: min(s for s, _, _ in parts_of[int(g[1:])])):
            whole += [int(gname[1:])] + enc_ctx(cutoff, origin, genes, hits)
        whole_cases.append(whole + enc_tree(tree))
        recorded = {int(g[1:]): sorted(names[m] for m in by_rule["r"]) for g, by_rule in domains.items() if "r" in by_rule}
        out = [len(recorded)]
        for gid in sorted(recorded):
            out += [gid, len(recorded[gid])] + recorded[gid]
        if set(recorded) != {int(g[1:]) for g in type_hits.get("r", set())}:
            out.append(-2)      # cluster_type_hits and the per-gene domains name different genes
        cases.append(flat)
        impl_outs.append(out)
        inputs.append({"tree": tree, "cutoff": cutoff, "record_length": length, "circular": bool(circ), "genes": genes,
                       "hits": hits, "hit_objects": flavour, "detect_calls": calls, "implementation": out})
        chk.count("apply_rule_cases")
        if set(recorded) - self_anchors:
            chk.count("apply_promoted_gene_not_anchoring_itself")
        chk.count("apply_hits_%d" % min(len(recorded), 4))
        chk.note_case(flat, len(recorded) >= 2, inputs[-1] if len(recorded) >= 2 and rng.random() < 0.01 else None)
    return cases, impl_outs, inputs


# ------------------------------------------------------------------------------------------------
# HISTORIES: one rule object (parsed ONCE from rule text, or built once through the constructors),
# asked about a sequence of arrangements that re-use the same gene names.  Every single answer is
# compared with the model's / the specification's value for that (rule, arrangement, gene) - the
# model is pure, so that value is what the property demands whatever the object was asked before.
# ------------------------------------------------------------------------------------------------


def tree_text(tree):
    """ rule-grammar text of a condition tree """
    kind = tree[0]
    neg = "not " if tree[1] else ""
    if kind == "single":
        return f"{neg}{pname(tree[2])}"
    if kind == "score":
        return f"{neg}minscore({pname(tree[2])}, {tree[3]})"
    if kind == "minimum":
        return f"{neg}minimum({tree[2]}, [{', '.join(pname(o) for o in tree[3])}])"
    inner = items_text(tree[2])
    return f"{neg}cds({inner})" if kind == "cds" else f"{neg}({inner})"


def items_text(items):
    return " or ".join(tree_text(i[1]) if i[0] == "c" else " and ".join(tree_text(c) for c in i[1]) for i in items)


def reflect(cond, names):
    """ the tree of a condition OBJECT, read off its attributes (so that the model is given what the parser really
        built, whatever normalisation it applies: the parser itself is C02's subject) """
    from antismash.common.hmm_rule_parser import rule_parser as rp
    if isinstance(cond, rp.SingleCondition):
        return ("single", bool(cond.negated), names[cond.name])
    if isinstance(cond, rp.ScoreCondition):
        return ("score", bool(cond.negated), names[cond.name], int(cond.score))
    if isinstance(cond, rp.MinimumCondition):
        return ("minimum", bool(cond.negated), int(cond.count), sorted(names[o] for o in cond.options))
    items = []
    subs = cond.sub_conditions
    if any(op != rp.TokenTypes.OR for op in subs[1::2]):
        raise ValueError("unexpected operator in an or-list")
    for sub in subs[::2]:
        if isinstance(sub, rp.AndCondition):
            items.append(("and", [reflect(o, names) for o in sub.sub_conditions[::2]]))
        else:
            items.append(("c", reflect(sub, names)))
    return ("cds" if isinstance(cond, rp.CDSCondition) else "group", bool(cond.negated), items)


def tree_profiles(tree):
    if tree[0] in ("single", "score"):
        return {tree[2]}
    if tree[0] == "minimum":
        return set(tree[3])
    out = set()
    for item in tree[2]:
        for c in ([item[1]] if item[0] == "c" else item[1]):
            out |= tree_profiles(c)
    return out


def has_kind(tree, kind):
    if tree[0] == kind:
        return True
    if tree[0] in ("single", "score", "minimum"):
        return False
    return any(has_kind(c, kind) for item in tree[2] for c in ([item[1]] if item[0] == "c" else item[1]))


def directed_tree(rng):
    """ an anchoring part next to a part that a NEIGHBOUR can decide (plain or negated cds(...), name, minscore,
        minimum), joined by and/or in either order: the shapes in which the answer at a gene changes although the
        gene's own hits do not """
    a, b, c, d = rng.sample(range(NPROF), 4)
    n = lambda: rng.random() < 0.4
    anchor = rng.choice([
        ("single", False, a),
        ("group", False, [("c", ("single", False, a)), ("c", ("single", False, d))]),
        ("minimum", False, 1, sorted([a, d])),
        ("score", False, a, rng.choice([0, 1, 10])),
    ])
    inner = rng.choice([
        [("and", [("single", False, b), ("single", False, c)])],
        [("and", [("single", False, b), ("single", True, c)])],
        [("and", [("single", True, b), ("single", True, c)])],
        [("c", ("single", False, b)), ("c", ("score", False, c, rng.choice([0, 1, 10])))],
        [("and", [("single", False, b), ("score", False, c, rng.choice([0, 25]))])],
        [("and", [("single", False, b), ("group", n(), [("c", ("single", False, c)), ("c", ("single", False, d))])])],
    ])
    other = rng.choice([
        ("cds", n(), inner), ("cds", n(), inner), ("cds", n(), inner),
        ("single", n(), b), ("score", n(), b, rng.choice([0, 0, 1, 25, BIG])), ("minimum", n(), rng.choice([1, 2, 2, 3]), sorted([b, c])),
        ("group", n(), [("and", [("single", False, b), ("single", False, c)])]),
    ])
    parts = [anchor, other]
    if rng.random() < 0.5:
        parts.reverse()
    if rng.random() < 0.75:
        return ("group", False, [("and", parts)])
    return ("group", False, [("c", parts[0]), ("c", parts[1])])


def one_hit(rng, profs, thresholds=None):
    prof = rng.choice(profs) if profs and rng.random() < 0.85 else rng.randrange(NPROF)
    return (prof, draw_score2(rng, thresholds))


def mutate_gene_hits(rng, hits, gid, profs, thresholds=None):
    """ changes the hits of one gene: lose all, lose/gain single profiles of the rule, re-score """
    r = rng.random()
    old = list(hits.get(gid, []))
    if r < 0.12:
        hits.pop(gid, None)
        return
    if r < 0.2:
        hits[gid] = []
        return
    new = [h for h in old if rng.random() < 0.6]
    present = {p for p, _ in new}
    for prof in profs:
        if prof not in present and rng.random() < 0.4:
            new.append(one_hit(rng, [prof], thresholds))
    if rng.random() < 0.3:
        new = [(p, one_hit(rng, [p], thresholds)[1]) for p, _ in new]
    if new == old:
        new = old[1:] if old else [one_hit(rng, profs, thresholds)]
    hits[gid] = new


def next_arrangement(rng, arr, cutoff, profs, thresholds=None):
    """ the next arrangement of a history: same gene names, something changed (label says what) """
    circ, genes, hits = arr["circ"], list(arr["genes"]), {g: list(h) for g, h in arr["hits"].items()}
    r = rng.random()
    label = []
    if r < 0.5 or len(genes) < 2:
        for gid in rng.sample([g for g, _ in genes], min(len(genes), rng.choice([1, 1, 2]))):
            mutate_gene_hits(rng, hits, gid, profs, thresholds)
        label.append("hits")
    elif r < 0.6:
        first, second = rng.sample([g for g, _ in genes], 2)
        h1, h2 = hits.pop(first, None), hits.pop(second, None)
        if h2 is not None:
            hits[first] = h2
        if h1 is not None:
            hits[second] = h1
        label.append("swap")
    elif r < 0.75:
        _, circ, genes = gen_layout(rng, cutoff, len([g for g in genes if len(g[1]) == 1]) or 1)
        label.append("move")
    elif r < 0.83:
        victim = rng.choice(genes)
        genes.remove(victim)
        label.append("drop")
    elif r < 0.9:
        _, circ, genes = gen_layout(rng, cutoff)
        hits = gen_hits(rng, genes, thresholds, prefer=profs)
        label.append("fresh")
    elif r < 0.95:
        rng.shuffle(genes)
        keys = list(hits)
        rng.shuffle(keys)
        hits = {k: hits[k] for k in keys}
        label.append("reorder")
    else:
        label.append("same")
    known = {g for g, _ in genes}
    hits = {g: h for g, h in hits.items() if g in known}
    if rng.random() < 0.2 and "hits" not in label:
        mutate_gene_hits(rng, hits, rng.choice(sorted(known)), profs, thresholds)
        label.append("hits")
    return {"circ": circ, "genes": genes, "hits": hits, "change": "+".join(label)}


def eval_order(rng, arr):
    """ which genes are asked, in which order """
    genes = [g for g, _ in arr["genes"]]
    start = {g: min(p[0] for p in parts) for g, parts in arr["genes"]}
    with_hits = sorted((g for g in genes if g in arr["hits"]), key=lambda g: start[g])
    r = rng.random()
    if r < 0.4 and with_hits:
        return with_hits, "position"            # what apply_cluster_rules does
    if r < 0.52 and with_hits:
        return with_hits[::-1], "reverse"
    if r < 0.68:
        order = genes[:]
        rng.shuffle(order)
        return order, "shuffled"
    if r < 0.86:
        return [rng.choice(genes)], "single"
    order = rng.sample(genes, rng.randint(1, len(genes)))
    return order, "subset"


class HistoryRunner:
    """ runs a history document on the implementation.  The document is self-contained (rule text or constructor
        tree, cutoff, arrangements, evaluations), so that a failing history can be re-run, shrunk and replayed. """

    def __init__(self, names):
        self.names = names

    def make_rule(self, doc):
        """ -> (detect function(name, features, results, circ), conditions object, rule or None) """
        from antismash.common.hmm_rule_parser import rule_parser as rp
        if doc.get("rule_text") is not None:
            rule = rp.Parser(doc["rule_text"], set(self.names), {"cat"}).rules[0]
            rule.cutoff = doc["cutoff"]         # the way Ruleset applies its multipliers: an attribute of the rule object
            conditions = rule.conditions
        else:
            conditions = build(doc["tree"])
            try:
                rule = rp.DetectionRule("r", "cat", doc["cutoff"], 0, conditions)
            except ValueError:
                rule = None
        if rule is not None:
            return rule.detect, conditions, rule
        cutoff = doc["cutoff"]

        def detect(name, features, results, circ):
            return conditions.get_satisfied(rp.Details(name, features, results, cutoff, circ))
        return detect, conditions, None

    def run(self, doc, keep=None):
        """ evaluates the (kept) evaluations of the history with ONE rule object -> (tree, [encoded answers]) """
        from antismash.common.hmm_rule_parser.structures import ProfileHit
        detect, conditions, _rule = self.make_rule(doc)
        tree = reflect(conditions, self.names)
        flavour = doc.get("hit_objects", "profile")
        features, results, feature_objs, hit_lists = {}, {}, {}, {}
        outs = []
        current = None
        for index, (arr_idx, gid) in enumerate(doc["evaluations"]):
            if keep is not None and index not in keep:
                continue
            if arr_idx != current:
                current = arr_idx
                arr = doc["arrangements"][arr_idx]
                genes = [(g, [tuple(p) for p in parts]) for g, parts in arr["genes"]]
                hits = {int(g): [tuple(h) for h in hs] for g, hs in arr["hits"].items()}
                if doc["inplace"]:
                    # the very same dict, feature and list objects, changed in place (a caller re-running detect()
                    # after its hits changed)
                    features.clear()
                    for g, parts in genes:
                        obj = feature_objs.setdefault(g, types.SimpleNamespace(location=None))
                        obj.location = mk_location(parts)
                        features[f"g{g}"] = obj
                    results.clear()
                    for g, hs in hits.items():
                        lst = hit_lists.setdefault(g, [])
                        lst[:] = [mk_hit(f"g{g}", p, s2, flavour) for p, s2 in hs]
                        results[f"g{g}"] = lst
                else:
                    features = {f"g{g}": types.SimpleNamespace(location=mk_location(parts)) for g, parts in genes}
                    results = {f"g{g}": [mk_hit(f"g{g}", p, s2, flavour) for p, s2 in hs] for g, hs in hits.items()}
            try:
                out = enc_result(detect(f"g{gid}", features, results, arr["circ"]), self.names)
            except Exception as exc:  # pylint: disable=broad-except
                out = [-1, err_code(exc)]
            outs.append(out)
        after = reflect(conditions, self.names)
        return tree, outs, after


def history_flat(doc, tree, fn):
    flat = [PROP, fn, len(doc["evaluations"])]
    for arr_idx, gid in doc["evaluations"]:
        arr = doc["arrangements"][arr_idx]
        flat += [gid] + enc_ctx(doc["cutoff"], arr["circ"], arr["genes"], {int(g): h for g, h in arr["hits"].items()})
    return flat + enc_tree(tree)


def split_results(out):
    """ [n, res1..., res2...] -> [res1, res2, ...] (each res: met, matches, ancillary - or -1, error code) """
    parts, i = [], 1
    for _ in range(out[0]):
        j = i
        if out[j] < 0:
            j += 2
        else:
            j += 2 + out[j + 1]
            n_anc = out[j]
            j += 1
            for _ in range(n_anc):
                j += 2 + out[j + 1]
        parts.append(out[i:j])
        i = j
    if i != len(out):
        raise ValueError("trailing data in a history result")
    return parts


def gen_history_doc(rng, trees, strict_trees, names, runner):
    """ -> history document or None (rule refused by parser/constructors) """
    from antismash.common.hmm_rule_parser import rule_parser as rp
    r = rng.random()
    directed = r < 0.35
    if directed:
        tree = directed_tree(rng)
    elif r < 0.75:
        tree = ("group", False, strict_trees.items(rng.choice([0, 1, 2, 2]), False))
    else:
        tree = trees.cond(rng.choice([1, 2, 3]), False)
        if tree[0] not in ("group", "cds"):
            tree = ("group", False, [("c", tree)])
    parsed = (directed or r < 0.75) and rng.random() < 0.85
    cutoff = rng.choice([1, 5, 20, 20, 50, 1000])
    doc = {"cutoff": cutoff, "inplace": rng.random() < 0.4, "directed": directed, "hit_objects": draw_flavour(rng)}
    if parsed:
        doc["rule_text"] = f"RULE r CATEGORY cat CUTOFF 1 NEIGHBOURHOOD 1 CONDITIONS {items_text(tree[2])}"
        doc["tree"] = None
    else:
        doc["rule_text"] = None
        doc["tree"] = tree
    try:
        _detect, conditions, _rule = runner.make_rule(doc)
    except (ValueError, rp.RuleSyntaxError):
        return None
    tree = reflect(conditions, names)
    profs = sorted(tree_profiles(tree))
    thresholds = tree_thresholds(tree) + THRESHOLD_POOL
    # first arrangement; directed histories keep the genes close together so that neighbours decide
    n_genes = rng.choice([2, 2, 3, 3, 4]) if directed else None
    _, circ, genes = gen_layout(rng, cutoff, n_genes)
    hits = gen_hits(rng, genes, thresholds, prefer=profs)
    arrangements = [{"circ": circ, "genes": genes, "hits": hits, "change": "first"}]
    for _ in range(rng.choice([1, 1, 2, 2, 3])):
        arrangements.append(next_arrangement(rng, arrangements[-1], cutoff, profs, thresholds))
    evaluations, orders = [], []
    for idx, arr in enumerate(arrangements):
        order, how = eval_order(rng, arr)
        orders.append(how)
        evaluations += [(idx, gid) for gid in order]
    doc.update({"arrangements": arrangements, "evaluations": evaluations, "orders": orders, "reflected_tree": tree})
    return doc


def shrink_history(runner, doc, k, wanted):
    """ smallest sub-history (greedy) that still makes evaluation k answer something else than `wanted` """
    keep = list(range(k))

    def fails(indices):
        _t, outs, _a = runner.run(doc, keep=set(indices) | {k})
        return outs[-1] != wanted
    for j in list(keep):
        trial = [i for i in keep if i != j]
        if fails(trial):
            keep = trial
    return keep


def history_stream(chk, rng, trees, names, n_histories):
    """ the history case family at the level of DetectionRule.detect """
    runner = HistoryRunner(names)
    strict_trees = Tree(rng, strict=True)
    cases, impl_outs, docs = [], [], []
    while len(cases) < n_histories:
        doc = gen_history_doc(rng, trees, strict_trees, names, runner)
        if doc is None:
            chk.count("history_rule_rejected")
            continue
        tree, outs, after = runner.run(doc)
        if tree != doc["reflected_tree"]:
            raise AssertionError("reflected tree not reproducible")
        if after != tree:
            chk.violation("counterexample", "evaluating a rule changed the rule's own condition tree",
                          {"theorem_or_correspondence": "rule object unchanged by detect()", "input": doc,
                           "tree_before": tree, "tree_after": after})
        flat = history_flat(doc, tree, 5)
        cases.append(flat)
        impl_outs.append([len(outs)] + [x for o in outs for x in o])
        docs.append(doc)
        chk.count("histories")
        chk.count("history_parsed_rule" if doc["rule_text"] is not None else "history_constructor_rule")
        chk.count("history_inplace_objects" if doc["inplace"] else "history_fresh_objects")
        if doc["directed"]:
            chk.count("history_directed")
        if has_kind(tree, "cds"):
            chk.count("history_with_cds")
        for arr in doc["arrangements"][1:]:
            chk.count("history_change_" + arr["change"])
        for how in doc["orders"]:
            chk.count("history_order_" + how)
        chk.count("history_arrangements_%d" % len(doc["arrangements"]))
        # non-trivial: the same gene name is asked again in a later arrangement and the answer differs although the
        # gene's own hits are the same (so something around it decided)
        last, flipped = {}, False
        for (arr_idx, gid), out in zip(doc["evaluations"], outs):
            own = doc["arrangements"][arr_idx]["hits"].get(gid)
            if gid in last and last[gid][0] != arr_idx:
                if last[gid][1] != out:
                    chk.count("history_answer_changed_for_gene_name")
                    if last[gid][2] == own:
                        chk.count("history_answer_changed_own_hits_same")
                        flipped = True
            last[gid] = (arr_idx, out, own)
        for (arr_idx, gid), out in zip(doc["evaluations"], outs):
            chk.note_case([flat[0], 5, len(cases), arr_idx, gid] + flat[2:40], flipped, None)
            if out[0] < 0:
                chk.count("history_error_" + common.ERR_NAME.get(out[1], str(out[1])))
        if flipped and len(chk.samples) < 6 and rng.random() < 0.02:
            chk.samples.append({"history": doc, "implementation": outs})
    # ---- verdict of the specification at every position (fn 6), first differing evaluation, shrunk
    spec_outs = common.run_driver([[c[0], 6] + c[2:] for c in cases])
    chk.extra["history_spec_verdicts"] = sum(c[2] for c in cases)
    bad = [i for i, (s, o) in enumerate(zip(spec_outs, impl_outs)) if s != o]
    chk.extra["history_spec_failures"] = len(bad)
    if bad:
        bad.sort(key=lambda i: len(cases[i]))
        i = bad[0]
        doc = docs[i]
        spec_parts = split_results(spec_outs[i])
        impl_parts = split_results(impl_outs[i])
        k = next(j for j, (a, b) in enumerate(zip(spec_parts, impl_parts)) if a != b)
        keep = shrink_history(runner, doc, k, spec_parts[k])
        _t, alone, _a = runner.run(doc, keep={k})
        arr_idx, gid = doc["evaluations"][k]
        if alone[0] == spec_parts[k]:
            what = (f"history dependence: evaluation #{k} (gene g{gid} of arrangement {arr_idx}) answers {impl_parts[k]} after "
                    f"the earlier evaluations {keep} on the same rule object, but {alone[0]} (= specification) when a freshly "
                    "built rule object is asked the same question alone")
        else:
            what = (f"evaluation #{k} (gene g{gid} of arrangement {arr_idx}) answers {impl_parts[k]}, the specification says "
                    f"{spec_parts[k]} (also without history: {alone[0]})")
        minimal = dict(doc)
        minimal["evaluations"] = [doc["evaluations"][j] for j in keep + [k]]
        chk.violation("counterexample", f"DetectionRule.detect over a history (one rule object, {len(bad)} failing histories): " + what,
                      {"theorem_or_correspondence": "C01_history_meaning / C01_history_independent vs DetectionRule.detect",
                       "function": 5, "flat": cases[i], "implementation": impl_outs[i], "specification": spec_outs[i],
                       "rule": doc["rule_text"] or tree_text(doc["reflected_tree"]), "tree": doc["reflected_tree"],
                       "first_differing_evaluation": {"index": k, "arrangement": arr_idx, "gene": f"g{gid}",
                                                      "implementation_in_history": impl_parts[k],
                                                      "specification": spec_parts[k],
                                                      "implementation_alone_on_fresh_rule": alone[0]},
                       "minimal_history": {"evaluations_kept": keep + [k],
                                           "arrangements": {a: doc["arrangements"][a] for a in
                                                            sorted({doc["evaluations"][j][0] for j in keep + [k]})},
                                           "sequence": [f"arrangement {a}: detect(g{g})" for a, g in minimal["evaluations"]]},
                       "input": doc, "failing_histories": len(bad)})
    # ---- faithful model over the history (fn 5) ...
    model_outs = common.correspondence(chk, cases, impl_outs, label="history of detect() calls on one rule object: model vs implementation",
                                       describe=lambda flat: {"function": "DetectionRule.detect x history", "payload": flat[2:]})
    # ---- ... and C01_history_run observed: fn 5 = concatenation of fn 1 over the evaluations taken alone
    singles, owners = [], []
    for i, doc in enumerate(docs):
        etree = enc_tree(doc["reflected_tree"])
        for arr_idx, gid in doc["evaluations"]:
            arr = doc["arrangements"][arr_idx]
            singles.append([PROP, 1] + enc_ctx(doc["cutoff"], arr["circ"], arr["genes"], arr["hits"]) + etree + [gid])
            owners.append(i)
    single_outs = common.run_driver(singles)
    glued = {}
    for owner, out in zip(owners, single_outs):
        glued.setdefault(owner, []).extend(out)
    differ = [i for i in range(len(docs)) if [len(docs[i]["evaluations"])] + glued.get(i, []) != model_outs[i]]
    chk.extra["history_fn5_vs_fn1_differ"] = len(differ)
    if differ:
        chk.violation("broken-correspondence", "fn 5 (history run) differs from fn 1 on the single evaluations although "
                      "C01_history_run proves them equal", {"theorem_or_correspondence": "C01_history_run", "flat": cases[differ[0]]})
    chk.crosscheck_vm(cases, model_outs, k=40 if chk.tier == "quick" else 300)
    return len(cases)


def apply_history_stream(chk, rng, names, n_histories):
    """ the same rule OBJECTS (one rule text with 1-2 rules, parsed once) applied to several records that share
        their gene names, through the real entry points: cluster_prediction.apply_cluster_rules on real secmet
        Records and, for a part of the histories, detect_protoclusters_and_signatures with a Ruleset built once and
        dynamic profiles (what hmm_detection.run_on_record does for every record of the input).  rule.detect is
        wrapped to record the arguments and the answer of every call. """
    import detect_util
    from antismash.common.hmm_rule_parser import rule_parser as rp, cluster_prediction
    from antismash.common.hmm_rule_parser.structures import ProfileHit, DynamicProfile, DynamicHit, Multipliers
    from antismash.common.hmm_rule_parser.test.helpers import create_ruleset
    strict_trees = Tree(rng, strict=True)
    plain_detect = rp.DetectionRule.detect
    det_cases, det_impl, det_docs = [], [], []
    app_cases, app_impl, app_docs = [], [], []
    n_done = 0
    while n_done < n_histories:
        n_rules = rng.choice([1, 1, 2])
        gen_trees = [directed_tree(rng) if rng.random() < 0.45 else
                     ("group", False, strict_trees.items(rng.choice([0, 1, 2]), False)) for _ in range(n_rules)]
        text = "\n".join(f"RULE r{i} CATEGORY cat CUTOFF 1 NEIGHBOURHOOD 1 CONDITIONS {items_text(t[2])}"
                         for i, t in enumerate(gen_trees))
        try:
            rules = rp.Parser(text, set(names), {"cat"}).rules
        except (ValueError, rp.RuleSyntaxError):
            chk.count("apply_history_rule_rejected")
            continue
        pipeline = rng.random() < 0.35
        # the distances of the rules: either set on the rule objects (as Ruleset does), or - in a part of the pipeline
        # histories - left as parsed (CUTOFF 1 = 1000) and scaled ONCE by the Ruleset's multipliers (what
        # hmm_detection.get_ruleset does for fungal records).  `cutoffs` is what each rule's cutoff has to be for the
        # whole history; the model is given these values, not whatever the attribute holds at call time.
        multiplier = rng.choice([0.005, 0.02, 0.05, 0.5]) if pipeline and rng.random() < 0.3 else None
        if multiplier is None:
            cutoff = rng.choice([5, 20, 20, 50, 1000])
            cutoffs = [cutoff] + [cutoff if rng.random() < 0.5 else rng.choice([5, 20, 50])] * (n_rules - 1)
            for rule, value in zip(rules, cutoffs):
                rule.cutoff = value
                rule.neighbourhood = rng.choice([0, 5, 20])
        else:
            cutoff = int(1000 * multiplier)
            cutoffs = [cutoff] * n_rules
        reflected = [reflect(rule.conditions, names) for rule in rules]
        profs = sorted(set().union(*[tree_profiles(t) for t in reflected]))
        thresholds = [s for t in reflected for s in tree_thresholds(t)] + THRESHOLD_POOL
        flavour = draw_flavour(rng)
        current_hits = {}

        # in a part of the pipeline histories some profiles are HMMer profiles (their hits come from find_hmmer_hits, which
        # is replaced) and the others dynamic ones: a gene then carries hits from BOTH sources, which
        # detect_protoclusters_and_signatures has to merge
        hmmer_names = set(rng.sample(sorted(names), rng.randint(1, max(1, len(names) - 1)))) if pipeline and rng.random() < 0.5 else set()

        def mk_profile(profile, _hits=current_hits):
            def find(_record, _hmmer_hits):
                # a score of exactly 0 is left to DynamicHit's default argument
                return {gene: [DynamicHit(gene, profile) if s2 == 0 else DynamicHit(gene, profile, bitscore=s2 / 2)
                               for p, s2 in hs if pname(p) == profile]
                        for gene, hs in _hits.items() if any(pname(p) == profile for p, _ in hs)}
            return DynamicProfile(profile, "d", find)

        def canned_hmmer(_record, _signatures, _database, _groups, _hits=current_hits):
            from antismash.common.hmm_rule_parser.structures import HMMerHit
            found = {gene: [HMMerHit(gene, pname(p), 0, 10, 1, 1e-20, s2 / 2) for p, s2 in hs if pname(p) in hmmer_names]
                     for gene, hs in _hits.items()}
            return {gene: hs for gene, hs in found.items() if hs}
        ruleset = None
        if pipeline:
            try:
                if multiplier is None:
                    ruleset = create_ruleset(rules, dynamic_profiles={p: mk_profile(p) for p in names if p not in hmmer_names},
                                             hmm_profiles={p: object() for p in hmmer_names})
                    if hmmer_names:
                        chk.count("apply_history_hmmer_and_dynamic_profiles")
                else:
                    ruleset = cluster_prediction.Ruleset(tuple(rules), {p: object() for p in hmmer_names}, "dummy_seeds", {"cat"},
                                                         tool="test_tool",
                                                         dynamic_profiles={p: mk_profile(p) for p in names if p not in hmmer_names},
                                                         equivalence_groups=set(),
                                                         multipliers=Multipliers(multiplier, 1.0))
                    chk.count("apply_history_ruleset_multiplier")
            except ValueError:
                chk.count("apply_history_ruleset_rejected")
                continue
        lost_hits = []
        calls = [[] for _ in rules]        # per rule: (record index, gene, ctx flat, answer)
        parts_of = {}
        records = []                        # per record: {"arrangement", "length", "outs": per rule}
        index_of = {rule.name: index for index, rule in enumerate(rules)}

        # DetectionRule.detect is wrapped at class level for the duration of this history (by rule name, so that it
        # also sees calls on copies of the rule objects, should a Ruleset ever hold copies)
        def spy(self, name, feats, res, circular_origin=None):
            index = index_of[self.name]
            ctx = enc_ctx(cutoffs[index], circular_origin, [(int(f[1:]), parts_of[int(f[1:])]) for f in feats],
                          {int(k[1:]): [(names[h.query_id], int(round(h.bitscore * 2))) for h in v] for k, v in res.items()})
            if pipeline and not lost_hits:
                # every hit given to the pipeline for a gene of the neighbourhood reaches the rule evaluation
                for gene in feats:
                    want = sorted((pname(p), s2) for p, s2 in current_hits.get(gene, []))
                    got = sorted((h.query_id, int(round(h.bitscore * 2))) for h in res.get(gene, []))
                    if want != got:
                        lost_hits.append({"gene": gene, "hits_given": want, "hits_handed_to_rule.detect": got,
                                          "hmmer_profiles": sorted(hmmer_names)})
                        break
            try:
                answer = plain_detect(self, name, feats, res, circular_origin=circular_origin)
            except Exception as exc:  # pylint: disable=broad-except
                calls[index].append((len(records), int(name[1:]), ctx, [-1, err_code(exc)]))
                raise
            calls[index].append((len(records), int(name[1:]), ctx, enc_result(answer, names)))
            return answer
        rp.DetectionRule.detect = spy
        try:
            _, circ, genes = gen_layout(rng, cutoff)
            arr = {"circ": circ, "genes": genes, "hits": gen_hits(rng, genes, thresholds, prefer=profs), "change": "first"}
            for _ in range(rng.choice([2, 2, 3, 4])):
                end = max(e for _, parts in arr["genes"] for _, e, _ in parts)
                length = arr["circ"] if arr["circ"] else end + rng.choice([0, 1, cutoff, cutoff + 5])
                try:
                    record = detect_util.make_record(length, bool(arr["circ"]), [(f"g{g}", parts) for g, parts in arr["genes"]])
                except Exception:  # pylint: disable=broad-except
                    chk.count("apply_history_record_rejected")
                    arr = next_arrangement(rng, arr, cutoff, profs, thresholds)
                    continue
                parts_of.clear()
                parts_of.update(dict(arr["genes"]))
                outs = None
                if pipeline:
                    current_hits.clear()
                    current_hits.update({f"g{g}": hs for g, hs in arr["hits"].items() if hs})
                    if multiplier is None and records and rng.random() < 0.3:
                        # the rule objects move into a new Ruleset between two records (unit multipliers: nothing may change)
                        ruleset = ruleset.copy_with_replacements(rules=list(ruleset.rules))
                        chk.count("apply_history_ruleset_rewrapped")
                    try:
                        with mock.patch.object(cluster_prediction, "find_hmmer_hits", side_effect=canned_hmmer):
                            cluster_prediction.detect_protoclusters_and_signatures(record, ruleset)
                    except Exception as exc:  # pylint: disable=broad-except
                        # everything after apply_cluster_rules (protocluster formation) is C03's subject
                        chk.count("apply_history_pipeline_error_" + type(exc).__name__)
                else:
                    results = {f"g{g}": [mk_hit(f"g{g}", p, s2, flavour) for p, s2 in hs] for g, hs in arr["hits"].items()}
                    try:
                        domains, type_hits = cluster_prediction.apply_cluster_rules(record, results, rules)
                        outs = []
                        for rule in rules:
                            recorded = {int(g[1:]): sorted(names[m] for m in by_rule[rule.name])
                                        for g, by_rule in domains.items() if rule.name in by_rule}
                            out = [len(recorded)]
                            for gid in sorted(recorded):
                                out += [gid, len(recorded[gid])] + recorded[gid]
                            if set(recorded) != {int(g[1:]) for g in type_hits.get(rule.name, set())}:
                                out.append(-2)
                            outs.append(out)
                    except Exception as exc:  # pylint: disable=broad-except
                        chk.count("apply_history_error_" + type(exc).__name__)
                        outs = [[-1, err_code(exc)] for _ in rules]
                records.append({"arrangement": arr, "length": length, "outs": outs})
                arr = next_arrangement(rng, arr, cutoff, profs, thresholds)
        finally:
            rp.DetectionRule.detect = plain_detect
        if lost_hits and not any(v[1].startswith("detect_protoclusters_and_signatures: hits") for v in chk.violations):
            chk.violation("counterexample", "detect_protoclusters_and_signatures: hits found for a gene do not reach the evaluation of "
                          "the rules (profile hits of the HMMer search and of dynamic profiles on one gene)",
                          {"theorem_or_correspondence": "C01 'a profile name is true if it hits the gene' / hits handed to rule.detect",
                           "input": dict(lost_hits[0], rule_text=text)})
        if len(records) < 2:
            continue
        n_done += 1
        chk.count("apply_histories_pipeline" if pipeline else "apply_histories_direct")
        chk.count("apply_history_rules_%d" % n_rules)
        for index, rule in enumerate(rules):
            etree = enc_tree(reflected[index])
            after = reflect(rule.conditions, names)
            doc = {"rule_text": text, "rule_index": index, "cutoff": cutoffs[index], "cutoff_attribute_at_end": rule.cutoff,
                   "ruleset_cutoff_multiplier": multiplier, "tree": reflected[index],
                   "entry_point": "detect_protoclusters_and_signatures" if pipeline else "apply_cluster_rules",
                   "records": [{"arrangement": r["arrangement"], "length": r["length"]} for r in records],
                   "detect_calls": [(rec, f"g{gid}") for rec, gid, _, _ in calls[index]]}
            if after != reflected[index]:
                chk.violation("counterexample", "applying a rule to records changed the rule's own condition tree",
                              {"theorem_or_correspondence": "rule object unchanged by detect()", "input": doc,
                               "tree_before": reflected[index], "tree_after": after})
            if calls[index]:
                flat = [PROP, 5, len(calls[index])]
                for _rec, gid, ctx, _answer in calls[index]:
                    flat += [gid] + ctx
                det_cases.append(flat + etree)
                det_impl.append([len(calls[index])] + [x for c in calls[index] for x in c[3]])
                det_docs.append(doc)
                for _rec, gid, ctx, _answer in calls[index]:
                    chk.note_case([PROP, 5, n_done, index, gid] + ctx[:40], len(records) >= 2, None)
                chk.count("apply_history_detect_calls", len(calls[index]))
            if not pipeline:
                flat = [PROP, 7, len(records)]
                for rec_index in range(len(records)):
                    mine = [c for c in calls[index] if c[0] == rec_index]
                    flat.append(len(mine))
                    for _rec, gid, ctx, _answer in mine:
                        flat += [gid] + ctx
                app_cases.append(flat + etree)
                app_impl.append([len(records)] + [x for r in records for x in r["outs"][index]])
                app_docs.append(doc)
                chk.count("apply_history_records", len(records))
    # ---- every detect() call seen on the way, in call order, against the specification and the model
    spec_outs = common.run_driver([[c[0], 6] + c[2:] for c in det_cases])
    bad = [i for i, (s, o) in enumerate(zip(spec_outs, det_impl)) if s != o]
    chk.extra["apply_history_detect_spec_failures"] = len(bad)
    if bad:
        bad.sort(key=lambda i: len(det_cases[i]))
        i = bad[0]
        doc = det_docs[i]
        spec_parts, impl_parts = split_results(spec_outs[i]), split_results(det_impl[i])
        k = next(j for j, (a, b) in enumerate(zip(spec_parts, impl_parts)) if a != b)
        rec, gene = doc["detect_calls"][k]
        chk.violation("counterexample", f"{doc['entry_point']} over several records with the same rule objects ({len(bad)} failing "
                      f"histories): detect call #{k} (gene {gene} of record {rec}) answered {impl_parts[k]}, the specification for "
                      f"that rule, arrangement and gene is {spec_parts[k]}",
                      {"theorem_or_correspondence": "C01_history_meaning vs rule.detect inside " + doc["entry_point"],
                       "function": 5, "flat": det_cases[i], "implementation": det_impl[i], "specification": spec_outs[i],
                       "rule": doc["rule_text"], "tree": doc["tree"],
                       "first_differing_evaluation": {"index": k, "record": rec, "gene": gene,
                                                      "implementation_in_history": impl_parts[k], "specification": spec_parts[k]},
                       "input": doc, "failing_histories": len(bad)})
    det_model = common.correspondence(chk, det_cases, det_impl,
                                      label="rule.detect calls inside apply_cluster_rules over several records: model vs implementation",
                                      describe=lambda flat: {"function": "DetectionRule.detect x records", "payload": flat[2:]})
    # ---- what apply_cluster_rules recorded per record (fn 7 model, fn 8 specification)
    a_spec = common.run_driver([[c[0], 8] + c[2:] for c in app_cases])
    bad = [i for i, (s, o) in enumerate(zip(a_spec, app_impl)) if s != o]
    chk.extra["apply_history_spec_failures"] = len(bad)
    if bad:
        bad.sort(key=lambda i: len(app_cases[i]))
        i = bad[0]
        chk.violation("counterexample", f"apply_cluster_rules over several records with the same rule objects: the genes/profiles "
                      f"recorded for rule r{app_docs[i]['rule_index']} differ from recorded_spec of the records taken alone "
                      f"({len(bad)} failing histories)",
                      {"theorem_or_correspondence": "C01_apply_history vs apply_cluster_rules", "function": 7, "flat": app_cases[i],
                       "implementation": app_impl[i], "specification": a_spec[i], "rule": app_docs[i]["rule_text"],
                       "input": app_docs[i], "failing_histories": len(bad)})
    a_model = common.correspondence(chk, app_cases, app_impl,
                                    label="apply_cluster_rules over several records: model vs implementation",
                                    describe=lambda flat: {"function": "apply_cluster_rules x records", "payload": flat[2:]})
    differ = [i for i, (m, s) in enumerate(zip(a_model, a_spec)) if m != s]
    chk.extra["apply_history_model_vs_spec_differ"] = len(differ)
    if differ:
        chk.violation("broken-correspondence", "apply_history model and specification differ",
                      {"theorem_or_correspondence": "C01_apply_history", "flat": app_cases[differ[0]]})
    chk.crosscheck_vm(det_cases, det_model, k=20 if chk.tier == "quick" else 150)
    chk.crosscheck_vm(app_cases, a_model, k=20 if chk.tier == "quick" else 150)
    return n_done


RESCALE_CLASS = "ruleset_rescales_shared_rules"
DYADIC = [(1, 1), (1, 2), (3, 2), (2, 1), (1, 4), (3, 1)]


def cutoff_life_stream(chk, rng, n_lives):
    """ state OUTSIDE the evaluator: the cutoff / neighbourhood a rule is evaluated with, through the parser and a sequence
        of Ruleset constructions (Ruleset(...) over the rule objects the newest holder detects with,
        copy_with_replacements of the newest ruleset; Ruleset.from_files for the stored witness).  Each life is compared
        with the model [cutoff_life] (fn 9) and with an independent oracle: a copy holds what its source was GIVEN times
        its own multiplier, a Ruleset what it is given times its own multiplier; in a chain of copies from a ruleset over
        the parsed rule that is text * own multiplier.  No holder's values may change after its construction and a plain
        copy keeps the values.  Finding C01-H1 (class ruleset_rescales_shared_rules: in-place scaling of shared rule
        objects) is repaired: nothing is attributed to it any more, its witnesses are the first lives. """
    import shutil
    import tempfile
    from antismash.common.hmm_rule_parser import rule_parser as rp, cluster_prediction
    from antismash.common.hmm_rule_parser.structures import Multipliers, DynamicProfile
    dynamic = {"p0": DynamicProfile("p0", "d", lambda _record, _hits: {})}

    def mult(m):
        return Multipliers(m[0] / m[1], m[0] / m[1])

    def life(kb, m0, ms, how):
        """ -> values seen through the newest holder after parsing and after every construction (cutoffs, neighbourhoods),
            the holders whose view changed after they were created, whether a plain copy kept the values, and the
            constructions as performed (a "copy" before any ruleset exists is a construction) """
        text = f"RULE r CATEGORY cat CUTOFF {kb} NEIGHBOURHOOD {kb} CONDITIONS p0"
        rules = rp.Parser(text, {"p0"}, {"cat"}, multipliers=mult(m0)).rules
        holders = [("parsed rule object", rules[0], rules[0].cutoff, rules[0].neighbourhood)]
        cutoffs, neighbourhoods = [rules[0].cutoff], [rules[0].neighbourhood]
        ruleset, current, done = None, rules, []
        for number, (m, step) in enumerate(zip(ms, how)):
            if step == "copy" and ruleset is not None:
                ruleset = ruleset.copy_with_replacements(rules=list(ruleset.rules), multipliers=mult(m))
                done.append(True)
            else:
                ruleset = cluster_prediction.Ruleset(tuple(current), {}, "seeds", {"cat"}, tool="t", dynamic_profiles=dynamic,
                                                     equivalence_groups=set(), multipliers=mult(m))
                done.append(False)
            current = list(ruleset.rules)
            rule = ruleset.rules[0]
            cutoffs.append(rule.cutoff)
            neighbourhoods.append(rule.neighbourhood)
            holders.append((f"ruleset #{number} ({step}, x{m[0]}/{m[1]})", rule, rule.cutoff, rule.neighbourhood))
        changed = [f"{name}: {(c, n)} -> {(obj.cutoff, obj.neighbourhood)}" for name, obj, c, n in holders
                   if (obj.cutoff, obj.neighbourhood) != (c, n)]
        kept = None
        if ruleset is not None:
            plain = ruleset.copy_with_replacements(tool="t2")
            kept = (plain.rules[0].cutoff, plain.rules[0].neighbourhood) == (cutoffs[-1], neighbourhoods[-1])
        return cutoffs, neighbourhoods, changed, kept, done
    # the witnesses of the repaired finding C01-H1 first: a ruleset with 3/2 and a copy / a second ruleset over the same
    # objects (was 10000, 15000, 22500 - the same object in all holders), the fungal path of hmm_detection
    corpus = [(10, (1, 1), [(3, 2), (3, 2)], ["new", "copy"]), (10, (1, 1), [(3, 2), (3, 2)], ["new", "new"]),
              (10, (1, 1), [(1, 1), (3, 2)], ["new", "copy"]), (10, (3, 2), [(3, 2), (1, 2)], ["new", "copy"])]
    cases, impl_outs, metas = [], [], []
    for _ in range(n_lives):
        if corpus:
            kb, m0, ms, how = corpus.pop(0)
        else:
            kb = rng.choice([1, 2, 5, 10, 20, 45])
            n_sets = rng.choice([0, 1, 1, 2, 3, 4])
            if rng.random() < 0.3:
                # at most one non-unit multiplier in the whole life
                all_ms = [(1, 1)] * (n_sets + 1)
                if rng.random() < 0.7:
                    all_ms[rng.randrange(len(all_ms))] = rng.choice(DYADIC[1:])
            else:
                all_ms = [rng.choice([(1, 1), (1, 1)] + DYADIC) for _ in range(n_sets + 1)]
                if rng.random() < 0.6:
                    all_ms[0] = (1, 1)
            m0, ms = all_ms[0], all_ms[1:]
            how = [rng.choice(["new", "copy", "copy"]) for _ in ms]
        all_ms = [m0] + list(ms)
        cutoffs, neighbourhoods, changed, kept, done = life(kb, m0, ms, how)
        non_unit = [m for m in all_ms if m != (1, 1)]
        chk.count("cutoff_life_with_ruleset_multiplier" if any(m != (1, 1) for m in ms) else "cutoff_life_unit_rulesets")
        chk.count("cutoff_life_constructions", len(ms))
        flat = [PROP, 9, kb, m0[0], m0[1], len(ms)] + [x for m, copied in zip(ms, done) for x in (1 if copied else 0, m[0], m[1])]
        meta = {"text": f"CUTOFF {kb} NEIGHBOURHOOD {kb}", "parse_multiplier": m0, "ruleset_multipliers": ms,
                "constructions": how, "cutoffs": cutoffs, "neighbourhoods": neighbourhoods,
                "holders_whose_values_changed_later": changed, "plain_copy_kept_values": kept}
        failures = []
        if changed:
            failures.append("a later Ruleset construction changed the distances seen by an earlier holder of the rule: " + "; ".join(changed))
        if kept is False:
            failures.append("copy_with_replacements without new rules or multipliers returned rules with other distances")
        if failures:
            chk.violation("counterexample", "Ruleset construction and rule objects: " + failures[0] + " (class " + RESCALE_CLASS +
                          ", repaired as C01-H1, is back)",
                          {"theorem_or_correspondence": "C01_cutoff_ruleset_copy, C01_cutoff_constructor_given / Ruleset.__post_init__, "
                                                        "copy_with_replacements",
                           "flat": flat, "implementation": cutoffs, "failures": failures, "input": meta})
        # the independent oracle: (value given to the newest holder, value it detects with)
        given = value = kb * 1000 * m0[0] // m0[1]
        wanted = [value]
        for m, copied in zip(ms, done):
            given = given if copied else value
            value = given * m[0] // m[1]
            wanted.append(value)
        for values, what in ((cutoffs, "cutoff"), (neighbourhoods, "neighbourhood")):
            cases.append(flat)
            impl_outs.append([len(values)] + values)
            metas.append(meta)
            chk.note_case(flat + [0 if what == "cutoff" else 1], len(non_unit) >= 1, None)
            if values != wanted:
                chk.violation("counterexample", f"the rule's {what} after parsing and Ruleset construction is not the distance given "
                              "times the ruleset's own multiplier (text * multiplier for a ruleset over the parsed rule and its copies)",
                              {"theorem_or_correspondence": "C01_cutoff_unit_multipliers, C01_cutoff_scaled_once, C01_cutoff_ruleset_copy "
                                                            "/ Parser, Ruleset.__post_init__, copy_with_replacements", "flat": flat,
                               "implementation": values, "expected": wanted, "input": meta})
    common.correspondence(chk, cases, impl_outs, label="cutoff through parser and Ruleset constructions: model vs implementation",
                          describe=lambda flat: {"function": "Parser / Ruleset.__post_init__ / copy_with_replacements scaling",
                                                 "payload": flat[2:]})
    # the stored witness of the repaired finding: the public constructor Ruleset.from_files with non-unit multipliers
    tmp = tempfile.mkdtemp(prefix="c01_ruleset_")
    try:
        for name, text in (("rules.txt", "RULE r CATEGORY cat CUTOFF 10 NEIGHBOURHOOD 4 CONDITIONS p0"), ("sigs.txt", ""),
                           ("filter.txt", "")):
            with open(f"{tmp}/{name}", "w") as handle:
                handle.write(text)
        ruleset = cluster_prediction.Ruleset.from_files(f"{tmp}/sigs.txt", "seeds", [f"{tmp}/rules.txt"], {"cat"}, f"{tmp}/filter.txt",
                                                        "t", dynamic_profiles=dynamic, multipliers=Multipliers(1.5, 2.0))
        got = (ruleset.rules[0].cutoff, ruleset.rules[0].neighbourhood)
    except Exception as exc:  # pylint: disable=broad-except
        got = ("error", repr(exc))
    finally:
        shutil.rmtree(tmp, ignore_errors=True)
    chk.extra["ruleset_from_files_witness"] = {"text": "CUTOFF 10 NEIGHBOURHOOD 4", "multipliers": [1.5, 2.0], "got": got,
                                               "text_times_multiplier": [15000, 8000]}
    if got != (15000, 8000):
        chk.violation("counterexample", f"Ruleset.from_files(multipliers=(1.5, 2.0)) on `CUTOFF 10 NEIGHBOURHOOD 4` yields rules with "
                      f"cutoff / neighbourhood {got} instead of text * multiplier = (15000, 8000) (22500 / 16000 = the multipliers "
                      "applied by the parser and again by Ruleset.__post_init__: class " + RESCALE_CLASS + ", repaired as C01-H1)",
                      {"theorem_or_correspondence": "C01_cutoff_scaled_once / Ruleset.from_files", "flat": [PROP, 9, 10, 1, 1, 1, 0, 3, 2],
                       "implementation": list(got), "expected": [15000, 8000],
                       "input": chk.extra["ruleset_from_files_witness"]})


def exhaustive_small():
    """ a small finite sub-domain enumerated completely (thorough tier) """
    import itertools
    simple = [(kind, neg, p) for kind in ("single", "score") for neg in (False, True) for p in (0, 1)]
    simple = [("single", n, p) if k == "single" else ("score", n, p, 10) for k, n, p in simple]
    minimums = [("minimum", neg, k, [0, 1]) for neg in (False, True) for k in (1, 2)]
    all_leaves = simple + minimums
    trees = [("group", False, [("c", leaf)]) for leaf in all_leaves]
    for first, second in itertools.product(all_leaves, repeat=2):
        trees.append(("group", False, [("and", [first, second])]))
        trees.append(("group", False, [("c", first), ("c", second)]))
    for first, second in itertools.product(simple, repeat=2):
        for neg in (False, True):
            trees.append(("group", False, [("c", ("cds", neg, [("and", [first, second])]))]))
            trees.append(("group", False, [("c", ("cds", neg, [("c", first), ("c", second)]))]))
    cutoff = 5
    layouts = []
    for gap in (cutoff - 1, cutoff):
        layouts.append((None, [(0, [(2, 8, 1)]), (1, [(8 + gap, 14 + gap, -1)])]))
        # ring of length n: gene 1 ends at n - x, gene 0 starts at gap - x: distance across the origin = gap
        layouts.append((60, [(0, [(gap - 2, 12, 1)]), (1, [(50, 58, 1)])]))
    options = [None, 19, 20]        # absent, doubled score 9.5, doubled score 10
    cells = list(itertools.product(options, repeat=4))
    for tree in trees:
        for circ, genes in layouts:
            for cell in cells:
                hits = {}
                for gid in (0, 1):
                    hs = [(p, cell[2 * gid + p]) for p in (0, 1) if cell[2 * gid + p] is not None]
                    if hs:
                        hits[gid] = hs
                yield tree, cutoff, circ, genes, hits


def exhaustive_scores():
    """ a second finite sub-domain enumerated completely (thorough tier), on the boundary of `bitscore >= score`:
        thresholds 0 and 1 against the hit lists {none, -0.5, 0, 0.5, 1, 1.5, (-0.5 then 1), (-1.5 and -0.5)} of p0 on
        each of two genes, p1 present (score 0) or absent """
    import itertools
    score_leaves = [("score", neg, 0, s) for neg in (False, True) for s in (0, 1)]
    all_leaves = score_leaves + [("single", False, 1), ("single", True, 1)]
    trees = [("group", False, [("c", leaf)]) for leaf in all_leaves]
    for first, second in itertools.product(all_leaves, repeat=2):
        trees.append(("group", False, [("and", [first, second])]))
        trees.append(("group", False, [("c", first), ("c", second)]))
        for neg in (False, True):
            trees.append(("group", False, [("c", ("cds", neg, [("and", [first, second])]))]))
            trees.append(("group", False, [("c", ("cds", neg, [("c", first), ("c", second)]))]))
    cutoff = 5
    layouts = []
    for gap in (cutoff - 1, cutoff):
        layouts.append((None, [(0, [(2, 8, 1)]), (1, [(8 + gap, 14 + gap, -1)])]))
        layouts.append((60, [(0, [(gap - 2, 12, 1)]), (1, [(50, 58, 1)])]))
    p0_lists = [[], [-1], [0], [1], [2], [3], [-1, 2], [-3, -1]]
    p1_lists = [[], [0]]
    per_gene = [[(0, s2) for s2 in a] + [(1, s2) for s2 in b] for a in p0_lists for b in p1_lists]
    for tree in trees:
        for circ, genes in layouts:
            for first, second in itertools.product(per_gene, repeat=2):
                hits = {}
                if first:
                    hits[0] = first
                if second:
                    hits[1] = second
                yield tree, cutoff, circ, genes, hits


def run(chk):
    if not chk.build_and_audit():
        return chk.finish(RULE)
    from antismash.common.hmm_rule_parser import rule_parser as rp
    from antismash.common.hmm_rule_parser.structures import ProfileHit
    from antismash.common.secmet.locations import get_distance_between_locations
    rng = chk.rng
    names = {pname(i): i for i in range(NPROF)}
    target = 25000 if chk.tier == "quick" else 400000
    cases, impl_outs, inputs = [], [], []
    trees = Tree(rng)
    def add_cases(tree, conditions, cutoff, circ, genes, hits, tag=None, flavour="profile", reach=None):
        features = {f"g{gid}": types.SimpleNamespace(location=mk_location(parts)) for gid, parts in genes}
        results = {f"g{gid}": [mk_hit(f"g{gid}", p, s2, flavour) for p, s2 in hs] for gid, hs in hits.items()}
        near_of, dist = reach if reach is not None else reach_sets(cutoff, circ, genes)
        try:
            rule = rp.DetectionRule("r", "cat", cutoff, 0, conditions)
            detect = lambda name: rule.detect(name, features, results, circ)
            chk.count("via_DetectionRule")
        except ValueError:
            # no positive condition: the rule class refuses it; the evaluator is still exercised directly
            detect = lambda name: conditions.get_satisfied(rp.Details(name, features, results, cutoff, circ))
            chk.count("via_Conditions_only")
        ctx = enc_ctx(cutoff, circ, genes, hits)
        etree = enc_tree(tree)
        nleaves = leaves(tree)
        for gid, _ in genes:
            flat = [PROP, 1] + ctx + etree + [gid]
            try:
                out = enc_result(detect(f"g{gid}"), names)
            except Exception as exc:  # pylint: disable=broad-except
                out = [-1, err_code(exc)]
                chk.count("error_" + common.ERR_NAME.get(out[1], str(out[1])))
            near = bool(near_of[gid])
            boundary_classes(chk, tree, gid, cutoff, near_of, dist, hits)
            cases.append(flat)
            impl_outs.append(out)
            sample = {"tree": tree, "cutoff": cutoff, "circular_origin": circ, "genes": genes, "hits": hits,
                      "hit_objects": flavour, "gene": gid, "implementation": out}
            inputs.append(sample)
            chk.count("met" if out[0] == 1 else "not_met")
            if out[0] == 1 and out[1] > 0:
                chk.count("anchor")
                if out[2 + out[1]] > 0:
                    chk.count("anchor_with_ancillary")
            chk.count(f"leaves_{min(nleaves, 6)}")
            if tag:
                chk.count(tag)
            chk.note_case(flat, nleaves >= 2 and near, sample)

    while len(cases) < target:
        directed = rng.random() < 0.08
        if directed:
            # aimed at `bitscore >= score`: thresholds 0 / 1 / large against negative, zero and just-off scores
            tree, n_genes, hits_for = score_directed(rng)
        elif rng.random() < 0.5:
            # a top-level or-list of and-chains, as the parser builds for `CONDITIONS a and b or c ...`
            tree = ("group", rng.random() < 0.1, trees.items(rng.choice([0, 1, 2, 3]), False))
        else:
            tree = trees.cond(rng.choice([1, 2, 3, 4]), False)
        if tree[0] not in ("group", "cds") and rng.random() < 0.8:
            tree = ("group", False, [("c", tree)])
        try:
            build(tree)
        except ValueError:
            chk.count("constructor_rejected")
            continue
        if directed:
            cutoff, circ, genes = gen_layout(rng, None, n_genes)
            hits = hits_for(genes)
            reach = reach_sets(cutoff, circ, genes)
            chk.count("directed_minscore_boundary_layouts")
        else:
            cutoff, circ, genes = gen_layout(rng)
            hits = gen_hits(rng, genes, tree_thresholds(tree) + THRESHOLD_POOL)
            reach = reach_sets(cutoff, circ, genes)
            # thresholds onto drawn scores, minimum counts onto / next to the number of available profiles
            moved = retarget(rng, tree, reach[0], hits)
            try:
                build(moved)
                tree = moved
            except ValueError:      # two operands became equal: the constructors refuse repeated operands
                chk.count("retarget_rejected")
        add_cases(tree, build(tree), cutoff, circ, genes, hits, flavour=draw_flavour(rng), reach=reach)
    if chk.tier == "thorough":
        n_before = len(cases)
        for tree, cutoff, circ, genes, hits in exhaustive_small():
            try:
                conditions = build(tree)
            except ValueError:
                chk.count("exhaustive_constructor_rejected")
                continue
            add_cases(tree, conditions, cutoff, circ, genes, hits, tag="exhaustive_small")
        chk.extra["exhaustive_subdomain"] = (
            f"{len(cases) - n_before} evaluations: every tree L | L1 and L2 | L1 or L2 | [not] cds(L1 and/or L2) with leaves "
            "from {[not] p, [not] minscore(p,10), [not] minimum(k,[p0,p1]) : p in {p0,p1}, k in {1,2}} (no minimum inside cds) "
            "x two genes at gap {cutoff-1, cutoff} on a line and across the origin of a ring x every assignment of "
            "{absent, score 9.5, score 10} to (gene, profile); coverage of the correspondence, not the unbounded claim")
        n_before = len(cases)
        for tree, cutoff, circ, genes, hits in exhaustive_scores():
            try:
                conditions = build(tree)
            except ValueError:
                chk.count("exhaustive_constructor_rejected")
                continue
            add_cases(tree, conditions, cutoff, circ, genes, hits, tag="exhaustive_scores")
        chk.extra["exhaustive_subdomain_scores"] = (
            f"{len(cases) - n_before} evaluations: every tree L | L1 and L2 | L1 or L2 | [not] cds(L1 and/or L2) with leaves "
            "from {[not] minscore(p0, s) : s in {0, 1}} + {[not] p1} x the same four two-gene layouts x every assignment "
            "of the p0 hit lists {none, [-0.5], [0.0], [0.5], [1.0], [1.5], [-0.5, 1.0], [-1.5, -0.5]} and p1 {absent, 0.0} to "
            "the two genes; coverage of the correspondence on the boundary of `bitscore >= score`, not the unbounded claim")
    # the independent verdict first (it yields a failing input), then the model/implementation correspondence
    spec_outs = spec_verdicts(chk, cases, impl_outs, 2, "DetectionRule.detect vs holds/reasons/anc_spec",
                              lambda i: inputs[i])
    model_outs = common.correspondence(chk, cases, impl_outs,
                                       describe=lambda flat: {"function": "DetectionRule.detect", "payload": flat[2:]})
    # C01_met / C01_reasons / C01_ancillary say model = specification: observed too (canonical forms included)
    differ = [i for i, (m, s) in enumerate(zip(model_outs, spec_outs)) if m != s]
    chk.extra["model_vs_spec_differ"] = len(differ)
    if differ:
        i = min(differ, key=lambda k: len(cases[k]))
        chk.violation("broken-correspondence", f"extracted model and extracted specification differ on {len(differ)} case(s) "
                      "although C01_met/C01_reasons/C01_ancillary prove them equal (results_known violated by the generator?)",
                      {"theorem_or_correspondence": "C01_met, C01_reasons, C01_ancillary", "flat": cases[i],
                       "model": model_outs[i], "specification": spec_outs[i], "input": inputs[i]})
    chk.crosscheck_vm(cases, model_outs)
    chk.extra["boundary_classes"] = {
        "what": "number of (evaluation, leaf[, hit in reach]) of the detect stream on each boundary class of the three "
                "comparisons of the evaluator: bitscore >= score (bc_score_*, bc_threshold_*), hit_count >= count "
                "(bc_minimum_*), distance < cutoff (bc_distance_*: ordered pairs evaluated gene / other gene)",
        "classes": {k[3:]: v for k, v in sorted(chk.histogram.items()) if k.startswith("bc_")}}

    a_cases, a_impl, a_inputs = apply_rules_stream(chk, rng, trees, names, 2500 if chk.tier == "quick" else 40000)
    a_spec = spec_verdicts(chk, a_cases, a_impl, 4, "apply_cluster_rules (one rule) vs recorded_spec", lambda i: a_inputs[i])
    spec_verdicts(chk, WHOLE_RECORD_CASES, a_impl, 4,
                  "apply_cluster_rules vs recorded_spec on the WHOLE record (every gene and hit of the record as context, "
                  "not the neighbourhood the implementation handed to rule.detect)", lambda i: a_inputs[i])
    a_model = common.correspondence(chk, a_cases, a_impl, label="apply_cluster_rules promotion loop: model vs implementation",
                                    describe=lambda flat: {"function": "apply_cluster_rules", "payload": flat[2:]})
    differ = [i for i, (m, s) in enumerate(zip(a_model, a_spec)) if m != s]
    chk.extra["apply_model_vs_spec_differ"] = len(differ)
    if differ:
        i = min(differ, key=lambda k: len(a_cases[k]))
        chk.violation("broken-correspondence", f"apply_rule model and specification differ on {len(differ)} case(s)",
                      {"theorem_or_correspondence": "C01_rule_domains", "flat": a_cases[i], "model": a_model[i],
                       "specification": a_spec[i], "input": a_inputs[i]})
    chk.crosscheck_vm(a_cases, a_model, k=60 if chk.tier == "quick" else 400)

    # histories: one rule object, several arrangements / records that re-use the gene names
    chk.extra["histories_detect"] = history_stream(chk, rng, trees, names, 3000 if chk.tier == "quick" else 40000)
    chk.extra["histories_apply"] = apply_history_stream(chk, rng, names, 600 if chk.tier == "quick" else 8000)
    cutoff_life_stream(chk, rng, 150 if chk.tier == "quick" else 1500)
    return chk.finish(RULE)


def replay(chk, path):
    import json
    doc = json.load(open(path))
    flat = doc["flat"]
    spec_fn = {1: 2, 2: 2, 3: 4, 4: 4, 5: 6, 6: 6, 7: 8, 8: 8, 9: 9}.get(flat[1], 2)
    model_fn = {1: 1, 2: 1, 3: 3, 4: 3, 5: 5, 6: 5, 7: 7, 8: 7, 9: 9}.get(flat[1], 1)
    model, spec = common.run_driver([[flat[0], model_fn] + flat[2:], [flat[0], spec_fn] + flat[2:]])
    print("model:", model, "specification:", spec, "recorded implementation:", doc.get("implementation"))
    inp = doc.get("input") or {}
    if flat[1] == 5 and "evaluations" in inp:
        # a history of detect() calls: run it again on the implementation as it is now (VERIF_REPO), one rule object
        names = {pname(i): i for i in range(NPROF)}
        runner = HistoryRunner(names)
        print("rule:", doc.get("rule"))
        for idx, arr in enumerate(inp["arrangements"]):
            print(f"arrangement {idx} ({arr['change']}): circular_origin={arr['circ']} genes={arr['genes']} hits={arr['hits']}")
        _tree, outs, _after = runner.run(inp)
        spec_parts = split_results(spec)
        reproduced = False
        for k, ((arr_idx, gid), out) in enumerate(zip(inp["evaluations"], outs)):
            differs = out != spec_parts[k]
            reproduced |= differs
            print(f"  #{k} arrangement {arr_idx} detect(g{gid}): implementation {out} specification {spec_parts[k]}"
                  + ("   <-- DIFFERS" if differs else ""))
        kept = (doc.get("minimal_history") or {}).get("evaluations_kept")
        if kept:
            _tree, outs, _after = runner.run(inp, keep=set(kept))
            print("minimal history", [f"arrangement {inp['evaluations'][k][0]}: detect(g{inp['evaluations'][k][1]})" for k in kept],
                  "-> last answer", outs[-1], "specification", spec_parts[kept[-1]])
            _tree, alone, _after = runner.run(inp, keep={kept[-1]})
            print("the last evaluation alone on a freshly built rule object ->", alone[0])
        print("REPRODUCED on the current implementation" if reproduced else "not reproduced on the current implementation")
        return 0
    print("decoded input:", json.dumps(inp)[:2000])
    return 0
