"""C01: correspondence for rule-condition evaluation: DetectionRule.detect on condition trees built with the
class constructors, for every gene of generated layouts (line and ring, gaps on the cutoff boundary)."""
import types

import common
from common import err_code

PROP = 1
NPROF = 6


def pname(i):
    return f"p{i}"


class Tree:
    """ condition trees as nested tuples mirroring the Gallina type:
        ("single", neg, p) ("score", neg, p, s) ("minimum", neg, k, opts) ("cds", neg, items) ("group", neg, items)
        items: list of ("c", cond) | ("and", [cond...]) """

    def __init__(self, rng):
        self.rng = rng

    def cond(self, depth, in_cds):
        rng = self.rng
        r = rng.random()
        neg = rng.random() < 0.25
        if depth <= 0 or r < 0.35:
            return ("single", neg, rng.randrange(NPROF))
        if r < 0.47:
            return ("score", neg, rng.randrange(NPROF), rng.choice([0, 10, 10, 25, 50]))
        if r < 0.60 and (not in_cds or rng.random() < 0.1):
            opts = rng.sample(range(NPROF), rng.randint(1, 4))
            return ("minimum", neg, rng.randint(1, 4), opts)
        if r < 0.78 and (not in_cds or rng.random() < 0.05):
            return ("cds", neg, self.items(depth - 1, True))
        return ("group", neg, self.items(depth - 1, in_cds))

    def items(self, depth, in_cds):
        rng = self.rng
        out = []
        for _ in range(rng.choice([1, 1, 2, 2, 3])):
            if rng.random() < 0.4:
                out.append(("and", [self.cond(depth, in_cds) for _ in range(rng.choice([2, 2, 3]))]))
            else:
                out.append(("c", self.cond(depth, in_cds)))
        return out


def build(tree):
    """ -> rule_parser condition object (raises ValueError for repeated operands etc.) """
    from antismash.common.hmm_rule_parser import rule_parser as rp
    kind = tree[0]
    if kind == "single":
        return rp.SingleCondition(tree[1], pname(tree[2]))
    if kind == "score":
        return rp.ScoreCondition(tree[1], pname(tree[2]), tree[3])
    if kind == "minimum":
        return rp.MinimumCondition(tree[1], tree[2], [pname(o) for o in tree[3]])
    subs = []
    for item in tree[2]:
        if subs:
            subs.append(rp.TokenTypes.OR)
        if item[0] == "c":
            subs.append(build(item[1]))
        else:
            ands = []
            for c in item[1]:
                if ands:
                    ands.append(rp.TokenTypes.AND)
                ands.append(build(c))
            subs.append(rp.AndCondition(ands))
    cls = rp.CDSCondition if kind == "cds" else rp.Conditions
    return cls(tree[1], subs)


def enc_tree(tree):
    kind = tree[0]
    if kind == "single":
        return [0, int(tree[1]), tree[2]]
    if kind == "score":
        return [1, int(tree[1]), tree[2], tree[3]]
    if kind == "minimum":
        return [2, int(tree[1]), tree[2], len(tree[3])] + list(tree[3])
    out = [3 if kind == "cds" else 4, int(tree[1]), len(tree[2])]
    for item in tree[2]:
        if item[0] == "c":
            out += [0] + enc_tree(item[1])
        else:
            out += [1, len(item[1])]
            for c in item[1]:
                out += enc_tree(c)
    return out


def leaves(tree):
    if tree[0] in ("single", "score", "minimum"):
        return 1
    return sum(leaves(i[1]) if i[0] == "c" else sum(leaves(c) for c in i[1]) for i in tree[2])


def gen_layout(rng):
    """ genes on a line or ring with gaps on the cutoff boundary; returns (cutoff, circular_origin, [(id, parts)]) """
    cutoff = rng.choice([1, 5, 20, 20, 50])
    n_genes = rng.choice([1, 2, 2, 3, 3, 4, 5, 7])
    pos = rng.randint(0, 10)
    genes = []
    for i in range(n_genes):
        length = rng.randint(1, 12)
        genes.append((pos, pos + length))
        gap = rng.choice([-3, 0, 1, cutoff - 1, cutoff, cutoff + 1, cutoff + 30, 2 * cutoff])
        pos = max(0, pos + length + gap)
    end = max(e for _, e in genes)
    circular = rng.random() < 0.5
    out = []
    if not circular:
        for i, (s, e) in enumerate(genes):
            out.append((i, [(s, e, rng.choice([1, -1]))]))
        # circular_origin may be passed as None or (rarely) 0: both mean "no wrap"
        return cutoff, rng.choice([None, None, None, 0]), out
    # ring: the record ends a boundary-gap after the last gene, so that first and last are near across the origin
    tail = rng.choice([0, 1, cutoff - 1, cutoff, cutoff + 1, cutoff + 40])
    first = genes[0][0]
    n = max(end + max(0, tail - first), end)
    if n < end:
        n = end
    n = max(n, 2)
    for i, (s, e) in enumerate(genes):
        strand = rng.choice([1, -1])
        out.append((i, [(s, e, strand)]))
    if rng.random() < 0.25 and n - end >= 0 and first >= 2:
        # add an origin-spanning gene
        hi = rng.randint(max(end, n - 5), n - 1) if n - 1 >= max(end, n - 5) and n > end else None
        lo = rng.randint(1, first - 1)
        if hi is not None and hi < n:
            strand = rng.choice([1, -1])
            parts = [(hi, n, strand), (0, lo, strand)]
            if strand == -1:
                parts.reverse()
            out.append((len(out), parts))
    return cutoff, n, out


def mk_location(parts):
    from antismash.common.secmet.locations import FeatureLocation, CompoundLocation
    fls = [FeatureLocation(s, e, st) for s, e, st in parts]
    return fls[0] if len(fls) == 1 else CompoundLocation(fls)


def gen_hits(rng, genes, scores):
    """ -> {gene id: [(profile, doubled bitscore)]}; some genes have no entry, some an empty list """
    results = {}
    for gid, _ in genes:
        r = rng.random()
        if r < 0.2:
            continue
        hits = []
        for _ in range(rng.choice([0, 1, 1, 2, 3])):
            base = rng.choice(scores)
            hits.append((rng.randrange(NPROF), max(0, 2 * base + rng.choice([-1, 0, 0, 1, 20]))))
        results[gid] = hits
    return results


def enc_result(res, names):
    out = [int(res.met), len(res.matches)] + sorted(names[m] for m in res.matches)
    anc = {k: v for k, v in res.ancillary_hits.items() if v}
    out.append(len(anc))
    for gene in sorted(anc, key=lambda g: int(g[1:])):
        out += [int(gene[1:]), len(anc[gene])] + sorted(names[m] for m in anc[gene])
    return out


RULE = ("random condition trees built through the rule_parser class constructors (all five kinds, negation anywhere, and-chains "
        "under or-lists, mostly parser-shaped, depth <= 4) x 1-7 genes on a line or ring with gaps drawn from {overlap, adjacent, "
        "cutoff-1, cutoff, cutoff+1, far}, incl. across the origin and origin-spanning genes x 0-3 hits per gene with scores on "
        "the minscore thresholds; detect() evaluated for every gene.  Non-trivial = the tree has >= 2 leaves and some gene other "
        "than the evaluated one is within the cutoff; distinct by flat encoding")


def run(chk):
    if not chk.build_and_audit():
        return chk.finish(RULE)
    from antismash.common.hmm_rule_parser import rule_parser as rp
    from antismash.common.hmm_rule_parser.structures import ProfileHit
    from antismash.common.secmet.locations import get_distance_between_locations
    rng = chk.rng
    names = {pname(i): i for i in range(NPROF)}
    target = 25000 if chk.tier == "quick" else 400000
    cases, impl_outs = [], []
    trees = Tree(rng)
    while len(cases) < target:
        tree = trees.cond(rng.choice([1, 2, 3, 4]), False)
        if tree[0] not in ("group", "cds") and rng.random() < 0.8:
            tree = ("group", False, [("c", tree)])
        try:
            conditions = build(tree)
        except ValueError:
            chk.count("constructor_rejected")
            continue
        cutoff, circ, genes = gen_layout(rng)
        scores = [t for t in (0, 10, 25, 50)]
        hits = gen_hits(rng, genes, scores)
        features = {f"g{gid}": types.SimpleNamespace(location=mk_location(parts)) for gid, parts in genes}
        results = {f"g{gid}": [ProfileHit(f"g{gid}", pname(p), s2 / 2, 1e-10) for p, s2 in hs] for gid, hs in hits.items()}
        try:
            rule = rp.DetectionRule("r", "cat", cutoff, 0, conditions)
            detect = lambda name: rule.detect(name, features, results, circ)
            chk.count("via_DetectionRule")
        except ValueError:
            # no positive condition: the rule class refuses it; the evaluator is still exercised directly
            detect = lambda name: conditions.get_satisfied(rp.Details(name, features, results, cutoff, circ))
            chk.count("via_Conditions_only")
        ctx = [cutoff] + ([0] if circ is None else [1, circ]) + [len(genes)]
        for gid, parts in genes:
            ctx += [gid, len(parts)] + [x for p in parts for x in p]
        ctx.append(len(hits))
        for gid, hs in hits.items():
            ctx += [gid, len(hs)] + [x for h in hs for x in h]
        etree = enc_tree(tree)
        nleaves = leaves(tree)
        wrap = circ if circ else None
        for gid, _ in genes:
            flat = [PROP, 1] + ctx + etree + [gid]
            try:
                out = enc_result(detect(f"g{gid}"), names)
            except Exception as exc:  # pylint: disable=broad-except
                out = [-1, err_code(exc)]
                chk.count("error_" + common.ERR_NAME.get(out[1], str(out[1])))
            near = any(o != gid and get_distance_between_locations(features[f"g{gid}"].location, features[f"g{o}"].location,
                                                                   wrap) < cutoff for o, _ in genes)
            cases.append(flat)
            impl_outs.append(out)
            chk.count("met" if out[0] == 1 else "not_met")
            if out[0] == 1 and out[1] > 0:
                chk.count("anchor")
            chk.count(f"leaves_{min(nleaves, 6)}")
            chk.note_case(flat, nleaves >= 2 and near,
                          {"tree": tree, "cutoff": cutoff, "circular_origin": circ, "genes": genes, "hits": hits,
                           "gene": gid, "implementation": out})
    model_outs = common.correspondence(chk, cases, impl_outs,
                                       describe=lambda flat: {"function": "DetectionRule.detect", "payload": flat[2:]})
    chk.crosscheck_vm(cases, model_outs)
    return chk.finish(RULE)


def replay(chk, path):
    import json
    doc = json.load(open(path))
    print("model:", common.run_driver([doc["flat"]])[0], "recorded implementation:", doc.get("implementation"))
    return 0
