"""C01: correspondence for rule-condition evaluation: DetectionRule.detect on condition trees built with the
class constructors, for every gene of generated layouts (line and ring, gaps on the cutoff boundary)."""
import types

import common
from common import err_code

PROP = 1
NPROF = 6


def pname(i):
    return f"p{i}"


class Tree:
    """ condition trees as nested tuples mirroring the Gallina type:
        ("single", neg, p) ("score", neg, p, s) ("minimum", neg, k, opts) ("cds", neg, items) ("group", neg, items)
        items: list of ("c", cond) | ("and", [cond...]) """

    def __init__(self, rng):
        self.rng = rng

    def cond(self, depth, in_cds):
        rng = self.rng
        r = rng.random()
        neg = rng.random() < 0.25
        if depth <= 0 or r < 0.35:
            return ("single", neg, rng.randrange(NPROF))
        if r < 0.47:
            return ("score", neg, rng.randrange(NPROF), rng.choice([0, 10, 10, 25, 50]))
        if r < 0.60 and (not in_cds or rng.random() < 0.1):
            opts = rng.sample(range(NPROF), rng.randint(1, 4))
            return ("minimum", neg, rng.randint(1, 4), opts)
        if r < 0.78 and (not in_cds or rng.random() < 0.25):
            return ("cds", neg, self.items(depth - 1, True))
        return ("group", neg, self.items(depth - 1, in_cds))

    def items(self, depth, in_cds):
        rng = self.rng
        out = []
        for _ in range(rng.choice([1, 1, 2, 2, 3])):
            if rng.random() < 0.4:
                out.append(("and", [self.cond(depth, in_cds) for _ in range(rng.choice([2, 2, 3]))]))
            else:
                out.append(("c", self.cond(depth, in_cds)))
        return out


def build(tree):
    """ -> rule_parser condition object (raises ValueError for repeated operands etc.) """
    from antismash.common.hmm_rule_parser import rule_parser as rp
    kind = tree[0]
    if kind == "single":
        return rp.SingleCondition(tree[1], pname(tree[2]))
    if kind == "score":
        return rp.ScoreCondition(tree[1], pname(tree[2]), tree[3])
    if kind == "minimum":
        return rp.MinimumCondition(tree[1], tree[2], [pname(o) for o in tree[3]])
    subs = []
    for item in tree[2]:
        if subs:
            subs.append(rp.TokenTypes.OR)
        if item[0] == "c":
            subs.append(build(item[1]))
        else:
            ands = []
            for c in item[1]:
                if ands:
                    ands.append(rp.TokenTypes.AND)
                ands.append(build(c))
            subs.append(rp.AndCondition(ands))
    cls = rp.CDSCondition if kind == "cds" else rp.Conditions
    return cls(tree[1], subs)


def enc_tree(tree):
    kind = tree[0]
    if kind == "single":
        return [0, int(tree[1]), tree[2]]
    if kind == "score":
        return [1, int(tree[1]), tree[2], tree[3]]
    if kind == "minimum":
        return [2, int(tree[1]), tree[2], len(tree[3])] + list(tree[3])
    out = [3 if kind == "cds" else 4, int(tree[1]), len(tree[2])]
    for item in tree[2]:
        if item[0] == "c":
            out += [0] + enc_tree(item[1])
        else:
            out += [1, len(item[1])]
            for c in item[1]:
                out += enc_tree(c)
    return out


def leaves(tree):
    if tree[0] in ("single", "score", "minimum"):
        return 1
    return sum(leaves(i[1]) if i[0] == "c" else sum(leaves(c) for c in i[1]) for i in tree[2])


def gen_layout(rng):
    """ genes on a line or ring with gaps on the cutoff boundary; returns (cutoff, circular_origin, [(id, parts)]) """
    cutoff = rng.choice([1, 5, 20, 20, 50])
    n_genes = rng.choice([1, 2, 2, 3, 3, 4, 5, 7])
    pos = rng.randint(0, 10)
    genes = []
    for i in range(n_genes):
        length = rng.randint(1, 12)
        genes.append((pos, pos + length))
        gap = rng.choice([-3, 0, 1, cutoff - 1, cutoff, cutoff + 1, cutoff + 30, 2 * cutoff])
        pos = max(0, pos + length + gap)
    end = max(e for _, e in genes)
    circular = rng.random() < 0.5
    out = []
    if not circular:
        for i, (s, e) in enumerate(genes):
            out.append((i, [(s, e, rng.choice([1, -1]))]))
        # circular_origin may be passed as None or (rarely) 0: both mean "no wrap"
        return cutoff, rng.choice([None, None, None, 0]), out
    # ring: the record ends a boundary-gap after the last gene, so that first and last are near across the origin
    tail = rng.choice([0, 1, cutoff - 1, cutoff, cutoff + 1, cutoff + 40])
    first = genes[0][0]
    n = max(end + max(0, tail - first), end)
    if n < end:
        n = end
    n = max(n, 2)
    for i, (s, e) in enumerate(genes):
        strand = rng.choice([1, -1])
        out.append((i, [(s, e, strand)]))
    if rng.random() < 0.25 and n - end >= 0 and first >= 2:
        # add an origin-spanning gene
        hi = rng.randint(max(end, n - 5), n - 1) if n - 1 >= max(end, n - 5) and n > end else None
        lo = rng.randint(1, first - 1)
        if hi is not None and hi < n:
            strand = rng.choice([1, -1])
            parts = [(hi, n, strand), (0, lo, strand)]
            if strand == -1:
                parts.reverse()
            out.append((len(out), parts))
    return cutoff, n, out


def mk_location(parts):
    from antismash.common.secmet.locations import FeatureLocation, CompoundLocation
    fls = [FeatureLocation(s, e, st) for s, e, st in parts]
    return fls[0] if len(fls) == 1 else CompoundLocation(fls)


def gen_hits(rng, genes, scores):
    """ -> {gene id: [(profile, doubled bitscore)]}; some genes have no entry, some an empty list """
    results = {}
    for gid, _ in genes:
        r = rng.random()
        if r < 0.2:
            continue
        hits = []
        for _ in range(rng.choice([0, 1, 1, 2, 3])):
            base = rng.choice(scores)
            hits.append((rng.randrange(NPROF), max(0, 2 * base + rng.choice([-1, 0, 0, 1, 20]))))
        results[gid] = hits
    return results


def enc_result(res, names):
    out = [int(res.met), len(res.matches)] + sorted(names[m] for m in res.matches)
    anc = {k: v for k, v in res.ancillary_hits.items() if v}
    out.append(len(anc))
    for gene in sorted(anc, key=lambda g: int(g[1:])):
        out += [int(gene[1:]), len(anc[gene])] + sorted(names[m] for m in anc[gene])
    return out


RULE = ("random condition trees built through the rule_parser class constructors (all five kinds, negation anywhere, and-chains "
        "under or-lists, mostly parser-shaped, depth <= 4) x 1-7 genes on a line or ring with gaps drawn from {overlap, adjacent, "
        "cutoff-1, cutoff, cutoff+1, far}, incl. across the origin and origin-spanning genes x 0-3 hits per gene with scores on "
        "the minscore thresholds; detect() evaluated for every gene; every implementation answer is compared with the faithful "
        "model (fn 1) AND with the extracted specification holds/reasons/anc_spec (fn 2: a difference is a counterexample with "
        "its input).  Second stream: apply_cluster_rules on a real secmet Record with one constructor-built rule; the arguments "
        "of every rule.detect call are recorded and given to the model of the promotion loop (fn 3) and to its specification "
        "(fn 4).  Non-trivial = the tree has >= 2 leaves and some gene other than the evaluated one is within the cutoff; "
        "distinct by flat encoding")


def enc_ctx(cutoff, circ, genes, hits):
    """ genes: [(gid, parts)] in dict order; hits: {gid: [(profile, doubled score)]} in dict order """
    ctx = [cutoff] + ([0] if circ is None else [1, circ]) + [len(genes)]
    for gid, parts in genes:
        ctx += [gid, len(parts)] + [x for p in parts for x in p]
    ctx.append(len(hits))
    for gid, hs in hits.items():
        ctx += [gid, len(hs)] + [x for h in hs for x in h]
    return ctx


def spec_verdicts(chk, cases, impl_outs, spec_fn, label, describe):
    """ the independent verdict: the extracted specification (written from the property text, no reference to the
        evaluator) is evaluated on the input of EVERY case and the implementation's answer must be that answer.
        A difference is a violation of the property with a concrete failing input. """
    spec_cases = [[c[0], spec_fn] + c[2:] for c in cases]
    spec_outs = common.run_driver(spec_cases)
    bad = [i for i, (s, o) in enumerate(zip(spec_outs, impl_outs)) if s != o]
    chk.extra.setdefault("spec_verdicts", 0)
    chk.extra["spec_verdicts"] += len(cases)
    chk.extra.setdefault("spec_failures", 0)
    chk.extra["spec_failures"] += len(bad)
    if bad:
        bad.sort(key=lambda i: len(cases[i]))
        first = bad[0]
        what = []
        spec, impl = spec_outs[first], impl_outs[first]
        if spec_fn == 2 and spec and impl and impl[0] >= 0:
            if spec[0] != impl[0]:
                what.append("truth value differs from the documented boolean meaning")
            n_s, n_i = spec[1], impl[1]
            if spec[1:2 + n_s] != impl[1:2 + n_i]:
                what.append("reason profiles differ from the rule's profiles hitting the gene (cds/minscore provisos)")
            if spec[2 + n_s:] != impl[2 + n_i:]:
                what.append("ancillary hits differ from the in-range genes supplying a name/minimum")
        chk.violation("counterexample", f"{label}: implementation answer violates the specification on {len(bad)} case(s)"
                      + (": " + "; ".join(what) if what else ""),
                      {"theorem_or_correspondence": label, "function": cases[first][1], "flat": cases[first],
                       "implementation": impl, "specification": spec, "input": describe(first),
                       "failing_cases": len(bad)})
    return spec_outs


def apply_rules_stream(chk, rng, trees, names, n_cases):
    """ apply_cluster_rules with one rule on a real Record; the promotion of ancillary hits to rule hits """
    import detect_util
    from antismash.common.hmm_rule_parser import rule_parser as rp, cluster_prediction
    from antismash.common.hmm_rule_parser.structures import ProfileHit
    cases, impl_outs, inputs = [], [], []
    while len(cases) < n_cases:
        if rng.random() < 0.6:
            tree = ("group", False, trees.items(rng.choice([0, 1, 2]), False))
        else:
            tree = trees.cond(rng.choice([1, 2, 3]), False)
        if tree[0] not in ("group", "cds"):
            tree = ("group", False, [("c", tree)])
        try:
            conditions = build(tree)
            cutoff, circ, genes = gen_layout(rng)
            rule = rp.DetectionRule("r", "cat", cutoff, 0, conditions)
        except ValueError:
            chk.count("apply_rejected")
            continue
        hits = gen_hits(rng, genes, [0, 10, 25, 50])
        if rng.random() < 0.25:
            # directed: a chain of genes each in range of its neighbours only, the profiles of an and-chain (or of a
            # minimum) spread over them, so that only inner genes anchor and the outer ones are promoted
            k = rng.choice([3, 3, 4, 5])
            cutoff = rng.choice([5, 20])
            profs = rng.sample(range(NPROF), k)
            if rng.random() < 0.7:
                tree = ("group", False, [("and", [("single", False, p) for p in profs])])
            else:
                tree = ("group", False, [("and", [("single", False, profs[0]), ("minimum", False, k - 1, profs[1:])])])
            conditions = build(tree)
            rule = rp.DetectionRule("r", "cat", cutoff, 0, conditions)
            pos, genes, circ = rng.randint(0, 5), [], None
            for i in range(k):
                length = rng.randint(2, 9)
                genes.append((i, [(pos, pos + length, rng.choice([1, -1]))]))
                pos += length + rng.choice([cutoff - 1, cutoff - 1, cutoff - 2, cutoff])
            order = profs[:]
            rng.shuffle(order)
            hits = {i: [(order[i], 100)] for i in range(k)}
            chk.count("apply_directed_chain")
        if not hits:
            continue
        end = max(e for _, parts in genes for _, e, _ in parts)
        length = circ if circ else end + rng.choice([0, 1, cutoff, cutoff + 5])
        try:
            record = detect_util.make_record(length, bool(circ), [(f"g{gid}", parts) for gid, parts in genes])
        except Exception:  # pylint: disable=broad-except
            chk.count("apply_record_rejected")
            continue
        results = {f"g{gid}": [ProfileHit(f"g{gid}", pname(p), s2 / 2, 1e-10) for p, s2 in hs] for gid, hs in hits.items()}
        parts_of = dict(genes)
        calls = []
        original = rule.detect

        self_anchors = set()

        def spy(name, feats, res, circular_origin=None, _calls=calls, _orig=original, _self=self_anchors):
            _calls.append((name, list(feats), {k: [(names[h.query_id], int(round(h.bitscore * 2))) for h in v]
                                                 for k, v in res.items()}, circular_origin))
            answer = _orig(name, feats, res, circular_origin=circular_origin)
            if answer.met and answer.matches:
                _self.add(int(name[1:]))
            return answer
        rule.detect = spy
        try:
            domains, type_hits = cluster_prediction.apply_cluster_rules(record, results, [rule])
        except Exception as exc:  # pylint: disable=broad-except
            chk.count("apply_error_" + type(exc).__name__)
            continue
        flat = [PROP, 3, len(calls)]
        for name, feat_names, res, origin in calls:
            gl = [(int(f[1:]), parts_of[int(f[1:])]) for f in feat_names]
            flat += [int(name[1:])] + enc_ctx(cutoff, origin, gl, {int(k[1:]): v for k, v in res.items()})
        flat += enc_tree(tree)
        recorded = {int(g[1:]): sorted(names[m] for m in by_rule["r"]) for g, by_rule in domains.items() if "r" in by_rule}
        out = [len(recorded)]
        for gid in sorted(recorded):
            out += [gid, len(recorded[gid])] + recorded[gid]
        if set(recorded) != {int(g[1:]) for g in type_hits.get("r", set())}:
            out.append(-2)      # cluster_type_hits and the per-gene domains name different genes
        cases.append(flat)
        impl_outs.append(out)
        inputs.append({"tree": tree, "cutoff": cutoff, "record_length": length, "circular": bool(circ), "genes": genes,
                       "hits": hits, "detect_calls": calls, "implementation": out})
        chk.count("apply_rule_cases")
        if set(recorded) - self_anchors:
            chk.count("apply_promoted_gene_not_anchoring_itself")
        chk.count("apply_hits_%d" % min(len(recorded), 4))
        chk.note_case(flat, len(recorded) >= 2, inputs[-1] if len(recorded) >= 2 and rng.random() < 0.01 else None)
    return cases, impl_outs, inputs


def exhaustive_small():
    """ a small finite sub-domain enumerated completely (thorough tier) """
    import itertools
    simple = [(kind, neg, p) for kind in ("single", "score") for neg in (False, True) for p in (0, 1)]
    simple = [("single", n, p) if k == "single" else ("score", n, p, 10) for k, n, p in simple]
    minimums = [("minimum", neg, k, [0, 1]) for neg in (False, True) for k in (1, 2)]
    all_leaves = simple + minimums
    trees = [("group", False, [("c", leaf)]) for leaf in all_leaves]
    for first, second in itertools.product(all_leaves, repeat=2):
        trees.append(("group", False, [("and", [first, second])]))
        trees.append(("group", False, [("c", first), ("c", second)]))
    for first, second in itertools.product(simple, repeat=2):
        for neg in (False, True):
            trees.append(("group", False, [("c", ("cds", neg, [("and", [first, second])]))]))
            trees.append(("group", False, [("c", ("cds", neg, [("c", first), ("c", second)]))]))
    cutoff = 5
    layouts = []
    for gap in (cutoff - 1, cutoff):
        layouts.append((None, [(0, [(2, 8, 1)]), (1, [(8 + gap, 14 + gap, -1)])]))
        # ring of length n: gene 1 ends at n - x, gene 0 starts at gap - x: distance across the origin = gap
        layouts.append((60, [(0, [(gap - 2, 12, 1)]), (1, [(50, 58, 1)])]))
    options = [None, 19, 20]        # absent, doubled score 9.5, doubled score 10
    cells = list(itertools.product(options, repeat=4))
    for tree in trees:
        for circ, genes in layouts:
            for cell in cells:
                hits = {}
                for gid in (0, 1):
                    hs = [(p, cell[2 * gid + p]) for p in (0, 1) if cell[2 * gid + p] is not None]
                    if hs:
                        hits[gid] = hs
                yield tree, cutoff, circ, genes, hits


def run(chk):
    if not chk.build_and_audit():
        return chk.finish(RULE)
    from antismash.common.hmm_rule_parser import rule_parser as rp
    from antismash.common.hmm_rule_parser.structures import ProfileHit
    from antismash.common.secmet.locations import get_distance_between_locations
    rng = chk.rng
    names = {pname(i): i for i in range(NPROF)}
    target = 25000 if chk.tier == "quick" else 400000
    cases, impl_outs, inputs = [], [], []
    trees = Tree(rng)
    def add_cases(tree, conditions, cutoff, circ, genes, hits, tag=None):
        features = {f"g{gid}": types.SimpleNamespace(location=mk_location(parts)) for gid, parts in genes}
        results = {f"g{gid}": [ProfileHit(f"g{gid}", pname(p), s2 / 2, 1e-10) for p, s2 in hs] for gid, hs in hits.items()}
        try:
            rule = rp.DetectionRule("r", "cat", cutoff, 0, conditions)
            detect = lambda name: rule.detect(name, features, results, circ)
            chk.count("via_DetectionRule")
        except ValueError:
            # no positive condition: the rule class refuses it; the evaluator is still exercised directly
            detect = lambda name: conditions.get_satisfied(rp.Details(name, features, results, cutoff, circ))
            chk.count("via_Conditions_only")
        ctx = enc_ctx(cutoff, circ, genes, hits)
        etree = enc_tree(tree)
        nleaves = leaves(tree)
        wrap = circ if circ else None
        for gid, _ in genes:
            flat = [PROP, 1] + ctx + etree + [gid]
            try:
                out = enc_result(detect(f"g{gid}"), names)
            except Exception as exc:  # pylint: disable=broad-except
                out = [-1, err_code(exc)]
                chk.count("error_" + common.ERR_NAME.get(out[1], str(out[1])))
            near = any(o != gid and get_distance_between_locations(features[f"g{gid}"].location, features[f"g{o}"].location,
                                                                   wrap) < cutoff for o, _ in genes)
            cases.append(flat)
            impl_outs.append(out)
            sample = {"tree": tree, "cutoff": cutoff, "circular_origin": circ, "genes": genes, "hits": hits,
                      "gene": gid, "implementation": out}
            inputs.append(sample)
            chk.count("met" if out[0] == 1 else "not_met")
            if out[0] == 1 and out[1] > 0:
                chk.count("anchor")
                if out[2 + out[1]] > 0:
                    chk.count("anchor_with_ancillary")
            chk.count(f"leaves_{min(nleaves, 6)}")
            if tag:
                chk.count(tag)
            chk.note_case(flat, nleaves >= 2 and near, sample)

    while len(cases) < target:
        if rng.random() < 0.5:
            # a top-level or-list of and-chains, as the parser builds for `CONDITIONS a and b or c ...`
            tree = ("group", rng.random() < 0.1, trees.items(rng.choice([0, 1, 2, 3]), False))
        else:
            tree = trees.cond(rng.choice([1, 2, 3, 4]), False)
        if tree[0] not in ("group", "cds") and rng.random() < 0.8:
            tree = ("group", False, [("c", tree)])
        try:
            conditions = build(tree)
        except ValueError:
            chk.count("constructor_rejected")
            continue
        cutoff, circ, genes = gen_layout(rng)
        hits = gen_hits(rng, genes, [0, 10, 25, 50])
        add_cases(tree, conditions, cutoff, circ, genes, hits)
    if chk.tier == "thorough":
        n_before = len(cases)
        for tree, cutoff, circ, genes, hits in exhaustive_small():
            try:
                conditions = build(tree)
            except ValueError:
                chk.count("exhaustive_constructor_rejected")
                continue
            add_cases(tree, conditions, cutoff, circ, genes, hits, tag="exhaustive_small")
        chk.extra["exhaustive_subdomain"] = (
            f"{len(cases) - n_before} evaluations: every tree L | L1 and L2 | L1 or L2 | [not] cds(L1 and/or L2) with leaves "
            "from {[not] p, [not] minscore(p,10), [not] minimum(k,[p0,p1]) : p in {p0,p1}, k in {1,2}} (no minimum inside cds) "
            "x two genes at gap {cutoff-1, cutoff} on a line and across the origin of a ring x every assignment of "
            "{absent, score 9.5, score 10} to (gene, profile); coverage of the correspondence, not the unbounded claim")
    # the independent verdict first (it yields a failing input), then the model/implementation correspondence
    spec_outs = spec_verdicts(chk, cases, impl_outs, 2, "DetectionRule.detect vs holds/reasons/anc_spec",
                              lambda i: inputs[i])
    model_outs = common.correspondence(chk, cases, impl_outs,
                                       describe=lambda flat: {"function": "DetectionRule.detect", "payload": flat[2:]})
    # C01_met / C01_reasons / C01_ancillary say model = specification: observed too (canonical forms included)
    differ = [i for i, (m, s) in enumerate(zip(model_outs, spec_outs)) if m != s]
    chk.extra["model_vs_spec_differ"] = len(differ)
    if differ:
        i = min(differ, key=lambda k: len(cases[k]))
        chk.violation("broken-correspondence", f"extracted model and extracted specification differ on {len(differ)} case(s) "
                      "although C01_met/C01_reasons/C01_ancillary prove them equal (results_known violated by the generator?)",
                      {"theorem_or_correspondence": "C01_met, C01_reasons, C01_ancillary", "flat": cases[i],
                       "model": model_outs[i], "specification": spec_outs[i], "input": inputs[i]})
    chk.crosscheck_vm(cases, model_outs)

    a_cases, a_impl, a_inputs = apply_rules_stream(chk, rng, trees, names, 2500 if chk.tier == "quick" else 40000)
    a_spec = spec_verdicts(chk, a_cases, a_impl, 4, "apply_cluster_rules (one rule) vs recorded_spec", lambda i: a_inputs[i])
    a_model = common.correspondence(chk, a_cases, a_impl, label="apply_cluster_rules promotion loop: model vs implementation",
                                    describe=lambda flat: {"function": "apply_cluster_rules", "payload": flat[2:]})
    differ = [i for i, (m, s) in enumerate(zip(a_model, a_spec)) if m != s]
    chk.extra["apply_model_vs_spec_differ"] = len(differ)
    if differ:
        i = min(differ, key=lambda k: len(a_cases[k]))
        chk.violation("broken-correspondence", f"apply_rule model and specification differ on {len(differ)} case(s)",
                      {"theorem_or_correspondence": "C01_rule_domains", "flat": a_cases[i], "model": a_model[i],
                       "specification": a_spec[i], "input": a_inputs[i]})
    chk.crosscheck_vm(a_cases, a_model, k=60 if chk.tier == "quick" else 400)
    return chk.finish(RULE)


def replay(chk, path):
    import json
    doc = json.load(open(path))
    flat = doc["flat"]
    spec_fn = {1: 2, 2: 2, 3: 4, 4: 4}.get(flat[1], 2)
    model_fn = {1: 1, 2: 1, 3: 3, 4: 3}.get(flat[1], 1)
    model, spec = common.run_driver([[flat[0], model_fn] + flat[2:], [flat[0], spec_fn] + flat[2:]])
    print("model:", model, "specification:", spec, "recorded implementation:", doc.get("implementation"))
    print("decoded input:", json.dumps(doc.get("input"))[:2000])
    return 0
