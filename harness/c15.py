"""C15: correspondence for ORF scanning (all_orfs.scan_orfs) and intergenic areas
(all_orfs.find_intergenic_areas), plus an implementation-side oracle on every scan result:
the reported location, extracted from the genome with Biopython, must be an open reading frame."""
import types

import common
from common import err_code

PROP = 15
BASES = "ACGT"
COMP = {"A": "T", "C": "G", "G": "C", "T": "A", "N": "N", "a": "t", "c": "g", "g": "c", "t": "a", "n": "n",
        "R": "Y", "Y": "R", "r": "y", "y": "r"}


def revcomp(s):
    return "".join(COMP[c] for c in reversed(s))


def enc_pyloc(loc):
    out = [len(loc.parts)]
    for p in loc.parts:
        out += [int(p.start), int(p.end), 2 if p.strand is None else int(p.strand)]
    return out


class Gen:
    def __init__(self, rng, starts, stops):
        self.rng = rng
        self.starts = sorted(starts)
        self.stops = sorted(stops)

    def codon(self):
        r = self.rng.random()
        if r < 0.14:
            return self.rng.choice(self.starts)
        if r < 0.27:
            return self.rng.choice(self.stops)
        return "".join(self.rng.choice(BASES) for _ in range(3))

    def dna(self, max_codons=40):
        rng = self.rng
        n = rng.choice([0, 1, 2, 3, 5, 8, 12, 20, max_codons])
        s = "".join(rng.choice(BASES) for _ in range(rng.randint(0, 2)))
        s += "".join(self.codon() for _ in range(n))
        s += "".join(rng.choice(BASES) for _ in range(rng.randint(0, 2)))
        if rng.random() < 0.15 and s:
            # lower case and ambiguity codes
            chars = list(s)
            for _ in range(rng.randint(1, 4)):
                i = rng.randrange(len(chars))
                chars[i] = rng.choice([chars[i].lower(), "N", "n", "R", "Y"])
            s = "".join(chars)
        return s

    def scan_case(self):
        """ the way find_all_orfs calls scan_orfs: a window of a genome, possibly starting before the origin """
        rng = self.rng
        genome = self.dna(60)
        n = len(genome)
        r = rng.random()
        if n == 0 or r < 0.1:
            # free-standing call without a record length
            seq = self.dna()
            return {"genome": None, "seq": seq, "direction": rng.choice([1, -1]), "offset": rng.randint(0, 30),
                    "minimum": self.minimum(seq), "record_length": None}
        if r < 0.45:
            start, end = 0, n
        elif r < 0.75:
            start = rng.randrange(0, n)
            end = rng.randrange(start, n + 1)
        else:
            # window crossing the origin: negative start
            end = rng.randrange(0, n + 1)
            start = -rng.randrange(1, n - end + 1) if n - end >= 1 else 0
        chunk = genome[start:end] if start >= 0 else genome[n + start:] + genome[:end]
        direction = rng.choice([1, -1])
        seq = chunk if direction == 1 else revcomp(chunk)
        return {"genome": genome, "seq": seq, "direction": direction, "offset": start,
                "minimum": self.minimum(seq), "record_length": n}

    def minimum(self, seq):
        rng = self.rng
        r = rng.random()
        if r < 0.4:
            return rng.choice([0, 2, 3, 5, 6, 8, 9, 11, 12])
        if r < 0.5:
            return 60
        return rng.randint(0, max(3, len(seq)))

    def intergenic_case(self):
        rng = self.rng
        n = rng.choice([20, 50, 100, 300])
        k = rng.choice([0, 1, 2, 3, 4, 6])
        genes = []
        for _ in range(k):
            s = rng.randrange(0, n)
            e = rng.randrange(s + 1, n + 1)
            genes.append((s, e))
        genes.sort(key=lambda g: g[0])
        if rng.random() < 0.05:
            rng.shuffle(genes)   # the function assumes order by start; behaviour is still compared
        start = rng.choice([0, 0, rng.randrange(0, n)])
        end = rng.choice([n, n, rng.randrange(start, n + 1)])
        padding = rng.choice([0, 0, 1, 3, 10, 10])
        min_length = rng.choice([0, 1, 5, 10, 60])
        if genes and rng.random() < 0.3:
            # put the minimum exactly on a gap
            g = rng.choice(genes)
            min_length = max(0, g[0] + padding - start)
        return {"start": start, "end": end, "genes": genes, "min_length": min_length, "padding": padding}


def orf_oracle(case, locs, starts, stops):
    """ implementation-side: every reported location extracts (Biopython) to start .. stop without inner stop """
    if case["genome"] is None:
        return None
    from Bio.Seq import Seq
    genome = Seq(case["genome"])
    for loc in locs:
        text = str(loc.extract(genome)).upper()
        if len(text) % 3 or len(text) < 6:
            return f"extracted length {len(text)}"
        codons = [text[i:i + 3] for i in range(0, len(text), 3)]
        if codons[0] not in starts:
            return "does not begin with a start codon"
        if codons[-1] not in stops:
            return "does not end with a stop codon"
        if any(c in stops for c in codons[:-1]):
            return "contains an inner stop codon"
        if len(text) - 1 < case["minimum"]:
            return "shorter than the minimum"
    return None


RULE = ("scan_orfs: windows of codon-structured random genomes (start/stop codons enriched, lower case and ambiguity codes, "
        "0-2 bases of frame shift), full record / inner window / window starting before the origin, both strands, minimum length "
        "on and around ORF lengths, with and without record length; find_intergenic_areas: 0-6 genes incl. nested, staggered and "
        "(rarely) unsorted, padding 0-10, minimum placed on gap lengths.  Non-trivial = at least one ORF / one area reported; "
        "distinct by flat encoding")


def run(chk):
    if not chk.build_and_audit():
        return chk.finish(RULE)
    from antismash.common import all_orfs
    starts, stops = set(all_orfs.START_CODONS), set(all_orfs.STOP_CODONS)
    gen = Gen(chk.rng, starts, stops)
    total = 30000 if chk.tier == "quick" else 500000
    cases, impl_outs = [], []
    descr = {}
    for i in range(total):
        if chk.rng.random() < 0.7:
            case = gen.scan_case()
            rl = case["record_length"]
            flat = [PROP, 1, len(case["seq"])] + [ord(c) for c in case["seq"]] + \
                   [case["direction"], case["offset"], case["minimum"]] + ([0] if rl is None else [1, rl])
            try:
                locs = all_orfs.scan_orfs(case["seq"], case["direction"], case["offset"], case["minimum"], rl)
                out = [len(locs)]
                for loc in locs:
                    out += enc_pyloc(loc)
                bad = orf_oracle(case, locs, starts, stops)
                if bad:
                    chk.violation("counterexample", f"scan_orfs reports a location that is not an ORF of the genome: {bad}",
                                  {"theorem_or_correspondence": "C15_coordinates / scan_orfs", "input": case, "flat": flat,
                                   "implementation": [str(l) for l in locs]})
                chk.count("scan_orfs")
                chk.count(f"orfs_{min(len(locs), 3)}{'+' if len(locs) >= 3 else ''}")
                if any(len(l.parts) > 1 for l in locs):
                    chk.count("wrapped_orf")
                nontrivial = len(locs) > 0
            except Exception as exc:  # pylint: disable=broad-except
                out = [-1, err_code(exc)]
                chk.count("error_" + common.ERR_NAME.get(out[1], str(out[1])))
                nontrivial = False
            sample = {"function": "scan_orfs", **case, "implementation": out}
        else:
            case = gen.intergenic_case()
            genes = [types.SimpleNamespace(location=types.SimpleNamespace(start=s, end=e)) for s, e in case["genes"]]
            flat = [PROP, 2, case["start"], case["end"], len(genes)] + [x for g in case["genes"] for x in g] + \
                   [case["min_length"], case["padding"]]
            areas = all_orfs.find_intergenic_areas(case["start"], case["end"], genes, case["min_length"], case["padding"])
            out = [len(areas)] + [int(x) for a in areas for x in a]
            chk.count("find_intergenic_areas")
            nontrivial = len(areas) > 0 and len(genes) > 0
            sample = {"function": "find_intergenic_areas", **case, "implementation": areas}
        cases.append(flat)
        impl_outs.append(out)
        chk.note_case(flat, nontrivial, sample)
        descr[len(cases) - 1] = sample
    model_outs = common.correspondence(chk, cases, impl_outs,
                                       describe=lambda flat: {"function": flat[1], "payload": flat[2:]})
    chk.crosscheck_vm(cases, model_outs)
    known_findings(chk, all_orfs)
    return chk.finish(RULE, trusted_extra=["Biopython Seq/extract used by the implementation-side ORF oracle"])


def known_findings(chk, all_orfs):
    """ recorded, unrepaired defects: printed only while the stored witness still reproduces """
    for finding in common.load_known_findings("C15"):
        if finding["status"] != "known":
            continue
        if finding["class"] == "orf_exact_minimum":
            seq = finding["witness"]["seq"]
            minimum = finding["witness"]["minimum"]
            if len(all_orfs.scan_orfs(seq, 1, 0, minimum)) == 0 and len(all_orfs.scan_orfs(seq, 1, 0, minimum - 1)) == 1:
                chk.known(finding["what_fails"])


def replay(chk, path):
    import json
    doc = json.load(open(path))
    print("model:", common.run_driver([doc["flat"]])[0], "recorded implementation:", doc.get("implementation"))
    return 0
