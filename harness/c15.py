"""C15: correspondence for ORF scanning (all_orfs.scan_orfs, over its whole argument space: offset negative / zero / positive
with the window overshooting the record end / beyond the record length, record length given or not) and intergenic areas
(all_orfs.find_intergenic_areas), plus an implementation-side oracle on every scan result:
the reported location, extracted from the genome with Biopython, must be an open reading frame.
find_all_orfs is run on real Records; the witnesses of the repaired findings FC15a area_misses_enclosing_gene,
FC15b origin_gene_padding_window and FC15c ambiguous_stop_translation head the stream as a regression corpus
(REGRESSION_FIND_ALL), followed by those of FC15d trimmed_orf_over_origin (REGRESSION_TRIMMED, get_trimmed_orf), and
nothing is suppressed for those classes any more (no find_all_orfs / get_trimmed_orf finding is left: an oracle or
specification failure on such an output is always a VIOLATION)."""
import types

import common
from common import err_code

PROP = 15
BASES = "ACGT"
COMP = {"A": "T", "C": "G", "G": "C", "T": "A", "N": "N", "a": "t", "c": "g", "g": "c", "t": "a", "n": "n",
        "R": "Y", "Y": "R", "r": "y", "y": "r", "M": "K", "K": "M", "S": "S", "W": "W", "B": "V", "V": "B", "D": "H", "H": "D",
        "m": "k", "k": "m", "s": "s", "w": "w", "b": "v", "v": "b", "d": "h", "h": "d"}


def revcomp(s):
    return "".join(COMP[c] for c in reversed(s))


def ref_orfs(seq, starts, stops):
    """ independent scanner: (first, last) pairs, last inclusive, in the coordinates of seq """
    text = seq.upper()
    found = []
    for frame in range(3):
        begin = None
        for i in range(frame, len(text) - 2, 3):
            codon = text[i:i + 3]
            if begin is None and codon in starts:
                begin = i
            elif codon in stops:
                if begin is not None:
                    found.append((begin, i + 2))
                begin = None
    return found


def enc_pyloc(loc):
    out = [len(loc.parts)]
    for p in loc.parts:
        out += [int(p.start), int(p.end), 2 if p.strand is None else int(p.strand)]
    return out


class Gen:
    def __init__(self, rng, starts, stops):
        self.rng = rng
        self.starts = sorted(starts)
        self.stops = sorted(stops)

    def codon(self):
        r = self.rng.random()
        if r < 0.14:
            return self.rng.choice(self.starts)
        if r < 0.27:
            return self.rng.choice(self.stops)
        return "".join(self.rng.choice(BASES) for _ in range(3))

    def dna(self, max_codons=40, sizes=(0, 1, 2, 3, 5, 8, 12, 20)):
        rng = self.rng
        n = rng.choice(list(sizes) + [max_codons])
        s = "".join(rng.choice(BASES) for _ in range(rng.randint(0, 2)))
        s += "".join(self.codon() for _ in range(n))
        s += "".join(rng.choice(BASES) for _ in range(rng.randint(0, 2)))
        if rng.random() < 0.15 and s:
            # lower case and ambiguity codes
            chars = list(s)
            for _ in range(rng.randint(1, 4)):
                i = rng.randrange(len(chars))
                chars[i] = rng.choice([chars[i].lower(), "N", "n", "R", "Y"])
            s = "".join(chars)
        return s

    def planted(self):
        """ a text with 1-3 planted ORFs (start codon, 0-8 codons that are no stop codons, stop codon) in any frames,
            separated and framed by 0-7 random bases; sometimes in lower case / with an ambiguity code """
        rng = self.rng
        text = ""
        for _ in range(rng.choice([1, 1, 2, 3])):
            text += "".join(rng.choice(BASES) for _ in range(rng.randint(0, 7)))
            text += rng.choice(self.starts)
            for _ in range(rng.choice([0, 1, 2, 3, 5, 8])):
                codon = self.codon()
                text += codon if codon not in self.stops else "GCA"
            text += rng.choice(self.stops)
        text += "".join(rng.choice(BASES) for _ in range(rng.randint(0, 7)))
        if rng.random() < 0.1:
            i = rng.randrange(len(text))
            text = text[:i] + rng.choice([text[i].lower(), "N", "R", "y"]) + text[i + 1:]
        return text

    def scan_case(self):
        """ scan_orfs over its whole argument space.  With a record length: a window of at most the record length cut out
            of a ring, the ring's origin placed at a chosen place of the window (outside it: window entirely before the
            record end; at its end: window ending exactly at the record end; 1-3 bases before its end; on / next to the
            boundaries of an ORF of the window, so that the window overshoots the record end by less or by more than one
            ORF and ORFs lie before, over and after the origin), and the window's position told as scan_orfs accepts it:
            by its real start coordinate (offset >= 0, the window running past the record end), by the negative
            offset find_all_orfs uses (start - record length), or a whole turn further on either side.  Without a
            record length: a window of a linear genome (offset >= 0) or a free-standing text with a negative offset. """
        rng = self.rng
        r = rng.random()
        direction = rng.choice([1, -1])
        if r < 0.12:
            # no record length: a window of a linear genome, or (negative offset) a free-standing text
            seq = self.dna()
            offset = rng.choice([0, 0, 1, 2, 3, rng.randint(0, 30), -rng.randint(1, 30)])
            genome = None
            if offset >= 0:
                chunk = seq if direction == 1 else revcomp(seq)
                genome = "".join(rng.choice(BASES) for _ in range(offset)) + chunk + \
                    "".join(rng.choice(BASES) for _ in range(rng.choice([0, 0, 1, 5])))
            return {"genome": genome, "seq": seq, "direction": direction, "offset": offset,
                    "minimum": self.minimum(seq), "record_length": None, "ring": False,
                    "classes": ["rl_none", "offset_" + ("negative" if offset < 0 else "zero" if offset == 0 else "positive")]}
        if rng.random() < 0.4:
            seq = self.planted()
        else:
            seq = self.dna(rng.choice([12, 20, 40, 40, 60]), sizes=[0, 1, 2, 4, 6, 8, 12, 12, 20, 20, 30])
        length = len(seq)
        chunk = seq if direction == 1 else revcomp(seq)
        classes = []
        # record length: the window is the whole record, nearly, or a part of it
        n = length + rng.choice([0, 0, 1, 2, 3, rng.randint(4, 12), rng.randint(4, 60)])
        if n == 0:
            n = rng.randint(1, 30)
        classes.append("window_is_record" if n == length else "window_shorter_than_record")
        # where in the window (chunk coordinates, 0 .. length) the origin of the ring falls; None = not inside
        orfs = ref_orfs(seq, self.starts, self.stops)
        where = rng.random()
        cut = None
        if length >= 2 and where >= 0.3:
            if where < 0.4:
                cut = length - rng.choice([1, 2, 3])
                classes.append("overshoot_1_to_3")
            elif where < 0.75 and orfs:
                first, last = rng.choice(orfs)          # in the coordinates of seq, last inclusive
                if direction == -1:
                    first, last = length - 1 - last, length - 1 - first
                cut = rng.choice([first, first + 1, first + 3, last + 1, last, last - 2, (first + last) // 2])
                classes.append("origin_at_orf_boundary" if cut in (first, last + 1) else "origin_inside_orf")
            else:
                cut = rng.randrange(1, length)
                classes.append("origin_anywhere")
            if not 1 <= cut <= length - 1:
                cut = None
                classes.pop()
        if cut is None:
            # the window does not cross the origin: anywhere before the record end, often ending exactly on it / at 0
            start = rng.choice([0, n - length, rng.randint(0, n - length)])
            classes.append("ends_at_record_end" if start + length == n else "before_record_end")
        else:
            start = n - cut
            classes.append("crosses_origin")
        start %= n
        # the ways of telling the position
        offset = rng.choice([start, start, start, start - n, start - n, start + n, start - 2 * n])
        classes.append("offset_" + ("negative" if -n <= offset < 0 else "zero" if offset == 0 else
                                    "positive" if 0 < offset < n else "beyond_record_length" if offset >= n
                                    else "below_minus_record_length"))
        if offset >= 0 and offset + length > n and cut is not None:
            classes.append("positive_offset_overshooting")
        ring = [rng.choice(BASES) for _ in range(n)]
        for i, char in enumerate(chunk):
            ring[(start + i) % n] = char
        minimum = self.minimum(seq)
        if orfs and rng.random() < 0.6:
            first, last = rng.choice(orfs)
            minimum = max(0, last - first + 1 + rng.choice([-3, -2, -1, -1, 0, 1]))
        elif rng.random() < 0.5:
            minimum = rng.choice([0, 3, 5, 6, 8, 9])
        return {"genome": "".join(ring), "seq": seq, "direction": direction, "offset": offset, "minimum": minimum,
                "record_length": n, "ring": True, "classes": classes}

    def minimum(self, seq):
        rng = self.rng
        r = rng.random()
        if r < 0.4:
            return rng.choice([0, 2, 3, 5, 6, 8, 9, 11, 12])
        if r < 0.5:
            return 60
        return rng.randint(0, max(3, len(seq)))

    def intergenic_case(self):
        rng = self.rng
        n = rng.choice([20, 50, 100, 300])
        k = rng.choice([0, 1, 2, 3, 4, 6])
        genes = []
        for _ in range(k):
            s = rng.randrange(0, n)
            e = rng.randrange(s + 1, n + 1)
            genes.append((s, e))
        genes.sort(key=lambda g: g[0])
        if rng.random() < 0.05:
            rng.shuffle(genes)   # the function assumes order by start; behaviour is still compared
        start = rng.choice([0, 0, rng.randrange(0, n)])
        end = rng.choice([n, n, rng.randrange(start, n + 1)])
        padding = rng.choice([0, 0, 1, 3, 10, 10])
        min_length = rng.choice([0, 1, 5, 10, 60])
        if genes and rng.random() < 0.3:
            # put the minimum exactly on a gap
            g = rng.choice(genes)
            min_length = max(0, g[0] + padding - start)
        return {"start": start, "end": end, "genes": genes, "min_length": min_length, "padding": padding}


    def dna_acgt(self, n_codons):
        rng = self.rng
        s = "".join(rng.choice(BASES) for _ in range(rng.randint(0, 2)))
        s += "".join(self.codon() for _ in range(n_codons))
        s += "".join(rng.choice(BASES) for _ in range(rng.randint(0, 2)))
        if rng.random() < 0.1:
            chars = list(s)
            for _ in range(rng.randint(1, 4)):
                i = rng.randrange(len(chars))
                chars[i] = chars[i].lower()
            s = "".join(chars)
        if rng.random() < 0.12 and len(s) > 8:
            # IUPAC ambiguity codes (Biopython translates a codon to the residue all its readings share, X otherwise,
            # and ends the translation at TAR / TRA - the stop codons whatever the base is, finding FC15c)
            chars = list(s)
            for _ in range(rng.randint(1, 4)):
                i = rng.randrange(len(chars))
                chars[i] = rng.choice("RRRYYNNMKSWBDHVrynk")
            for _ in range(rng.choice([0, 1, 1, 2])):
                i = rng.randrange(len(chars) - 3)
                chars[i:i + 3] = list(rng.choice(["TAR", "TRA", "TAR", "TRA", "YTA", "TYA", "tar", "TrA", "TGR", "TAN"]))
            s = "".join(chars)
        return s

    def trimmed_case(self):
        """ get_trimmed_orf: an ORF (start codon, codons with further start codons in frame, stop codon) planted on a
            circular genome, on either strand, in one part or in two parts over the origin; the limits unset, or placed
            on and around the positions of the start codons """
        rng = self.rng
        k = rng.choice([1, 2, 3, 5, 8, 12])
        body = []
        starts = []
        for j in range(k):
            if rng.random() < 0.3:
                body.append(rng.choice(self.starts))
                starts.append(3 * (j + 1))
            else:
                codon = "".join(rng.choice(BASES) for _ in range(3))
                body.append(codon if codon not in self.stops else "GCA")
        text = rng.choice(self.starts) + "".join(body) + rng.choice(self.stops[:3])
        if rng.random() < 0.05:
            i = rng.randrange(len(text))
            text = text[:i] + text[i].lower() + text[i + 1:]
        length = len(text)
        n = length + rng.choice([0, 1, 5, 20, 40])
        strand = rng.choice([1, -1])
        placed = text if strand == 1 else revcomp(text)
        pos = rng.randrange(0, n) if rng.random() < 0.6 else rng.randrange(max(0, n - length), n)
        genome = [rng.choice("CCCG") for _ in range(n)]
        for i, char in enumerate(placed):
            genome[(pos + i) % n] = char
        if pos + length <= n:
            parts = [(pos, pos + length, strand)]
        else:
            parts = [(pos, n, strand), (0, pos + length - n, strand)]
            if strand == -1:
                parts.reverse()
        points = [0, 3, length - 3, length, length + 1] + starts + [x + d for x in starts for d in (-1, 1, 3)]
        include = None if rng.random() < 0.5 else rng.choice(points)
        max_length = None if rng.random() < 0.5 else max(0, length - rng.choice(points))
        min_length = rng.choice([0, 0, 5, 6, 9, max(0, length - rng.choice(points))])
        return {"genome": "".join(genome), "orf": parts, "include": include, "max_length": max_length,
                "min_length": min_length, "text": text}

    def find_all_case(self):
        """ a record with 0-5 genes, linear or circular, with no area, an inner area or an origin-spanning area """
        rng = self.rng
        genome = self.dna_acgt(rng.choice([8, 15, 25, 40, 60]))
        n = len(genome)
        circular = rng.random() < 0.5
        genes = []
        for _ in range(rng.choice([0, 1, 2, 3, 4, 5])):
            strand = rng.choice([1, -1])
            if circular and rng.random() < 0.12 and n > 12:
                e = rng.randrange(1, n // 3)
                s = rng.randrange(n - n // 3, n)
                parts = [(s, n, strand), (0, e, strand)]
                if strand == -1:
                    parts.reverse()
            else:
                s = rng.randrange(0, n - 1)
                e = rng.randrange(s + 1, min(n, s + rng.choice([6, 12, 30, n])) + 1)
                parts = [(s, e, strand)]
            if parts not in genes:
                genes.append(parts)
        r = rng.random()
        if r < 0.35:
            area = None
        elif r < 0.7 or not circular or n < 12:
            s = rng.randrange(0, n - 1)
            area = [(s, rng.randrange(s + 1, n + 1), 1)]
        else:
            e = rng.randrange(1, n // 2)
            s = rng.randrange(max(e, n // 2), n)
            area = [(s, n, 1), (0, e, 1)]
        max_overlap = rng.choice([0, 0, 1, 3, 10])
        min_length = rng.choice([0, 3, 5, 6, 8, 9, 11, 12, 20, 60])
        if area is not None and len(area) > 1 and rng.random() < 0.4:
            # the inputs of the repaired class origin_gene_padding_window: a gene reaching into both parts of the
            # origin-spanning area (spanning the origin, or spanning the rest of the record), an allowed overlap that
            # lets the two allowances pass the length filter
            strand = rng.choice([1, -1])
            s, e = area[0][0], area[1][1]
            if rng.random() < 0.5:
                parts = [(rng.randrange(s, n), n, strand), (0, rng.randrange(1, e + 1), strand)]
                if strand == -1:
                    parts.reverse()
            else:
                parts = [(rng.randrange(0, e), rng.randrange(s + 1, n + 1), strand)]
            if parts not in genes:
                genes.append(parts)
            max_overlap = rng.choice([3, 10, 10])
            min_length = rng.choice([0, 3, 5, 6, 8])
        return {"genome": genome, "circular": circular, "genes": genes, "area": area,
                "min_length": min_length, "max_overlap": max_overlap}


def make_location(parts):
    from antismash.common.secmet.locations import CompoundLocation, FeatureLocation
    locs = [FeatureLocation(s, e, st) for s, e, st in parts]
    return locs[0] if len(locs) == 1 else CompoundLocation(locs)


def build_record(case):
    """ a real Record with real CDS features (translation checks bypassed) and, if asked for, a real
        SubRegion as the area; returns (record, area, genes in the record's order, len(area)) """
    from Bio.Seq import Seq
    from antismash.common.secmet import Record
    from antismash.common.secmet.test.helpers import DummyCDS, DummySubRegion
    record = Record(Seq(case["genome"]), transl_table=11)
    if case["circular"]:
        record.add_annotation("topology", "circular")
    for i, parts in enumerate(case["genes"]):
        record.add_cds_feature(DummyCDS(location=make_location(parts), locus_tag=f"g{i}", translation="MA"))
    area = None
    if case["area"] is not None:
        area = DummySubRegion(location=make_location(case["area"]))
        record.add_subregion(area)
    return record, area


def positions_of(loc):
    out = []
    for part in loc.parts:
        rng_ = list(range(int(part.start), int(part.end)))
        out.extend(reversed(rng_) if part.strand == -1 else rng_)
    return out


def find_all_oracle(case, record, area, features, starts, stops):
    """ implementation-side, independent of the model: every returned feature is an ORF of the genome at
        its location, overlaps no existing gene by more than max_overlap, lies inside the searched area
        and carries the translation of its location with the first residue forced to M """
    from Bio.Seq import Seq
    genome = Seq(case["genome"])
    gene_pos = [set(positions_of(g.location)) for g in record.get_cds_features()]
    area_pos = set(positions_of(area.location)) if area is not None else None
    for feature in features:
        loc = feature.location
        text = str(loc.extract(genome)).upper()
        if len(text) % 3 or len(text) < 6:
            return f"{loc}: extracted length {len(text)}"
        codons = [text[i:i + 3] for i in range(0, len(text), 3)]
        if codons[0] not in starts or codons[-1] not in stops or any(c in stops for c in codons[:-1]):
            return f"{loc}: not start .. first stop"
        if len(text) < case["min_length"]:
            return f"{loc}: shorter than the minimum"
        pos = positions_of(loc)
        if len(set(pos)) != len(pos) or not all(0 <= x < len(genome) for x in pos):
            return f"{loc}: positions outside the record or repeated"
        for gene, gpos in zip(record.get_cds_features(), gene_pos):
            if len(gpos & set(pos)) > case["max_overlap"]:
                # (-ORIGIN marks the inputs of the former class origin_gene_padding_window, FC15b, repaired: the area
                # spans the origin and the gene reaches into both of its parts - a gene spanning the origin, or one
                # spanning the rest of the record; for the message only)
                at_origin = area is not None and len(area.location.parts) > 1 and \
                    all(gpos & set(range(int(part.start), int(part.end))) for part in area.location.parts)
                return (f"OVERLAP{'-ORIGIN' if at_origin else ''} {loc}: overlaps gene {gene.location} by "
                        f"{len(gpos & set(pos))} > {case['max_overlap']}")
        if area_pos is not None and not set(pos) <= area_pos:
            return f"{loc}: outside the searched area"
        expected = str(Seq(text).translate(to_stop=True, table=11))
        for odd in "BJZ":
            expected = expected.replace(odd, "X")
        expected = "M" + expected[1:]
        if feature.translation != expected:
            return f"{loc}: translation {feature.translation} is not {expected}"
        if 3 * len(feature.translation) + 3 != len(text):
            # (repaired finding FC15c ambiguous_stop_translation: TAR / TRA inside the ORF ended the translation early)
            return f"{loc}: translation {feature.translation} has {len(feature.translation)} residues for {len(text) // 3 - 1} codons"
    return None


def trimmed_oracle(case, orf_location, result):
    """ implementation-side, independent of the model: the location of the trimmed ORF extracts (Biopython) to a proper
        suffix of the ORF text, in frame, beginning with a start codon, within the limits; with the limits unset it is
        the shortest such suffix; the translation is that of the suffix """
    from Bio.Seq import Seq
    from antismash.common import all_orfs
    genome = Seq(case["genome"])
    text = str(orf_location.extract(genome))
    if text != case["text"]:
        return f"generator: the planted ORF {case['text']} is not at {orf_location} ({text})"
    length = len(text)
    candidates = [i for i in range(0, length, 3) if text[i:i + 3] in all_orfs.START_CODONS]
    if result is None:
        if case["include"] is None and case["max_length"] is None and case["min_length"] <= length and \
                any(length - i >= case["min_length"] and i < length - case["min_length"] for i in candidates):
            return "no trimmed ORF although a start codon leaves at least the minimum length"
        return None
    got = str(result.location.extract(genome))
    if not (len(got) <= length and text.endswith(got) and len(got) % 3 == 0 and got[:3] in all_orfs.START_CODONS):
        return f"trimmed location {result.location} extracts to {got}: not a suffix of the ORF {text} at a start codon"
    if positions_of(result.location) != positions_of(orf_location)[length - len(got):]:
        return f"trimmed location {result.location} is not the end of {orf_location}"
    if len(got) < case["min_length"] or (case["max_length"] is not None and len(got) > case["max_length"]):
        return f"trimmed ORF of {len(got)} nt outside the limits"
    if case["include"] is not None and length - len(got) > case["include"]:
        return f"trimmed ORF begins after the position to include"
    if case["include"] is None and case["max_length"] is None:
        later = [i for i in candidates if i > length - len(got) and i < length - case["min_length"]]
        if later:
            return f"trimmed ORF begins at {length - len(got)} although the start codon at {later[-1]} is allowed"
    expected = "M" + str(Seq(got).translate(to_stop=True, table=11))[1:]
    if result.translation != expected:
        return f"trimmed ORF: translation {result.translation} is not {expected}"
    return None


# regression corpus of find_all_orfs, run first on every run, through the same path as every generated case
# (correspondence with the model, Biopython oracle, Gallina gap specification - nothing is suppressed for them).
# Witnesses of the REPAIRED finding FC15a area_misses_enclosing_gene (known_findings.json, status fixed): a gene reaching
# into the area that the positional look-up Record.get_cds_features_within_location(part, with_overlapping=True) left out
# of `existing` because a later gene (in record order) ends before the area - find_all_orfs then returned ORF [33:42)(+)
# inside that gene.  The first entry is the stored witness of the finding (it is also read from known_findings.json, see
# regression_cases); then the same mechanism with the reaching gene spanning the origin (those sort first in the record),
# inside one part of an origin-spanning area, and with the reaching gene on the reverse strand.
_FC15A_GENOME = "C" * 33 + "ATGAAATAA" + "C" * 18
REGRESSION_FIND_ALL = [
    {"genome": _FC15A_GENOME, "circular": False, "genes": [[(5, 40, 1)], [(10, 20, 1)]], "area": [(30, 60, 1)],
     "min_length": 5, "max_overlap": 0},
    {"genome": _FC15A_GENOME, "circular": True, "genes": [[(25, 60, 1), (0, 4, 1)], [(10, 20, 1)]], "area": [(30, 60, 1)],
     "min_length": 5, "max_overlap": 0},
    {"genome": _FC15A_GENOME, "circular": True, "genes": [[(12, 40, 1)], [(15, 20, 1)]],
     "area": [(30, 60, 1), (0, 8, 1)], "min_length": 5, "max_overlap": 0},
    {"genome": _FC15A_GENOME, "circular": False, "genes": [[(5, 40, -1)], [(10, 20, 1)], [(12, 18, -1)]],
     "area": [(30, 60, 1)], "min_length": 5, "max_overlap": 3},
    # Witnesses of the REPAIRED finding FC15b origin_gene_padding_window (known_findings.json, status fixed): a gene reaching
    # into both parts of an origin-spanning area; the window joined over the origin carries max_overlap bases before the
    # record end AND after the record start, and find_all_orfs returned an ORF sharing more than max_overlap positions with
    # the gene.  First the stored witness (gene spanning the origin, ORF join{[38:47](+),[0:3](+)} inside it, 12 > 10), then
    # the form with a gene spanning the rest of the record (ORF join{[32:47](+),[0:12](+)}, 8 + 9 = 17 > 10), the same on
    # the reverse strand (genome reverse-complemented in place), and - completeness - an ORF over the origin that shares
    # 5 + 3 = 8 <= 10 positions with such a gene and must still be returned (the model returns it, so dropping it is a
    # disagreement).
    {"genome": "TAGTCGTGTGCTGACTTGAATTTCCGTCGGTGCCATGTATGCATCGT", "circular": True,
     "genes": [[(0, 9, -1), (36, 47, -1)], [(38, 42, 1)]], "area": [(26, 47, 1), (0, 6, 1)], "min_length": 5, "max_overlap": 10},
    {"genome": "AAAAAAAAATAA" + "C" * 20 + "ATGAAAAAAAAAAAA", "circular": True,
     "genes": [[(3, 40, 1)]], "area": [(30, 47, 1), (0, 13, 1)], "min_length": 5, "max_overlap": 10},
    {"genome": revcomp("AAAAAAAAATAA" + "C" * 20 + "ATGAAAAAAAAAAAA"), "circular": True,
     "genes": [[(7, 44, -1)]], "area": [(34, 47, 1), (0, 17, 1)], "min_length": 5, "max_overlap": 10},
    {"genome": "AAATAA" + "C" * 29 + "ATGAAAAAAAAA", "circular": True,
     "genes": [[(3, 40, 1)]], "area": [(30, 47, 1), (0, 13, 1)], "min_length": 5, "max_overlap": 10},
    # Witnesses of the REPAIRED finding FC15c ambiguous_stop_translation: TAR / TRA (R = A or G) are stop codons whatever the
    # base is; Biopython ends the translation there, scan_orfs did not end the ORF there: ORF [3:21)(+) with translation MK.
    # The stored witness, TRA, lower case, and the reverse strand (YTA / TYA on the forward strand).
    {"genome": "CCCATGAAATARAAAAAATAACCC", "circular": False, "genes": [], "area": None, "min_length": 3, "max_overlap": 10},
    {"genome": "CCCATGAAATRAAAAAAATAACCC", "circular": False, "genes": [], "area": None, "min_length": 3, "max_overlap": 10},
    {"genome": "CCCATGAAAtarAAAAAATAACCC", "circular": True, "genes": [], "area": None, "min_length": 3, "max_overlap": 10},
    {"genome": revcomp("CCCATGAAATARAAAAAATAACCC"), "circular": False, "genes": [], "area": None, "min_length": 3,
     "max_overlap": 10},
    {"genome": revcomp("CCCATGAAATRAAAAAAATAACCC"), "circular": False, "genes": [], "area": [(0, 24, 1)], "min_length": 3,
     "max_overlap": 10},
]
REPAIRED_FIND_ALL_CLASSES = ("area_misses_enclosing_gene", "origin_gene_padding_window", "ambiguous_stop_translation")


def regression_cases():
    """ the corpus above plus the stored witness of every repaired find_all_orfs finding of known_findings.json """
    out = [dict(case) for case in REGRESSION_FIND_ALL]
    for finding in common.load_known_findings("C15"):
        if finding["status"] == "fixed" and finding["class"] in REPAIRED_FIND_ALL_CLASSES:
            case = dict(finding["witness"])
            case["genes"] = [[tuple(p) for p in g] for g in case["genes"]]
            case["area"] = None if case["area"] is None else [tuple(p) for p in case["area"]]
            if case not in out:
                out.append(case)
    return out


def intergenic_oracle(case, areas):
    """ independent of the model: free positions (outside every gene shrunk by the padding on both sides)
        as a bitmap; every area lies in [start, end], has the minimum length and consists of free positions;
        every free position whose maximal free run has the minimum length is covered; when every gene is
        longer than twice the padding and the genes are ordered, the non-empty areas are exactly the
        maximal free runs of at least the minimum length """
    start, end, pad, minimum = case["start"], case["end"], case["padding"], case["min_length"]
    genes = case["genes"]
    ordered = all(a[0] <= b[0] for a, b in zip(genes, genes[1:]))
    free = {x: all(not (gs + pad <= x < ge - pad) for gs, ge in genes) for x in range(start - 1, end + 1)}
    runs = []
    x = start
    while x < end:
        if free[x]:
            y = x
            while y < end and free[y]:
                y += 1
            runs.append((x, y))
            x = y
        else:
            x += 1
    for a, b in areas:
        if not (start <= a and b <= end and b - a >= minimum):
            return f"area {(a, b)} outside the range or too short"
        if ordered and not all(free[x] for x in range(a, b)):
            return f"area {(a, b)} contains a position inside a gene (beyond the padding)"
    if not ordered:
        return None
    # (genes shorter than twice the padding split a free run into overlapping areas, each of which may fall under
    #  the minimum: coverage of the free runs is only claimed - and proved - for longer genes)
    if all(ge - gs > 2 * pad for gs, ge in genes):
        want = [r for r in runs if r[1] - r[0] >= minimum]
        got = [tuple(a) for a in areas if a[1] > a[0]]
        if got != want:
            return f"areas {got} are not the maximal free runs {want}"
    return None


def orf_oracle(case, locs, starts, stops):
    """ implementation-side, independent of the model: every reported location lies inside the record (record length
        given: 0 <= start < end <= record length for every part, at most two parts, two parts split at the origin and in
        the order of transcription), extracts (Biopython) to start .. stop without inner stop, and the extracted text is
        the text of an ORF of the scanned window (reference scanner); the number of locations is the number of ORFs of
        the window longer than the minimum """
    n = case["record_length"]
    if n is not None:
        for loc in locs:
            parts = list(loc.parts)
            if len(parts) > 2:
                return f"{loc}: more than two parts"
            if any(p.strand != case["direction"] for p in parts):
                return f"{loc}: not on the scanned strand"
            if not all(0 <= int(p.start) < int(p.end) <= n for p in parts):
                return f"{loc}: coordinates outside the record of {n} bases"
            if len(parts) == 2:
                low, high = parts if case["direction"] == -1 else parts[::-1]
                if not (int(low.start) == 0 and int(high.end) == n and int(low.end) <= int(high.start)):
                    return f"{loc}: two parts that are not split at the origin in the order of transcription"
    window_orfs = ref_orfs(case["seq"], starts, stops)
    wanted = [(a, b) for a, b in window_orfs if b - a >= case["minimum"]]
    if len(locs) != len(wanted):
        return f"{len(locs)} locations for {len(wanted)} ORFs of the window longer than the minimum"
    if case["genome"] is None:
        return None
    from Bio.Seq import Seq
    genome = Seq(case["genome"])
    texts = {case["seq"][a:b + 1] for a, b in wanted}
    for loc in locs:
        raw = str(loc.extract(genome))
        text = raw.upper()
        if len(text) % 3 or len(text) < 6:
            return f"{loc}: extracted length {len(text)}"
        codons = [text[i:i + 3] for i in range(0, len(text), 3)]
        if codons[0] not in starts:
            return f"{loc}: does not begin with a start codon"
        if codons[-1] not in stops:
            return f"{loc}: does not end with a stop codon"
        if any(c in stops for c in codons[:-1]):
            return f"{loc}: contains an inner stop codon"
        if len(text) - 1 < case["minimum"]:
            return f"{loc}: shorter than the minimum"
        if raw not in texts:
            return f"{loc}: extracts to {raw}, which is not the text of an ORF of the window"
    return None


# deterministic head of the scan_orfs stream: the ring of Theorems.C15_coordinates_any_offset_nonvacuous (30 bases, ORF
# ATG AAA CCC TAA over the origin at 24..29 + 0..5) and its reverse complement; the window [21, 39) told by its real start
# (positive offset, overshooting the record end by 9), as find_all_orfs tells it (-9), a turn further (51, -39); a window
# ending exactly at the record end, one overshooting by 1, the whole record from its middle; both strands; minimum
# below, on and above the ORF's 12 bases (on = the recorded finding orf_exact_minimum)
_RING = "CCCTAA" + "C" * 18 + "ATGAAA"
_RING2 = "CCCATGAAATAA" + "C" * 18


def scan_corpus():
    out = []

    def add(ring, start, length, offset, direction, minimum):
        n = len(ring)
        chunk = (ring * 3)[start % n:start % n + length]
        out.append({"genome": ring, "seq": chunk if direction == 1 else revcomp(chunk), "direction": direction,
                    "offset": offset, "minimum": minimum, "record_length": n, "ring": True, "classes": ["scan_corpus"]})
    for ring, direction in ((_RING, 1), (revcomp(_RING), -1)):
        for offset in (21, -9, 51, -39):
            add(ring, 21, 18, offset, direction, 6)
        for minimum in (10, 11, 12):
            add(ring, 21, 18, 21, direction, minimum)
        add(ring, 12, 18, 12, direction, 6)      # ends exactly at the record end
        add(ring, 13, 18, 13, direction, 6)      # overshoots by one base
        add(ring, 15, 30, 15, direction, 6)      # the whole record from its middle
        add(ring, 15, 30, -15, direction, 6)
        add(ring, 0, 30, 30, direction, 6)       # offset = record length
    for ring, direction in ((_RING2, 1), ("CCC" + revcomp("ATGAAATAA") + "C" * 18, -1)):
        add(ring, 27, 18, 27, direction, 6)      # an ORF wholly after the origin in an overshooting window
        add(ring, 27, 18, -3, direction, 6)
    return out


def scan_enumeration(tier):
    """ exhaustive over the position arguments on small rings: every offset from -2N to 2N (two turns either side), window
        lengths 9..N (quick) / 0..N (thorough), both strands of the ring and of its reverse complement; the rings carry an
        ORF over the origin (12 bases: ATG AAA TAA at 9..11 + 0..5) """
    out = []
    rings = ["AAATAACCCATG"] if tier == "quick" else ["AAATAACCCATG", "AAATAACCCCATG", "GAAATAGCCTTGATGC"]
    for base in rings:
        n = len(base)
        lengths = range(9, n + 1) if tier == "quick" else range(0, n + 1)
        minima = (6,) if tier == "quick" else (0, 5, 8, 9, 11)
        for ring in (base, revcomp(base)):
            for direction in (1, -1):
                for length in lengths:
                    for offset in range(-2 * n, 2 * n + 1):
                        start = offset % n
                        chunk = (ring * 3)[start:start + length]
                        for minimum in minima:
                            out.append({"genome": ring, "seq": chunk if direction == 1 else revcomp(chunk),
                                        "direction": direction, "offset": offset, "minimum": minimum, "record_length": n,
                                        "ring": True, "classes": ["enumerated_offsets"]})
    return out


RULE = ("scan_orfs over its argument space: texts from a codon-structured random source (start/stop codons enriched, lower case "
        "and ambiguity codes, 0-2 bases of frame shift) or with 1-3 planted ORFs; with a record length (88 %): the text is a window "
        "of at most the record length (window = record 25 %) of a ring built around it, the ring's origin outside the window "
        "(window before the record end, or ending exactly on it), 1-3 bases before the window's end, on / next to / inside an "
        "ORF of the window, or anywhere, and the window's position told by its real start (offset >= 0, overshooting the record "
        "end), by start - record length (negative, the way find_all_orfs tells it), or a turn further either side (offset >= "
        "record length, offset < -record length); without a record length: a window of a linear genome at offset 0-30 or a "
        "free-standing text at a negative offset; both strands; minimum length on and around the length of an ORF of the window, "
        "small values, 60, random; a deterministic corpus of 28 such calls on a 30-base ring runs first, then an ENUMERATION of the "
        "position arguments on small rings with an ORF over the origin (every offset from -2N to 2N, window lengths 9..N on a "
        "12-base ring in quick = 784 calls; lengths 0..N, five minima, rings of 12, 13 and 16 bases in thorough = 50 k calls; both "
        "strands of the ring and of its reverse complement); windows LONGER than "
        "the record are not generated (not a window of the record; an ORF longer than the record has no location on it); "
        "the Gallina specification (spec_scan: is_orf, positions, minimum; for ring windows spec_scan_ring: also ring shape and "
        "extraction from the record = text of an ORF of the window) and an independent Python/Biopython oracle are "
        "evaluated on EVERY implementation output; find_intergenic_areas: 0-6 genes incl. nested, staggered and "
        "(rarely) unsorted, padding 0-10, minimum placed on gap lengths, with a bitmap oracle for soundness/coverage/maximality; "
        "find_all_orfs: real Records (genomes of 24-190 nt, ACGT/acgt, 12 % with IUPAC ambiguity codes and planted TAR/TRA/YTA/TYA/"
        "TGR/TAN, linear and circular) with 0-6 real CDS features incl. origin-spanning genes and (40 % of the origin-spanning areas) "
        "a gene reaching into both parts of the area, no area / inner SubRegion / origin-spanning SubRegion, min_length 0-60, "
        "max_overlap 0-10, with an "
        "oracle (Biopython extract/translate, gene overlap, area); the regression corpus (witnesses of the repaired findings "
        "area_misses_enclosing_gene: nested gene / origin-spanning gene hiding the gene that reaches into the area; "
        "origin_gene_padding_window: gene reaching into both parts of an origin-spanning area, both forms, both strands, and an "
        "ORF over the origin that must be kept; ambiguous_stop_translation: TAR / TRA inside an ORF, both strands) runs first; "
        "get_trimmed_orf: ORFs planted on circular genomes in one part or in two parts over the origin, both strands, further "
        "start codons in frame, include / max_length / min_length unset or on and around the start codons, against the model "
        "and a Biopython oracle (suffix of the ORF at a start codon, positions, limits, translation), after the witnesses of the "
        "repaired finding trimmed_orf_over_origin.  "
        "Non-trivial = at least one ORF / one area / one feature "
        "reported; distinct by flat encoding")


PENDING_BASE = []   # alias of the list of cases, to know the index of the current case
GAP_SPEC = []       # (index of the case, case, flat case of run id 12, shown output): Gallina specification of C15_gaps
# Model.gaps_class: COVERAGE classes only, nothing is suppressed for them.  2 = a gene reaches into both parts of an
# origin-spanning area (the inputs of the former class origin_gene_padding_window, FC15b: repaired); 1 was
# area_misses_enclosing_gene (FC15a): repaired, never returned any more
GAP_CLASS = {2: "gene_in_both_parts_of_origin_area"}


def enc_chars(text):
    return [len(text)] + [ord(c) for c in text]


def run_find_all(chk, gen, all_orfs, starts, stops, case=None):
    regression = case is not None
    if case is None:
        case = gen.find_all_case()
    else:
        chk.count("find_all_regression_corpus")
    record, area = build_record(case)
    cds = record.get_cds_features()
    flat = [PROP, 3] + enc_chars(case["genome"]) + [len(cds)]
    for gene in cds:
        flat += enc_pyloc(gene.location)
    if area is None:
        flat += [0]
    else:
        flat += [1] + enc_pyloc(area.location)
    flat += [case["min_length"], case["max_overlap"]]
    chk.count("find_all_orfs")
    chk.count("find_all_area_" + ("none" if area is None else "origin" if len(area.location.parts) > 1 else "inner"))
    nontrivial = False
    try:
        features = common.call_with_timeout(
            lambda: all_orfs.find_all_orfs(record, area, min_length=case["min_length"], max_overlap=case["max_overlap"]))
        out = [0, len(features)]
        for feature in features:
            out += enc_pyloc(feature.location) + enc_chars(feature.get_name()) + enc_chars(feature.translation)
            if not (feature.locus_tag == feature.protein_id == feature.gene):
                chk.violation("counterexample", "find_all_orfs: locus_tag, protein_id and gene of a new feature differ",
                              {"theorem_or_correspondence": "create_feature_from_location", "input": case, "flat": flat})
        bad = find_all_oracle(case, record, area, features, starts, stops)
        if bad:
            replay = {"theorem_or_correspondence": "C15_gaps / find_all_orfs", "input": case, "flat": flat,
                      "implementation": [f"{f.location} {f.get_name()} {f.translation}" for f in features]}
            # (an overlap with a gene the look-up helper had left out used to be the recorded class
            #  area_misses_enclosing_gene, FC15a; an overlap with a gene reaching into both parts of an origin-spanning
            #  area - message OVERLAP-ORIGIN - the recorded class origin_gene_padding_window, FC15b: both repaired, so
            #  either is a violation like any other)
            if regression:
                replay["regression_corpus_of_repaired_classes"] = list(REPAIRED_FIND_ALL_CLASSES)
            chk.violation("counterexample", f"find_all_orfs returns a feature violating the property: {bad}", replay)
        nontrivial = len(features) > 0
        # the Gallina specification (Model.spec_gaps: shared positions with every gene, searched part, translation;
        # guard and class of C15_gaps) on this output
        GAP_SPEC.append((len(PENDING_BASE), case, [PROP, 12] + flat[2:] + out[1:],
                         [f"{f.location} {f.get_name()} {f.translation}" for f in features]))
        chk.count(f"find_all_features_{min(len(features), 3)}{'+' if len(features) >= 3 else ''}")
        if any(len(f.location.parts) > 1 for f in features):
            chk.count("find_all_wrapped_feature")
    except Exception as exc:  # pylint: disable=broad-except
        out = [1, err_code(exc)]
        chk.count("find_all_error_" + common.ERR_NAME.get(out[1], str(out[1])))
    sample = {"function": "find_all_orfs", **case, "implementation": out[:40]}
    return flat, out, nontrivial, sample


# regression corpus of get_trimmed_orf: witnesses of the REPAIRED finding FC15d trimmed_orf_over_origin (an ORF in two parts
# over the origin, as find_all_orfs returns it, was trimmed by arithmetic on the envelope of its location: [6:60](+) for
# join{[48:60](+),[0:9](+)}), forward and reverse strand
_FC15D_TEXT = "ATGAAAATGAAAAAAAAATAA"
REGRESSION_TRIMMED = [
    {"genome": "AAAAAATAA" + "C" * 39 + "ATGAAAATGAAA", "orf": [(48, 60, 1), (0, 9, 1)], "include": None,
     "max_length": None, "min_length": 5, "text": _FC15D_TEXT},
    {"genome": revcomp("AAAAAATAA" + "C" * 39 + "ATGAAAATGAAA"), "orf": [(0, 12, -1), (51, 60, -1)], "include": None,
     "max_length": None, "min_length": 5, "text": _FC15D_TEXT},
    {"genome": "AAAAAATAA" + "C" * 39 + "ATGAAAATGAAA", "orf": [(48, 60, 1), (0, 9, 1)], "include": 7,
     "max_length": 18, "min_length": 0, "text": _FC15D_TEXT},
]


def run_trimmed(chk, gen, all_orfs, case=None):
    from antismash.common.secmet import Record
    from antismash.common.secmet.test.helpers import DummyCDS
    from Bio.Seq import Seq
    if case is None:
        case = gen.trimmed_case()
    else:
        chk.count("trimmed_regression_corpus")
    record = Record(Seq(case["genome"]), transl_table=11)
    record.add_annotation("topology", "circular")
    location = make_location(case["orf"])
    orf = DummyCDS(location=location, locus_tag="orf", translation="MA")
    opt = lambda x: [0] if x is None else [1, x]
    flat = [PROP, 4] + enc_chars(case["genome"]) + enc_pyloc(location) + opt(case["include"]) + opt(case["max_length"]) + \
           [case["min_length"]]
    chk.count("get_trimmed_orf")
    chk.count("trimmed_orf_parts_" + str(len(location.parts)))
    nontrivial = False
    try:
        result = common.call_with_timeout(
            lambda: all_orfs.get_trimmed_orf(orf, record, include=case["include"], min_length=case["min_length"],
                                             max_length=case["max_length"]))
        if result is None:
            out = [0, 0]
        else:
            out = [0, 1] + enc_pyloc(result.location) + enc_chars(result.get_name()) + enc_chars(result.translation)
            nontrivial = True
            chk.count("trimmed_orf_found_parts_" + str(len(result.location.parts)))
        bad = trimmed_oracle(case, location, result)
        if bad:
            chk.violation("counterexample", f"get_trimmed_orf: {bad}",
                          {"theorem_or_correspondence": "C15_trimmed_positions / get_trimmed_orf", "input": case, "flat": flat,
                           "implementation": None if result is None else f"{result.location} {result.translation}"})
    except Exception as exc:  # pylint: disable=broad-except
        out = [1, err_code(exc)]
        chk.count("trimmed_error_" + common.ERR_NAME.get(out[1], str(out[1])))
    sample = {"function": "get_trimmed_orf", **case, "implementation": out[:40]}
    return flat, out, nontrivial, sample


def run_scan(chk, all_orfs, starts, stops, case, index, spec_cases, spec_of):
    """ one scan_orfs call: correspondence case (run id 1), the implementation-side oracle, and the Gallina specification
        on the implementation's output - run id 13 (spec_scan_ring: spec_scan + ring shape + extraction from the record) when
        the window was cut out of a ring, run id 11 (spec_scan) otherwise """
    rl = case["record_length"]
    flat = [PROP, 1, len(case["seq"])] + [ord(c) for c in case["seq"]] + \
           [case["direction"], case["offset"], case["minimum"]] + ([0] if rl is None else [1, rl])
    for cls in case["classes"]:
        chk.count("scan_" + cls)
    chk.count("scan_direction_" + ("forward" if case["direction"] == 1 else "reverse"))
    try:
        locs = all_orfs.scan_orfs(case["seq"], case["direction"], case["offset"], case["minimum"], rl)
        out = [len(locs)]
        for loc in locs:
            out += enc_pyloc(loc)
        bad = orf_oracle(case, locs, starts, stops)
        if bad:
            chk.violation("counterexample", f"scan_orfs reports a location that is not an ORF of the record: {bad}",
                          {"theorem_or_correspondence": "C15_coordinates_any_offset / scan_orfs", "input": case, "flat": flat,
                           "implementation": [str(l) for l in locs]})
        # the Gallina specification on this output
        if case["ring"]:
            spec_cases.append([PROP, 13] + enc_chars(case["genome"]) + flat[2:] + out)
        else:
            spec_cases.append([PROP, 11] + flat[2:] + out)
        spec_of.append((index, case, [str(l) for l in locs]))
        chk.count("scan_orfs")
        chk.count(f"orfs_{min(len(locs), 3)}{'+' if len(locs) >= 3 else ''}")
        if any(len(l.parts) > 1 for l in locs):
            chk.count("wrapped_orf")
            if "positive_offset_overshooting" in case["classes"]:
                chk.count("wrapped_orf_positive_offset")
        if rl is not None and 0 <= case["offset"] < rl and \
                any(len(l.parts) == 1 and int(l.end) <= case["offset"] + len(case["seq"]) - rl for l in locs):
            chk.count("orf_after_origin_positive_offset")
        nontrivial = len(locs) > 0
    except Exception as exc:  # pylint: disable=broad-except
        out = [-1, err_code(exc)]
        chk.count("error_" + common.ERR_NAME.get(out[1], str(out[1])))
        nontrivial = False
    sample = {"function": "scan_orfs", **case, "implementation": out}
    return flat, out, nontrivial, sample


def run(chk):
    if not chk.build_and_audit():
        return chk.finish(RULE)
    from antismash.common import all_orfs
    starts, stops = set(all_orfs.START_CODONS), set(all_orfs.STOP_CODONS)
    gen = Gen(chk.rng, starts, stops)
    total = 30000 if chk.tier == "quick" else 400000
    exact_minimum_known = any(f["status"] == "known" and f["class"] == "orf_exact_minimum"
                              for f in common.load_known_findings("C15"))
    cases, impl_outs = [], []
    spec_cases, spec_of = [], []
    del GAP_SPEC[:]
    global PENDING_BASE  # pylint: disable=global-statement
    PENDING_BASE = cases
    corpus = regression_cases()
    trimmed_corpus = [dict(case) for case in REGRESSION_TRIMMED]
    scan_head = scan_corpus() + scan_enumeration(chk.tier)
    head = len(corpus) + len(trimmed_corpus) + len(scan_head)
    for i in range(total):
        r = chk.rng.random()
        if i < len(corpus):
            flat, out, nontrivial, sample = run_find_all(chk, gen, all_orfs, starts, stops, case=corpus[i])
        elif i < len(corpus) + len(trimmed_corpus):
            flat, out, nontrivial, sample = run_trimmed(chk, gen, all_orfs, case=trimmed_corpus[i - len(corpus)])
        elif i < head:
            flat, out, nontrivial, sample = run_scan(chk, all_orfs, starts, stops,
                                                     scan_head[i - len(corpus) - len(trimmed_corpus)], len(cases),
                                                     spec_cases, spec_of)
        elif r < 0.04:
            flat, out, nontrivial, sample = run_trimmed(chk, gen, all_orfs)
        elif r < 0.63:
            flat, out, nontrivial, sample = run_scan(chk, all_orfs, starts, stops, gen.scan_case(), len(cases),
                                                     spec_cases, spec_of)
        elif r < 0.9:
            case = gen.intergenic_case()
            genes = [types.SimpleNamespace(location=types.SimpleNamespace(start=s, end=e)) for s, e in case["genes"]]
            flat = [PROP, 2, case["start"], case["end"], len(genes)] + [x for g in case["genes"] for x in g] + \
                   [case["min_length"], case["padding"]]
            areas = all_orfs.find_intergenic_areas(case["start"], case["end"], genes, case["min_length"], case["padding"])
            out = [len(areas)] + [int(x) for a in areas for x in a]
            bad = intergenic_oracle(case, areas)
            if bad:
                chk.violation("counterexample", f"find_intergenic_areas: {bad}",
                              {"theorem_or_correspondence": "C15_intergenic_sound / C15_intergenic_complete", "input": case,
                               "flat": flat, "implementation": areas})
            chk.count("find_intergenic_areas")
            nontrivial = len(areas) > 0 and len(genes) > 0
            sample = {"function": "find_intergenic_areas", **case, "implementation": areas}
        else:
            flat, out, nontrivial, sample = run_find_all(chk, gen, all_orfs, starts, stops)
        cases.append(flat)
        impl_outs.append(out)
        chk.note_case(flat, nontrivial, sample)
    model_outs = common.correspondence(chk, cases, impl_outs,
                                       describe=lambda flat: {"function": flat[1], "payload": flat[2:]})
    # decidable specification (C15/Model.v spec_scan: is_orf in bounded-quantifier form, record positions in
    # transcription order, minimum length) on every scan_orfs output of the implementation
    verdicts = common.run_driver(spec_cases)
    suppressed = 0
    for verdict, (idx, case, shown) in zip(verdicts, spec_of):
        chk.count("spec_evaluated")
        if len(verdict) != (7 if case["ring"] else 3):
            chk.violation("broken-correspondence", "the specification could not be evaluated on an implementation output",
                          {"theorem_or_correspondence": "spec_scan_ring" if case["ring"] else "spec_scan", "input": case,
                           "flat": cases[idx], "verdict": verdict})
            break
        spec_ok, guard, spec_partial = verdict[:3]
        if case["ring"]:
            chk.count("spec_ring_evaluated")
            shape_ok, orf_text_ok, extract_ok, consistent = verdict[3:]
            if not consistent:
                chk.violation("broken-correspondence", "generator: the text handed to scan_orfs is not the window of the "
                              "record at the offset told (Model.ring_window)",
                              {"theorem_or_correspondence": "spec_scan_ring (generator consistency)", "input": case,
                               "flat": cases[idx], "verdict": verdict})
                break
            if not (shape_ok and orf_text_ok and extract_ok):
                # theorem C15_scan_ring_spec_ok: the model's output passes these three for every window not longer than
                # the record; no recorded finding concerns them, so a failure is always a violation
                chk.violation("counterexample", "scan_orfs on a window of a circular record: a reported location "
                              + ("does not lie inside [0, record_length) in at most two parts split at the origin" if not shape_ok
                                 else "does not extract from the record to an open reading frame" if not orf_text_ok
                                 else "does not extract from the record to the text of an ORF of the scanned window"),
                              {"theorem_or_correspondence": "C15_coordinates_any_offset / C15_scan_ring_spec_ok (spec_scan_ring)",
                               "input": case, "flat": cases[idx], "implementation": shown, "model": model_outs[idx],
                               "spec_verdict_on_implementation_output": {
                                   "spec_ok": spec_ok, "guard_no_exact_minimum_orf": guard,
                                   "spec_ok_with_length_above_minimum": spec_partial, "ring_shape_ok": shape_ok,
                                   "extracts_to_an_orf_text": orf_text_ok, "extracts_to_an_orf_of_the_window": extract_ok}})
                continue
        if spec_ok:
            continue
        if not guard and exact_minimum_known and spec_partial and impl_outs[idx] == model_outs[idx]:
            suppressed += 1      # recorded finding orf_exact_minimum: in class, listed, implementation == faithful model
            continue
        chk.violation("counterexample", "scan_orfs: the output is not exactly the ORFs of the window (is_orf, at least the "
                      "minimum length, positions on the record in transcription order, ordered by position)",
                      {"theorem_or_correspondence": "C15_scan_sound_complete / C15_coordinates (spec_scan)", "input": case,
                       "flat": cases[idx], "implementation": shown, "model": model_outs[idx],
                       "spec_verdict_on_implementation_output": {"spec_ok": spec_ok, "guard_no_exact_minimum_orf": guard,
                                                                 "spec_ok_with_length_above_minimum": spec_partial}})
    # C15_gaps / C15_translation: Model.spec_gaps on every find_all_orfs output of the implementation.  The theorem
    # C15_gaps_spec_ok says the model's output satisfies it on every well-formed input with an ACGT/acgt genome (verdict
    # slot "guard" = exactly those hypotheses; no class of inputs is excluded any more), so every failure is a violation.
    gap_verdicts = common.run_driver([g[2] for g in GAP_SPEC])
    gap_stats = {"evaluated": 0, "guard_holds": 0, "class_gene_in_both_parts_of_origin_area": 0,
                 "features_returned_in_class_gene_in_both_parts_of_origin_area": 0}
    for verdict, (idx, case, spec_flat, shown) in zip(gap_verdicts, GAP_SPEC):
        if len(verdict) != 4:
            chk.violation("broken-correspondence", "the gap specification could not be evaluated on an implementation output",
                          {"theorem_or_correspondence": "spec_gaps", "input": case, "flat": spec_flat, "verdict": verdict})
            break
        spec_ok, guard, cls, well_formed = verdict
        gap_stats["evaluated"] += 1
        gap_stats["guard_holds"] += 1 if guard else 0
        if cls in GAP_CLASS:
            gap_stats["class_" + GAP_CLASS[cls]] += 1
            gap_stats["features_returned_in_class_" + GAP_CLASS[cls]] += len(shown)
        if spec_ok:
            continue
        replay = {"theorem_or_correspondence": "C15_gaps / C15_translation (spec_gaps)", "input": case, "flat": cases[idx],
                  "spec_flat": spec_flat, "implementation": shown, "model": model_outs[idx],
                  "spec_verdict_on_implementation_output": {"spec_ok": spec_ok, "guard": guard, "class": cls,
                                                            "well_formed": well_formed}}
        chk.violation("counterexample", "find_all_orfs: a returned feature shares more than max_overlap positions with a "
                      "gene, leaves the searched area, or carries a translation that is not the protein of its location"
                      + ("" if guard else " (input not well-formed in the sense of Model.gaps_wf)")
                      + (f" (coverage class {GAP_CLASS[cls]})" if cls in GAP_CLASS else ""), replay)
    chk.extra["spec_gaps"] = gap_stats
    chk.extra["spec_scan_evaluations"] = len(verdicts)
    chk.extra["spec_failures_in_known_class_orf_exact_minimum"] = suppressed
    gap_flats = [g[2] for g in GAP_SPEC]
    chk.crosscheck_vm(cases + spec_cases[:len(spec_cases) // 20] + gap_flats[:len(gap_flats) // 10],
                      model_outs + verdicts[:len(spec_cases) // 20] + gap_verdicts[:len(gap_flats) // 10])
    known_findings(chk, all_orfs)
    return chk.finish(RULE, trusted_extra=["Biopython Seq/extract/translate used by the implementation-side oracles"])


def known_findings(chk, all_orfs):
    """ recorded, unrepaired defects: printed only while the stored witness still reproduces """
    for finding in common.load_known_findings("C15"):
        if finding["status"] != "known":
            continue
        if finding["class"] == "orf_exact_minimum":
            seq = finding["witness"]["seq"]
            minimum = finding["witness"]["minimum"]
            if len(all_orfs.scan_orfs(seq, 1, 0, minimum)) == 0 and len(all_orfs.scan_orfs(seq, 1, 0, minimum - 1)) == 1:
                chk.known(finding["what_fails"])


def replay(chk, path):
    import json
    doc = json.load(open(path))
    print("model:", common.run_driver([doc["flat"]])[0], "recorded implementation:", doc.get("implementation"))
    return 0
